"""C11 — Big-integer arithmetic is exact (bigint.c + the fiBInt* wrappers of foam_i.c).

Stages (BUILDER_CONTRACT):
  1. no translator: the model is hand-written (coq/BigInt/Model.v); its constants are compared with a
     probe of the current C macros (op "consts") on every run.
  2. proof stage: coq/Props/Properties_C11.v (theorems of coq/BigInt/Facts*.v).
  3. correspondence: extracted model (coq/BigInt/driver.ml) versus a harness that #includes the
     CURRENT bigint.c and links the current foam_i.c/foam_c.c/store.c/... (harness/bigint/h.c);
     value AND representation of every result are compared.  Independently of the model every C result
     is compared with exact integer arithmetic (python ints): the direct oracle of the property statement.
"""
import json, os, sys, time
from vlib import common as C

ID = "C11"
LEVEL = "proof"
MANIFEST = {
    "level_text": "Coq proofs (36 theorems, closed under the global context) that a function-for-function Gallina model "
                  "of bigint.c, dword.c's xxTimesDouble/xxModDouble and the fiBInt* wrappers of foam_i.c returns exact "
                  "results in normal form for ALL integers (induction over digit lists, no size bound): sum, difference, "
                  "product, Knuth's Algorithm D as coded (truncated quotient, remainder with the dividend's sign, "
                  "a = q*b + r), remainder through all three bintMod branches, gcd, powers, modular powers, shifts, bit "
                  "length, bit test, comparisons, decimal output, decimal and radix 2..36 input, conversion from/to "
                  "machine integers.  The model is tied to the CURRENT C source on every run by a correspondence "
                  "(value, raw representation and decimal text of every result, ~60k operations on the property's "
                  "operand families in the quick tier) and every C result is also compared with exact integer "
                  "arithmetic.",
    "level_note": "Trusted: Coq kernel; extraction (ExtrOcamlBasic) and the OCaml driver; that the hand-written model is "
                  "the code outside the generated operand families (the correspondence is a test, the theorems are "
                  "about the model); gcc -O0 on x86-64/LP64; libc sprintf/strtol/log.",
    "technique": "Coq proof of a function-for-function Gallina model of bigint.c + correspondence "
                 "(extracted OCaml vs C harness on current sources) + direct exact-arithmetic oracle",
    "design_ref": "DESIGN.md section 4 / C11",
}

R = 1 << 32
IMM_MAX = (1 << 62) - 1
EXPECTED_CONSTS = None      # the model's own line is the reference

# ------------------------------------------------------------------ encoding

def hx(n):
    return ("-%x" % -n) if n < 0 else ("%x" % n)


def canon(v):
    """Normal-form raw token of the integer v (immediate iff |v| <= 2^62-1)."""
    if -IMM_MAX <= v <= IMM_MAX:
        return "i" + hx(v)
    neg = v < 0
    u = -v if neg else v
    ds = []
    while u:
        ds.append(u % R)
        u //= R
    return "s%d:%s" % (1 if neg else 0, ",".join("%x" % d for d in ds))


def raw_value(tok):
    """Integer denoted by a raw token (any representation, normal or not)."""
    if tok[0] == "i":
        return int(tok[1:], 16)
    neg = tok[1] == "1"
    body = tok[3:]
    v = 0
    if body:
        for i, d in enumerate(body.split(",")):
            v += int(d, 16) << (32 * i)
    return -v if neg else v


def tstr(s):
    return "t" + "".join("%02x" % ord(c) for c in s)


def untstr(tok):
    assert tok[0] == "t", tok
    return bytes.fromhex(tok[1:]).decode("latin-1")


def quot(a, b):
    q = abs(a) // abs(b)
    return q if (a < 0) == (b < 0) else -q


def rem(a, b):
    return a - quot(a, b) * b


def to_radix(v, radix):
    digs = "0123456789ABCDEFGHIJKLMNOPQRSTUVWXYZ"
    u = abs(v)
    s = ""
    while True:
        s = digs[u % radix] + s
        u //= radix
        if u == 0:
            break
    return s


# ------------------------------------------------------------------ operand families

def fam_pow2(maxk):
    out = []
    for k in range(0, maxk + 1):
        for d in (-2, -1, 0, 1, 2):
            v = (1 << k) + d
            out.append(v)
            out.append(-v)
    return out


def fam_boundary():
    out = []
    for base in (IMM_MAX, 1 << 62, (1 << 31) - 1, 1 << 31, R, 1 << 63, 1 << 64, R * R * R, 10 ** 9, 10 ** 18):
        for d in range(-2, 3):
            out += [base + d, -(base + d)]
    out += [0, 1, -1, 2, -2]
    return out


def fam_patterns(maxn):
    out = []
    for n in range(1, maxn + 1):
        ones = (1 << (32 * n)) - 1
        high = 1 << (32 * n - 1)
        alt_a = int("AAAAAAAA" * n, 16)
        alt_5 = int("55555555" * n, 16)
        altdig = sum(((R - 1) if i % 2 == 0 else 0) << (32 * i) for i in range(n)) | (1 << (32 * n))
        zmid = (1 << (32 * n)) | 1
        zmid2 = ((R - 1) << (32 * n)) | (R - 1)
        for v in (ones, high, alt_a, alt_5, altdig, zmid, zmid2, ones - 1, ones + 1, high - 1, high + 1,
                  ones ^ (1 << (32 * (n // 2))), (1 << (32 * n - 1)) - 1 + (1 << (32 * n - 1))):
            out += [v, -v]
    return out


SPECIAL_DIGITS = [0, 1, 2, R - 1, R - 2, R // 2, R // 2 - 1, R // 2 + 1, 0xAAAAAAAA, 0x55555555, 0xFFFF, 0x10000]


def rand_structured(rng, maxbits):
    """Random magnitude: random bit length, digits biased to the special values."""
    bits = rng.randint(1, maxbits)
    mode = rng.random()
    if mode < 0.4:
        v = rng.getrandbits(bits) | (1 << (bits - 1))
    else:
        n = (bits + 31) // 32
        v = 0
        for i in range(n):
            d = rng.choice(SPECIAL_DIGITS) if rng.random() < 0.6 else rng.getrandbits(32)
            v |= d << (32 * i)
        v &= (1 << bits) - 1
        v |= 1 << (bits - 1)
    return -v if rng.random() < 0.5 else v


def knuth_cases(rng, count, maxn):
    """(u, v) pairs aimed at Algorithm D: top divisor digit around R/2 (d = 1 / d > 1), uj0 == v1,
    qhat over-estimates, add-back (Knuth's characterisation: low divisor digits large, v2 = 0, dividend
    a multiple of the two leading divisor digits), rhat overflow."""
    out = []
    # Hacker's Delight divmnu64 vectors (little-endian digit arrays)
    fixed = [
        ([3, 0, 0x80000000], [1, 0, 0x20000000]),
        ([3, 0, 0x00008000], [1, 0, 0x00002000]),
        ([0, 0, 0x00008000, 0x00007fff], [1, 0, 0x00008000]),
        ([0, 0x0000fffe, 0, 0x00008000], [0x0000ffff, 0, 0x00008000]),
        ([0, 0xfffffffe, 0, 0x80000000], [0x0000ffff, 0, 0x80000000]),
        ([0, 0xfffffffe, 0, 0x80000000], [0xffffffff, 0, 0x80000000]),
        ([0xffffffff, 0xffffffff, 0xffffffff, 0x7fffffff], [0xffffffff, 0xffffffff, 0x80000000]),
        ([0, 0, 0, 1], [0xffffffff, 0xffffffff]),
        ([0xfffffffe, 0xffffffff, 0xfffffffe], [0xffffffff, 0xffffffff]),
        ([0x0000789a, 0x0000bcde], [0x0000789a, 0x0000bcde]),
        ([0x00007899, 0x0000bcde], [0x0000789a, 0x0000bcde]),
        ([0x0000ffff, 0x0000ffff], [0x00000000, 0x00000001]),
        ([0x000089ab, 0x00004567, 0x00000123], [0x00000000, 0x00000001]),
        ([0x00000000, 0x0000fffe, 0x00008000], [0x0000ffff, 0x00008000]),
    ]
    def frd(ds):
        return sum(d << (32 * i) for i, d in enumerate(ds))
    for u, v in fixed:
        out.append((frd(u), frd(v)))
    tops = [R // 2 - 1, R // 2, R // 2 + 1, 1, 2, 3, R - 1, R - 2, R // 3, R // 4, 0x7fffffff, 0x80000001, 0xffff, 0x10000]
    for _ in range(count):
        n = rng.randint(2, maxn)
        kind = rng.randrange(6)
        v1 = rng.choice(tops) if rng.random() < 0.8 else rng.randint(1, R - 1)
        vd = [rng.choice(SPECIAL_DIGITS) if rng.random() < 0.5 else rng.getrandbits(32) for _ in range(n - 1)] + [v1]
        if kind == 0:
            # add-back: v2 = 0, low digits large; dividend = qq * (v1 * R^(n-1)) + small
            vd = [R - 1] * (n - 2) + [0, v1] if n >= 3 else [R - 1, v1]
            v = frd(vd)
            m = rng.randint(1, 3)
            u = 0
            for _j in range(m):
                qq = rng.choice([1, 3, R - 1, R // 2 + 1, rng.randint(1, R - 1)])
                u = u * R + qq
            u = u * (v1 << (32 * (n - 1))) + rng.choice([0, 1, R - 1, rng.getrandbits(32)])
        elif kind == 1:
            # uj0 == v1: dividend window starts with the divisor's top digit
            v = frd(vd)
            m = rng.randint(0, 3)
            u = (v1 << (32 * (n - 1 + m + 0))) * 1
            u = (frd(vd[-2:]) << (32 * (n - 2 + m))) | rng.getrandbits(32 * (n - 2 + m) if n - 2 + m > 0 else 1)
            if rng.random() < 0.5:
                u -= rng.randint(0, 3)
        elif kind == 2:
            # u = q*v + r with extreme quotient digits (R-1 / 0) and r = v-1, 0, 1
            v = frd(vd)
            m = rng.randint(1, 4)
            q = frd([rng.choice([0, R - 1, 1, R // 2, rng.getrandbits(32)]) for _j in range(m)])
            r = rng.choice([0, 1, v - 1, v // 2, rng.randrange(v)])
            u = q * v + r
        elif kind == 3:
            # u just below / at / above a multiple of v
            v = frd(vd)
            q = rng.getrandbits(32 * rng.randint(1, 3)) | 1
            u = q * v + rng.choice([-2, -1, 0, 1, 2])
        elif kind == 4:
            # rhat overflow: v1 = R/2 exactly, v2 large, dividend top digits just below v
            vd[-1] = R // 2
            if n >= 2:
                vd[-2] = rng.choice([R - 1, R - 2, R // 2])
            v = frd(vd)
            u = (v << (32 * rng.randint(1, 2))) - rng.randint(1, 1 << 40)
        else:
            v = frd(vd)
            u = rng.getrandbits(32 * (n + rng.randint(0, 4))) | 1
        if u < 0:
            u = -u
        if v == 0:
            v = 1
        out.append((u, v))
    return out


# ------------------------------------------------------------------ script generation

def gen_script(tier, rng):
    """Returns list of (line, spec) ; spec = dict describing how to check the result exactly."""
    quick = tier == "quick"
    lines = []

    def add(op, args, **spec):
        spec["op"] = op
        spec["args"] = args
        lines.append((" ".join([op] + args), spec))

    P2 = fam_pow2(200)
    BND = fam_boundary()
    PAT = fam_patterns(7 if quick else 12)
    RND = [rand_structured(rng, 260) for _ in range(250 if quick else 3000)]
    if not quick:
        RND += [rand_structured(rng, 4000) for _ in range(400)]
        PAT += fam_patterns(0) + [x for n in (31, 32, 33, 63, 64, 125) for x in fam_patterns_n(n)]
    ALL = P2 + BND + PAT + RND
    SMALLISH = [v for v in ALL if abs(v).bit_length() <= 300]

    # ---- unary ops on every operand
    for v in ALL:
        a = canon(v)
        add("neg", [a], val=-v)
        add("abs", [a], val=abs(v))
        add("length", [a], z=max(1, abs(v).bit_length()))
        add("pred", [a], bools=[v < 0, v == 0, v > 0, -IMM_MAX <= v <= IMM_MAX])
        add("tostr", [a], text=str(v))
        add("scan", [tstr(str(v))], val=v, rest="")
        add("tosint", [a], tosint=v)
        add("toplacevs", [a], u16=v)
    for v in ALL:
        if -(1 << 63) <= v < (1 << 63):
            add("new", ["z" + hx(v)], val=v)
    # machine-integer extremes
    for v in (-(1 << 63), (1 << 63) - 1, -(1 << 63) + 1, (1 << 62), -(1 << 62)):
        add("new", ["z" + hx(v)], val=v)

    # ---- bit tests and shifts
    pick = (lambda l, k: l if len(l) <= k else rng.sample(l, k))
    for v in pick(ALL, 1200 if quick else 6000):
        a = canon(v)
        L = abs(v).bit_length()
        ixs = {0, 1, 31, 32, 33, 63, 64, 65, max(L - 1, 0), L, L + 1, L + 31, L + 32, rng.randint(0, L + 40)}
        for ix in sorted(ixs)[: (6 if quick else 14)]:
            add("bit", [a, "z" + hx(ix)], bool=bool((abs(v) >> ix) & 1))
        ns = {0, 1, -1, 31, 32, 33, -31, -32, -33, 63, 64, 65, -63, -64, -65, 62 - L, 63 - L, 61 - L, 64 - L,
              -L, -L + 1, -L - 1, rng.randint(-L - 5, 130), rng.randint(-L - 5, 130)}
        for n in sorted(ns, key=lambda x: rng.random())[: (7 if quick else 20)]:
            if v == 0:
                exp = 0
            else:
                m = abs(v) << n if n >= 0 else abs(v) >> (-n)
                exp = m if v > 0 else -m
            add("shift", [a, "z" + hx(n)], val=exp)

    # ---- binary ops
    pairs = []
    def cross(A, B, k):
        for _ in range(k):
            pairs.append((rng.choice(A), rng.choice(B)))
    nb = 1 if quick else 6
    cross(P2, P2, 700 * nb)
    cross(BND, BND, 300 * nb)
    cross(BND, P2, 200 * nb)
    cross(PAT, PAT, 300 * nb)
    cross(PAT, P2, 200 * nb)
    cross(RND, RND, 300 * nb)
    cross(RND, PAT + BND, 200 * nb)
    # neighbours: a and a+-small, a and -a (cancellation, borrow chains)
    for _ in range(300 * nb):
        a = rng.choice(ALL)
        pairs.append((a, a + rng.choice([-2, -1, 0, 1, 2])))
        pairs.append((a, -a + rng.choice([-1, 0, 1])))
    # sums that land exactly on the immediate/stored boundary
    for _ in range(150 * nb):
        t = rng.choice([IMM_MAX, IMM_MAX + 1, -IMM_MAX, -IMM_MAX - 1, IMM_MAX - 1, R - 1, R, 1 << 63, (1 << 64) - 1, 1 << 64])
        a = rng.choice(BND + P2[:700])
        pairs.append((a, t - a))
    for a, b in pairs:
        ca, cb = canon(a), canon(b)
        add("plus", [ca, cb], val=a + b)
        add("minus", [ca, cb], val=a - b)
        add("cmp", [ca, cb], bools=[a == b, a < b, a > b])
        if abs(a).bit_length() + abs(b).bit_length() <= (2200 if quick else 9000):
            add("times", [ca, cb], val=a * b)
        if b != 0:
            add("divide", [ca, cb], qr=(a, b))
            add("mod", [ca, cb], val=rem(a, b))
    # products landing on the boundary / half-word fast path
    for _ in range(200 * nb):
        a = rng.choice([(1 << 31) - 1, 1 << 31, -(1 << 31), (1 << 31) + 1, -(1 << 31) + 1, 3, -3, 1, -1, 0,
                        1 << 30, (1 << 32) - 1, 1 << 32]) + rng.choice([0, 0, 1, -1])
        b = rng.choice(BND + P2[:400])
        add("times", [canon(a), canon(b)], val=a * b)
        add("times", [canon(b), canon(a)], val=a * b)
    for _ in range(100 * nb):
        a, b, c = rng.choice(SMALLISH), rng.choice(SMALLISH), rng.choice(SMALLISH)
        add("timesplus", [canon(a), canon(b), canon(c)], val=a * b + c)

    # ---- Knuth D families, all sign combinations
    for u, v in knuth_cases(rng, 600 if quick else 12000, 5 if quick else 9):
        for su in (1, -1):
            for sv in (1, -1):
                if quick and (su, sv) != (1, 1) and rng.random() < 0.5:
                    continue
                a, b = su * u, sv * v
                add("divide", [canon(a), canon(b)], qr=(a, b))
        add("mod", [canon(-u), canon(v)], val=rem(-u, v))
        add("quo", [canon(u), canon(-v)], val=quot(u, -v))
    # single-place and two-place divisors (bintModi branches: b < 2^32, 2^32 <= b < 2^63, b >= 2^63)
    for _ in range(400 * nb):
        a = rng.choice(ALL)
        b = rng.choice([1, 2, 3, 10, 10 ** 9, R - 1, R, R + 1, (1 << 62) - 1, 1 << 62, (1 << 62) + 1, (1 << 63) - 1,
                        1 << 63, (1 << 63) + 1, (1 << 64) - 1, rng.randint(1, R - 1), rng.randint(R, 1 << 63),
                        rng.randint(1 << 62, 1 << 64)])
        b = b if rng.random() < 0.5 else -b
        add("mod", [canon(a), canon(b)], val=rem(a, b))
        add("divide", [canon(a), canon(b)], qr=(a, b))

    # ---- gcd / powers / modular powers
    import math
    G = [v for v in ALL if abs(v).bit_length() <= (200 if quick else 700)]
    for _ in range(250 * nb):
        a, b = rng.choice(G), rng.choice(G)
        if rng.random() < 0.5:
            g = rng.choice(G)
            a, b = a * g, b * g
        add("gcd", [canon(a), canon(b)], val=math.gcd(a, b))
    for _ in range(150 * nb):
        a = rng.choice([0, 1, -1, 2, -2, 3, 10, -10, R - 1, R, -R, IMM_MAX, -IMM_MAX - 1, rng.choice(G)])
        maxe = 1 if a in (0, 1, -1) else max(1, (1500 if quick else 6000) // max(1, abs(a).bit_length()))
        e = rng.choice([0, 1, 2, 3, 31, 32, 33, 63, 64]) if abs(a) <= 2 else rng.randint(0, min(maxe, 70))
        if abs(a) > 2 and e > maxe:
            e = maxe
        add("sipow", [canon(a), "z" + hx(e)], val=a ** e)
        add("bipow", [canon(a), canon(e)], val=a ** e)
    for a, e, c in [(5, 0, 1), (5, 0, -1), (0, 0, 1), (7, 0, 2), (0, 0, 5), (0, 3, 5), (10, -1, 5), (3, -1, 5),
                    (-2, 3, 5), (-2, 4, 5), (2, 10, -1), (2 ** 70, 2 ** 65 + 1, 2 ** 64 - 59)]:
        add("powmod", [canon(a), canon(e), canon(c)], val=powmod_ref(a, e, c))
    for _ in range(150 * nb):
        a = rng.choice(G)
        e = (abs(rng.choice(G)) >> rng.choice([0, 0, 30, 60, 100])) & ((1 << 160) - 1)
        c = rng.choice(G)
        if abs(c).bit_length() > 400:
            c >>= abs(c).bit_length() - 400
        if c == 0:
            c = 7
        add("powmod", [canon(a), canon(e), canon(c)], val=powmod_ref(a, e, c))

    # ---- strings: decimal with padding, radix 2..36 both ways
    for _ in range(400 * nb):
        v = rng.choice(ALL)
        s = str(abs(v))
        form = rng.randrange(6)
        pre = rng.choice(["", " ", "\t ", "  "])
        zeros = "0" * rng.choice([0, 0, 1, 5, 20])
        tail = rng.choice(["", "", " ", "x", "r", "+1", ".5"])
        txt = pre + ("-" if v < 0 else "") + zeros + s + tail
        add("scan", [tstr(txt)], val=v, rest=tail)
    for _ in range(700 * nb):
        v = rng.choice(ALL)
        radix = rng.choice([2, 3, 7, 8, 10, 16, 32, 35, 36]) if rng.random() < 0.6 else rng.randint(2, 36)
        body = to_radix(v, radix)
        if radix == 16 and len(body) > 1 and body[0] == "0" and body[1] == "X":
            continue
        pre = rng.choice(["", " ", "\t"])
        sign = "-" if v < 0 else rng.choice(["", "+"])
        zeros = "0" * rng.choice([0, 0, 0, 1, 3, 30])
        tail = rng.choice(["", "", " ", "x", ".", "-"])
        txt = pre + sign + ("%dr" % radix) + zeros + body + tail
        add("rscan", [tstr(txt)], val=v, rest=tail)
        if radix == 10:
            txt2 = pre + sign + zeros + body + tail
            add("rscan", [tstr(txt2)], val=v, rest=tail)

    # ---- bintFrPlacev / fiBIntFrPlacev (generated code builds its literals with these)
    for _ in range(200 * nb):
        v = rng.choice(ALL)
        u = abs(v)
        ds = []
        while u:
            ds.append(u % R)
            u //= R
        ds += [0] * rng.choice([0, 0, 1, 2])
        add("frplacev", ["b1" if v < 0 else "b0", "l" + ",".join("%x" % d for d in ds)], val=v)
        u = abs(v)
        hs = []
        while u:
            hs.append(u % 65536)
            u //= 65536
        # every count parity: an odd count is widened in place by the C (the harness array has room for it);
        # high-order zero half-places allowed
        hs2 = hs + [0] * rng.choice([0, 0, 1, 2, 3])
        add("frplacevs", ["b1" if v < 0 else "b0", "l" + ",".join("%x" % d for d in hs2)], val=v)
        add("rtplacevs", [canon(v)], val=v)
    # 16-bit place boundaries: all-ones halves, a single high half, counts 0..9
    for cnt in range(0, 10):
        for pat in ([0xffff] * cnt, [0] * max(cnt - 1, 0) + [1] * min(cnt, 1), [0x8000] * cnt,
                    [0xffff if i % 2 else 0 for i in range(cnt)], [0 if i % 2 else 0xffff for i in range(cnt)]):
            v = sum(d << (16 * i) for i, d in enumerate(pat))
            for neg in (False, True):
                add("frplacevs", ["b1" if neg else "b0", "l" + ",".join("%x" % d for d in pat)], val=-v if neg else v)
                add("rtplacevs", [canon(-v if neg else v)], val=-v if neg else v)

    # ---- radix scan at the chunk boundaries of EVERY radix: 1..3 chunks of dio digits, +-1 digit, extreme digits
    digs = "0123456789ABCDEFGHIJKLMNOPQRSTUVWXYZ"
    for radix in range(2, 37):
        dio, p = 0, 1
        while p * radix < R:        # the widest chunk whose value fits a 32-bit place
            p *= radix
            dio += 1
        for k in (1, 2, 3) if quick else (1, 2, 3, 5, 8):
            for nd in (k * dio - 1, k * dio, k * dio + 1):
                for body in (digs[radix - 1] * nd, "1" + "0" * (nd - 1), digs[radix - 1] + "0" * (nd - 1),
                             "".join(rng.choice(digs[:radix]) for _ in range(nd))):
                    v = int(body, radix)
                    sign = rng.choice(["", "-", "+"])
                    add("rscan", [tstr(sign + ("%dr" % radix) + body)], val=-v if sign == "-" else v, rest="")

    # ---- bintShiftRem on the inputs on which the C is defined (Model.shiftrem_defined) and the result keeps the
    # normal form (FactsShiftRem.shiftrem_normal); non-negative operands: "lowest n bits"
    for v in pick([x for x in ALL if x >= 0], 500 if quick else 3000):
        L = v.bit_length()
        if -IMM_MAX <= v <= IMM_MAX:
            ns = {0, 1, 2, 15, 16, 29, 30, rng.randint(0, 30), min(30, max(0, L - 1)), min(30, L)}
        else:
            places = (L + 31) // 32
            ns = set()
            for pa in {1, 2, places - 1, places, rng.randint(1, places)}:
                if pa >= 1:
                    for top in (1, 2, 15, 16, 29, 30, rng.randint(1, 30)):
                        ns.add(32 * (pa - 1) + top)
        for n in sorted(ns):
            if not (-IMM_MAX <= v <= IMM_MAX):
                pa = (n + 31) // 32
                top = n - 32 * (pa - 1)
                if pa > (L + 31) // 32 or not (1 <= top <= 30):
                    continue
                if pa >= 3 and ((v >> (32 * (pa - 1))) & ((1 << top) - 1)) == 0:
                    continue            # result not normalised by the C: in the as-coded stream below
            add("shiftrem", [canon(v), "z" + hx(n)], val=v % (1 << n))
    return lines


def fam_patterns_n(n):
    ones = (1 << (32 * n)) - 1
    high = 1 << (32 * n - 1)
    return [ones, -ones, high, -high, ones + 1, high - 1, int("AAAAAAAA" * n, 16), int("55555555" * n, 16)]


def powmod_ref(a, e, c):
    """Exact arithmetic: the remainder (sign of the dividend, as bintMod) of a^e by c.
    None = the wrapper raises (zero modulus; negative exponent unless a is a multiple of c)."""
    if c == 0:
        return None
    if e < 0:
        return 0 if rem(a, c) == 0 else None
    m = abs(c)
    p = pow(abs(a), e, m)
    neg = (a < 0) and (e % 2 == 1)
    return -p if neg else p


def gen_malformed(tier, rng):
    """Raw operands outside the normal form (stored small values, as bintXxx make internally; high-order
    zero places; immediates outside the symmetric range): only model-vs-C agreement is checked."""
    lines = []
    smalls = ["s0:5", "s1:5", "s0:0", "s0:ffffffff", "s0:1,1", "s1:ffffffff,3fffffff", "s0:ffffffff,3fffffff",
              "s0:0,40000000", "s1:0,40000000", "i-4000000000000000"]
    lead0 = ["s0:5,0", "s0:1,2,0", "s0:0,0,0", "s0:7,0,0,0"]   # high-order zero places, non-negative only:
    # with mixed signs bintPlus goes to iintMinus, whose assert(kp1 == 1) aborts on such operands
    others = ["i7", "i-7", "i0", canon(1 << 70), canon(-(1 << 70)), canon((1 << 64) - 1), canon(IMM_MAX)]
    for a in smalls:
        for b in smalls + others:
            for op in ("plus", "minus", "times", "cmp"):
                lines.append((" ".join([op, a, b]), None))
                lines.append((" ".join([op, b, a]), None))
            if b not in ("s0:0", "i0"):
                lines.append((" ".join(["divide", a, b]), None))
        for op in ("neg", "abs", "length", "pred", "tostr"):
            lines.append((" ".join([op, a]), None))
        for n in (0, 1, 31, 32, 33, 64, -1, -31, -32):
            if a[0] == "s":
                lines.append((" ".join(["shift", a, "z" + hx(n)]), None))
        for ix in (0, 31, 32, 63, 64):
            lines.append((" ".join(["bit", a, "z" + hx(ix)]), None))
    for a in lead0:
        for b in lead0 + [o for o in others if raw_value(o) >= 0]:
            for op in ("plus", "times", "cmp"):
                lines.append((" ".join([op, a, b]), None))
        for op in ("neg", "abs", "length", "pred"):
            lines.append((" ".join([op, a]), None))
    # bintShiftRem as coded where "lowest n bits" is not what it returns (negative operands: an immediate gives the
    # two's complement bits, a stored number the bits of its magnitude and loses the sign) or where the result is
    # left with high-order zero places; only model-vs-C agreement is checked
    for a in ("i-5", "i-3fffffffffffffff", canon(-((1 << 70) + 5)), canon(-((1 << 100) - 1)), "s0:5,0,40", "s0:5,0,0,10",
              canon((1 << 96) + (1 << 64) + 7)):
        for n in (1, 3, 30, 33, 40, 62, 65, 70, 94):
            if a[0] == "i":
                defined = n <= 30
            else:
                pa = (n + 31) // 32
                defined = pa <= len(a[3:].split(",")) and 1 <= n - 32 * (pa - 1) <= 30
            if defined:
                lines.append(("shiftrem %s z%x" % (a, n), None))
    # malformed strings
    for s in ["", " ", "-", "+", "abc", "r10", "1r10", "37r10", "0r1", "16rG", "2r102", "10r", "-16r-5", " +7r66",
              "00000000000000000000000000000000", "36rZZZZZZZZZZZZZZZZZZZZZZZZZ", "16rFFFFFFFFFFFFFFFFg",
              "123456789012345678901234567890x", "12 34", "-0", "-000", "+5"]:
        lines.append(("rscan " + tstr(s), None))
        lines.append(("scan " + tstr(s), None))
    return lines


# ------------------------------------------------------------------ running

def run_lines(exe, lines, timeout):
    """Run the script through an executable, restarting after a line that kills it.
    Returns list of output lines (same length as lines)."""
    outs = []
    pos = 0
    guard = 0
    while pos < len(lines):
        chunk = lines[pos:]
        rc, out, err = C.run([exe], input="\n".join(chunk) + "\n", timeout=timeout)
        got = out.split("\n")
        if got and got[-1] == "":
            got.pop()
        got = got[:len(chunk)]
        outs += got
        pos += len(got)
        if pos < len(lines):
            outs.append("died rc=%d" % rc)
            pos += 1
            guard += 1
            if guard > 50:
                outs += ["died (giving up)"] * (len(lines) - pos)
                break
    return outs


def run_parallel(exe, lines, timeout):
    """Round-robin over NCPU processes (the expensive operations come in runs), results back in order."""
    import concurrent.futures
    n = max(1, min(C.NCPU, len(lines)))
    chunks = [lines[i::n] for i in range(n)]
    with concurrent.futures.ThreadPoolExecutor(n) as ex:
        res = list(ex.map(lambda ch: run_lines(exe, ch, timeout), chunks))
    out = [None] * len(lines)
    for i, r in enumerate(res):
        for j, o in enumerate(r):
            out[i + j * n] = o
    return [o if o is not None else "died (no output)" for o in out]


HARNESS_FILES = None


def harness_files():
    fs = C.makefile_am_sources("libport_a_SOURCES") + C.makefile_am_sources("libgen_a_SOURCES")
    return [f for f in fs if f != "bigint.c"]


_built = {}


def build_c():
    if "c" not in _built:
        # -idirafter: configure-generated headers (opsys_port.h) that a source-only copy of the tree lacks are
        # taken from the built tree; every header present in the current tree still wins
        _built["c"] = C.build_harness("bigint", "bigint/h.c", harness_files(),
                                      extra_cflags=("-idirafter", C.RB + "/aldor/src",
                                                    "-idirafter", "/repo/aldor/aldor/src"))
    return _built["c"]


def build_model():
    if "m" not in _built:
        ex = C.COQ + "/BigInt/extracted/"
        _built["m"] = C.build_ocaml("bigint_model", [ex + "bigint.mli", ex + "bigint.ml"], C.COQ + "/BigInt/driver.ml")
    return _built["m"]


def generate():
    os.makedirs(C.COQ + "/BigInt/extracted", exist_ok=True)
    # translator: chunk width / multiplier of the scanners, from the current bigint.c
    from tools import bigint_gen
    return bigint_gen.generate(C.SRC + "/bigint.c", C.COQ + "/Gen/BigIntRadix.v", C.write_if_changed)


# ------------------------------------------------------------------ the direct oracle

def split_bint(tok):
    """'<raw>|t<hex>' -> (raw, text)"""
    raw, _, t = tok.partition("|")
    return raw, (untstr(t) if t.startswith("t") else None)


def check_bint(tok, expect):
    """Exactness of one C result token against the exact integer `expect`.
    Returns (value_ok, repr_ok, text_ok, raw)."""
    raw, text = split_bint(tok)
    try:
        v = raw_value(raw)
    except Exception:
        return False, False, False, raw
    return v == expect, raw == canon(expect), text == str(expect), raw


def oracle(spec, cout):
    """Check the property statement on the C output of one line.
    Returns None if fine, else a short description; sets spec['repr_only'] when only the representation
    (not the value) deviates."""
    if "crash" in cout or cout.startswith("died") or cout == "" or cout.startswith("badop"):
        return "no result (%s)" % cout.strip()[:40]
    toks = cout.split(" ")
    op = spec["op"]
    try:
        if "qr" in spec:
            a, b = spec["qr"]
            q, r = quot(a, b), rem(a, b)
            if len(toks) < 2:
                return "missing results"
            vq, rq, tq, _ = check_bint(toks[0], q)
            vr, rr, tr, _ = check_bint(toks[1], r)
            if not (vq and vr):
                gq, gr = raw_value(split_bint(toks[0])[0]), raw_value(split_bint(toks[1])[0])
                why = []
                if a != gq * b + gr:
                    why.append("a != q*b+r")
                if not abs(gr) < abs(b):
                    why.append("|r| >= |b|")
                if gr != 0 and (gr < 0) != (a < 0):
                    why.append("sign of r differs from the dividend's")
                return "quotient/remainder not exact (%s): got q=%d r=%d, exact q=%d r=%d" % (
                    "; ".join(why) or "not the truncated quotient", gq, gr, q, r)
            if not (tq and tr):
                return "decimal text of an exact result is wrong"
            if not (rq and rr):
                spec["repr_only"] = True
                return "result not in normal form"
            return None
        if "val" in spec:
            exp = spec["val"]
            if exp is None:
                return None if toks[0] == "none" else "expected the wrapper to raise"
            if toks[0] == "none":
                return "no result"
            vo, ro, to, raw = check_bint(toks[0], exp)
            if not vo:
                return "value not exact: got %d, exact %d" % (raw_value(raw), exp)
            if not to:
                return "decimal text of an exact result is wrong: %r" % (split_bint(toks[0])[1],)
            if "rest" in spec and untstr(toks[1]) != spec["rest"]:
                return "scan stopped at the wrong character: rest %r, expected %r" % (untstr(toks[1]), spec["rest"])
            if not ro:
                spec["repr_only"] = True
                return "result not in normal form"
            return None
        if "z" in spec:
            got = int(toks[0][1:], 16)
            return None if got == spec["z"] else "got %d, exact %d" % (got, spec["z"])
        if "bool" in spec:
            return None if toks[0] == ("b1" if spec["bool"] else "b0") else "got %s, exact %s" % (toks[0], spec["bool"])
        if "bools" in spec:
            exp = ["b1" if x else "b0" for x in spec["bools"]]
            return None if toks[:len(exp)] == exp else "got %s, exact %s" % (toks, exp)
        if "text" in spec:
            got = untstr(toks[0])
            return None if got == spec["text"] else "got %r, exact %r" % (got, spec["text"])
        if "tosint" in spec:
            v = spec["tosint"]
            got = int(toks[0][1:], 16)
            single = toks[1] == "b1"
            exp_single = abs(v).bit_length() < 64
            if single != exp_single:
                return "fiBIntIsSingle wrong"
            if exp_single and got != v:
                return "to machine integer: got %d, exact %d" % (got, v)
            return None
        if "u16" in spec:
            v = abs(spec["u16"])
            hs = []
            while v:
                hs.append(v % 65536)
                v //= 65536
            got = [int(x, 16) for x in toks[0][1:].split(",")] if len(toks[0]) > 1 else []
            if spec["u16"] == 0:
                return None if got in ([], [0]) else "got %s" % got
            return None if got == hs else "got %s, exact %s" % (got, hs)
    except Exception as e:      # unparsable output
        return "unparsable result %r (%s)" % (cout[:60], e)
    return None


def drop_text(cout, mout):
    """The model driver prints '-' instead of the decimal text of a long result; compare such a token on its
    raw representation only (the C text is still checked by the direct oracle)."""
    if "|-" not in mout:
        return cout
    ct, mt = cout.split(" "), mout.split(" ")
    if len(ct) != len(mt):
        return cout
    out = []
    for c, m in zip(ct, mt):
        if m.endswith("|-") and "|" in c:
            out.append(c.split("|")[0] + "|-")
        else:
            out.append(c)
    return " ".join(out)


def strip_model_extras(spec_op, mout):
    """The model prints, after a divide, the divide_exact_partial flag and the path statistics."""
    if spec_op == "divide" and mout != "none":
        toks = mout.split(" ")
        return " ".join(toks[:2]), toks[2:]
    return mout, []


FOLLOW_UPS = ["cmp", "plus0", "times1", "minus_self", "tostr", "neg", "length"]


def follow_up(cexe, raw, value):
    """A result with the right value but not in normal form: does a later operation on it go wrong?
    Returns (line, cout, why) of the first failing follow-up or None."""
    cands = [
        ("cmp %s %s" % (raw, canon(value)), {"op": "cmp", "bools": [True, False, False]}),
        ("cmp %s %s" % (canon(value), raw), {"op": "cmp", "bools": [True, False, False]}),
        ("cmp %s %s" % (raw, canon(value + 1)), {"op": "cmp", "bools": [False, True, False]}),
        ("cmp %s %s" % (raw, canon(value - 1)), {"op": "cmp", "bools": [False, False, True]}),
        ("plus %s i0" % raw, {"op": "plus", "val": value}),
        ("plus %s i1" % raw, {"op": "plus", "val": value + 1}),
        ("minus %s %s" % (raw, canon(value)), {"op": "minus", "val": 0}),
        ("times %s i3" % raw, {"op": "times", "val": 3 * value}),
        ("tostr %s" % raw, {"op": "tostr", "text": str(value)}),
        ("length %s" % raw, {"op": "length", "z": max(1, abs(value).bit_length())}),
        ("neg %s" % raw, {"op": "neg", "val": -value}),
        ("divide %s i7" % raw, {"op": "divide", "qr": (value, 7)}),
        ("shift %s z1" % raw, {"op": "shift", "val": 2 * value}),
    ]
    outs = run_lines(cexe, [c[0] for c in cands], 120)
    for (line, spec), out in zip(cands, outs):
        why = oracle(spec, out)
        if why and not spec.get("repr_only"):
            return line, out, why
    return None


SHIFTREM_CLASSES = [
    # (key, what, probes [(line, exact lowest-n-bits value)], normal-form follow-up?)
    ("shiftrem:immediate-n>=31",
     "bintShiftRem of an immediate masks with an int: (1 << n) - 1 is wrong for n >= 32 (and undefined from 31)",
     [("shiftrem i10000000005 z3e", (1 << 40) + 5), ("shiftrem i5 z20", 5), ("shiftrem i3fffffffffffffff z28", (1 << 40) - 1)]),
    ("shiftrem:allocated-n-multiple-of-32",
     "bintShiftRem of an allocated number with n a multiple of 32 zeroes the top place kept (1 << 32 on an int)",
     [("shiftrem s0:5,0,40 z20", 5), ("shiftrem s0:ffffffff,ffffffff,ffffffff z40", (1 << 64) - 1)]),
    ("shiftrem:allocated-n=0",
     "bintShiftRem of an allocated number with n = 0: the copy loop bound Placea(r) - 1 wraps and runs off the end",
     [("shiftrem s0:5,0,40 z0", 0)]),
    ("shiftrem:result-not-normalised",
     "bintShiftRem leaves high-order zero places in a result of three or more places (xintImmedIfCan does not drop them)",
     [("shiftrem s0:5,0,40 z46", 5)]),
    ("shiftrem:negative-operand",
     "bintShiftRem of a negative allocated number returns the bits of the magnitude and loses the sign; a negative "
     "immediate gives the two's-complement bits",
     [("shiftrem s1:5,0,40 z3", (-((64 << 64) + 5)) % 8), ("shiftrem s1:ffffffff,ffffffff,ffffffff z21", (-((1 << 96) - 1)) % (1 << 33))]),
    ("shiftrem:n-beyond-places",
     "bintShiftRem with n beyond the places of an allocated operand copies places the operand does not have",
     [("shiftrem s0:ffffffff,ffffffff z46", (1 << 64) - 1), ("shiftrem s0:5,0,40 z61", (64 << 64) + 5)]),
]


def shiftrem_findings(rep, cexe):
    """The classes of bintShiftRem inputs outside the guard of shiftrem_exact on which the real code does not return
    the lowest n bits in normal form.  Each probe runs in its own child process (one of them does not come back).
    A class that still misbehaves is reported under its own key; a class that behaves is simply not reported."""
    seen = []
    for key, what, probes in SHIFTREM_CLASSES:
        for line, exact in probes:
            out = run_lines(cexe, [line], 60)[0]
            script, outs, why = [line], [out], None
            tok = out.split(" ")[0] if out else ""
            try:
                raw = split_bint(tok)[0]
                got = raw_value(raw) if raw and raw[0] in "is" else None
            except Exception:
                raw, got = None, None
            if got is None:
                why = "no result (%s)" % out.strip()[:40]
            elif got != exact:
                why = "got %d, the lowest n bits are %d" % (got, exact)
            elif raw != canon(exact):
                l2 = "cmp %s %s" % (raw, canon(exact))
                o2 = run_lines(cexe, [l2], 60)[0]
                script, outs = [line, l2], [out, o2]
                if not o2.startswith("b1"):
                    why = "right value %d returned as %s, which then does not compare equal to it (%s)" % (exact, raw, o2.strip())
                else:
                    why = "right value %d returned outside the normal form as %s" % (exact, raw)
            if why:
                rep.violation("%s: %s" % (what, why), {"script": script, "c_output": outs, "why": why, "exact": exact}, key=key)
                seen.append(key)
                break
    rep.add_cov(shiftrem_outside_guard={"classes_probed": len(SHIFTREM_CLASSES), "classes_reproduced": seen})
    return seen


def correspondence(rep, tier, only_lines=None):
    cexe = build_c()
    mexe = build_model()
    rng = C.rng("c11")
    t0 = time.time()
    consts = ["consts"]
    cc = run_lines(cexe, consts, 60)[0]
    mc = run_lines(mexe, consts, 60)[0]
    consts_ok = cc == mc
    corpus = load_corpus()
    script = corpus + gen_script(tier, rng)
    mal = gen_malformed(tier, rng)
    lines = [l for l, _ in script]
    mlines = [l for l, _ in mal]
    tgen = time.time() - t0
    t1 = time.time()
    couts = run_parallel(cexe, lines + mlines, 1500)
    tc = time.time() - t1
    t1 = time.time()
    mouts = run_parallel(mexe, lines + mlines, 1700)
    tm = time.time() - t1

    n_agree = 0
    mism = []           # (line, cout, mout)
    bad = {}            # op -> list of (size, line, cout, why, repr_only)
    flags_false = []
    stats = {"knuth_steps": 0, "uj0_eq_v1": 0, "qhat_corrections": 0, "addback_steps": 0,
             "max_corrections_in_a_step": 0, "path_one_place": 0, "path_u_lt_v": 0, "path_algorithm_d": 0,
             "d_eq_1": 0, "d_gt_1": 0}
    opmix = {}
    sizes = {"<=62": 0, "63-64": 0, "65-128": 0, "129-256": 0, "257-1024": 0, ">1024": 0}
    distinct = set()
    for i, (line, spec) in enumerate(script):
        cout, mout = couts[i], mouts[i]
        op = spec["op"]
        opmix[op] = opmix.get(op, 0) + 1
        mcore, extras = strip_model_extras(op, mout)
        if extras:
            if extras[0] != "b1":
                flags_false.append(line)
            if len(extras) > 1 and extras[1].startswith("l"):
                st = [int(x, 16) for x in extras[1][1:].split(",")]
                if st[0] == 0:
                    stats["path_one_place"] += 1
                elif st[0] == 1:
                    stats["path_u_lt_v"] += 1
                else:
                    stats["path_algorithm_d"] += 1
                    stats["d_eq_1" if st[1] == 1 else "d_gt_1"] += 1
                    stats["knuth_steps"] += st[2]
                    stats["uj0_eq_v1"] += st[3]
                    stats["qhat_corrections"] += st[4]
                    stats["addback_steps"] += st[5]
                    stats["max_corrections_in_a_step"] = max(stats["max_corrections_in_a_step"], st[6])
        why = oracle(spec, cout)
        if why:
            size = len(line)
            bad.setdefault(op, []).append((size, line, cout, why, bool(spec.get("repr_only"))))
        if drop_text(cout, mcore) == mcore:
            n_agree += 1
        else:
            mism.append((line, cout, mcore, op))
        if line not in distinct:
            distinct.add(line)
            bits = max([abs(raw_value(a)).bit_length() for a in spec["args"] if a[0] in "is"] or [0])
            k = "<=62" if bits <= 62 else "63-64" if bits <= 64 else "65-128" if bits <= 128 else \
                "129-256" if bits <= 256 else "257-1024" if bits <= 1024 else ">1024"
            sizes[k] += 1
    mal_agree = 0
    mal_mism = []
    off = len(script)
    for j, (line, _) in enumerate(mal):
        cout, mout = couts[off + j], mouts[off + j]
        mcore, _extras = strip_model_extras(line.split(" ")[0], mout)
        if drop_text(cout, mcore) == mcore:
            mal_agree += 1
        else:
            mal_mism.append((line, cout, mcore))

    # ---- report
    reported = 0
    for op in sorted(bad):
        items = sorted(bad[op])
        hard = [x for x in items if not x[4]]
        if hard:
            size, line, cout, why, _ = hard[0]
            rep.violation("bigint %s: %s" % (op, why),
                          {"script": [line], "c_output": cout, "why": why, "count_for_this_op": len(hard)},
                          key="%s:%s" % (op, line))
            reported += 1
        else:
            # right value, wrong representation: look for a later operation that goes wrong on it
            size, line, cout, why, _ = items[0]
            raw = split_bint(cout.split(" ")[0])[0]
            found = None
            for size, line, cout, why, _ in items[:5]:
                for tok in cout.split(" ")[:2]:
                    raw = split_bint(tok)[0]
                    try:
                        v = raw_value(raw)
                    except Exception:
                        continue
                    if raw != canon(v):
                        f = follow_up(cexe, raw, v)
                        if f:
                            found = (line, cout, f)
                            break
                if found:
                    break
            if found:
                line, cout, (l2, out2, why2) = found
                rep.violation("bigint %s returns a result outside the normal form and then %s" % (op, why2),
                              {"script": [line, l2], "c_output": [cout, out2], "why": why2},
                              key="%s:%s" % (op, line))
            else:
                rep.violation("correspondence bigint/%s no longer checks: results are exact but not in the model's "
                              "normal form" % op, {"script": [items[0][1]], "c_output": items[0][2]}, no_input=True)
            reported += 1
    if not consts_ok:
        rep.violation("correspondence bigint/constants no longer checks: C macros %s, model %s" % (cc, mc),
                      {"c": cc, "model": mc}, no_input=True)
    if mism and not reported:
        line, cout, mout, op = sorted(mism, key=lambda x: len(x[0]))[0]
        rep.violation("correspondence bigint/%s no longer checks: model and implementation differ although the "
                      "implementation's result is exact" % op,
                      {"script": [line], "c_output": cout, "model_output": mout, "mismatches": len(mism)}, no_input=True)
    if mal_mism and not reported and not mism:
        line, cout, mout = mal_mism[0]
        rep.violation("correspondence bigint (operands outside the normal form) no longer checks",
                      {"script": [line], "c_output": cout, "model_output": mout, "mismatches": len(mal_mism)}, no_input=True)
    if flags_false and not reported:
        rep.violation("divide_exact_partial: the model's per-step flag is false on a case where the result is exact",
                      {"script": flags_false[:3]}, no_input=True)

    shiftrem_known = shiftrem_findings(rep, cexe)

    rep.add_cov(evaluations=len(script) + len(mal), distinct_nontrivial=len(distinct),
                traces_validated_against_impl=n_agree + mal_agree,
                rule="each script line run through the C harness (current bigint.c/foam_i.c) and the extracted model; "
                     "outputs compared as text (value, raw representation, decimal string); each C result also compared "
                     "with exact integer arithmetic",
                samples=[{"line": l, "c": couts[i][:160]} for i, (l, _) in list(enumerate(script))[::max(1, len(script) // 10)]],
                input_distribution={"ops": opmix, "largest_operand_bits": sizes, "knuth_d": stats,
                                    "outside_normal_form_lines": len(mal), "corpus_lines": len(corpus)},
                model_vs_c_mismatches=len(mism) + len(mal_mism), oracle_failures=sum(len(v) for v in bad.values()),
                divide_flag_false=len(flags_false), constants_agree=consts_ok,
                timings_s={"generate": round(tgen, 1), "c_harness": round(tc, 1), "model": round(tm, 1)})
    return reported


def load_corpus():
    """corpus/C11/*.json: list of {"line":..., "spec":{...}} minimised past failures, run first."""
    out = []
    d = C.VERIF + "/corpus/" + ID
    if os.path.isdir(d):
        for f in sorted(os.listdir(d)):
            if f.endswith(".json"):
                try:
                    for e in json.load(open(os.path.join(d, f))):
                        spec = e["spec"]
                        if "qr" in spec:
                            spec["qr"] = tuple(spec["qr"])
                        out.append((e["line"], spec))
                except Exception as ex:
                    print("corpus file %s unreadable: %s" % (f, ex))
    return out


def run(rep, tier):
    gen = generate()
    rep.add_cov(regenerated={"coq/Gen/BigIntRadix.v": {"translated": gen[0], "rows": len(gen[1]), "notes": gen[3]}})
    state = {"done": False}

    def searcher(log):
        # a proof obligation no longer checks: look for a concrete input on which the property statement
        # fails on the implementation (same families, direct oracle)
        state["done"] = True
        correspondence(rep, tier)

    ok = C.proof_stage(rep, ID, ["Props/Properties_C11.vo", "BigInt/Extract.vo"], "Props/Properties_C11.v", searcher)
    if not state["done"]:
        correspondence(rep, tier)
    rep.assume(
        "extraction: ExtrOcamlBasic only; Z stays Coq's binary integers; the OCaml driver converts hexadecimal text "
        "to/from Z constructor by constructor and does no arithmetic",
        "harness/bigint/h.c #includes the current bigint.c (for its file-local macros) and links the current "
        "foam_i.c, foam_c.c, dword.c, store.c, util.c ...; gcc -O0 -std=c99 on x86-64 (LP64): 32-bit digits, 64-bit long",
        "not modelled: storage (placea, allocation, freeing, aliasing r==a of iintPlus/iintMinus/iintShift which no "
        "bintXxx caller uses); iintShift's three copy loops are modelled by their common value "
        "(places of 2^k*b moved by whole places), validated on representation by the correspondence",
        "libc: sprintf(\"%ld\"), strtol, isspace/isdigit/isupper (C locale), log() (the bits-per-digit table for "
        "radix 2..36 is compared with the C at every run)",
        "bintMod/fiBIntMod/fiBIntRem return the remainder with the sign of the dividend (the code's convention, "
        "DESIGN section 4/C11); fiBIntPowerMod the remainder of the exact power",
        "bintShiftRem is modelled and proved on the inputs on which the C is defined (int mask: n <= 30 for an "
        "immediate; 1 <= n, n mod 32 in 1..30, no more places than b has, for an allocated number), non-negative "
        "operands, result checked for normal form when it has at most two places or a non-zero top place; outside "
        "that guard the C shifts an int by >= 31 (undefined) or returns something else than the lowest n bits "
        "(six classes, each probed in its own child process and reported under its own key shiftrem:<class>; any other "
        "wrong bintShiftRem result is an ordinary violation)",
        "chunk width / multiplier of the scanners: regenerated from the current bigint.c text by tools/bigint_gen.py "
        "(a tiny interpreter for the two loops, unsigned long arithmetic) into coq/Gen/BigIntRadix.v; trusted: that "
        "interpreter for the statement shapes it accepts (anything else breaks the proof)",
        "bintPrint*, fiBIntToSFlo/DFlo, xintNeeds, iintAbs/iintNegate, the xint* free-after-use wrappers and the "
        "dword.c routines bigint.c does not call (xxDivideDouble, xxPlusStep, xxTimesStep) are not modelled")


def replay(path):
    obj = json.load(open(path))
    rp = obj.get("replay", {})
    script = rp.get("script")
    if not script:
        print("replay: nothing to re-run (%s)" % obj.get("what"))
        return 1
    cexe = build_c()
    outs = run_lines(cexe, script, 300)
    print("what:", obj.get("what"))
    for l, o in zip(script, outs):
        print("  ", l)
        print("   ->", o)
    prev = rp.get("c_output")
    prev = prev if isinstance(prev, list) else [prev]
    same = [o for o in outs] == prev
    print("same output as recorded:" if same else "output differs from the recorded one:", same)
    return 1 if same else 0
