"""C14 — Parsing does not depend on layout.

Proof (Coq): the lineariser model AV.Linear.Model (linear.c function for function) commutes
with every strictly monotone re-mapping of columns, ignores comment tokens and blank lines,
and outside #pile is a filter + the two `;` rules.
Tie: the compiler is built from the CURRENT sources and linked with harness/c14/hook.c
(-Wl,--wrap=linearize): the token list entering and leaving the real linearize() is compared
exactly (tags, lines, columns) with the extracted model on every rendering; the scanner part
(token boundaries, TABSTOP columns) is checked against the renderer's own bookkeeping.
Oracle (independent of the model): `-Fap` byte-identical between all renderings of one
abstract program.
"""
import concurrent.futures, glob, hashlib, json, os, random, shutil, sys, time

from vlib import common as C

sys.path.insert(0, os.path.join(C.VERIF, "tools"))
import c14_gen          # noqa: E402
import c14_render as R  # noqa: E402

ID = "C14"
LEVEL = "proof"
MANIFEST = {
    "level_text": "Machine-checked (Coq 8.16.1) theorems about a function-for-function model of linear.c. For ALL token "
                  "lists: linearize commutes with any strictly monotone re-mapping of columns and any re-mapping of "
                  "lines (lin_monotone_reindent), is invariant under insertion/deletion of comment tokens and of "
                  "newline tokens at line starts (lin_blank_comment_insens), and without #pile is a position-blind "
                  "filter followed by the two `;` rules (lin_nonpile_is_filter, lin_nonpile_pos_indep). For ALL "
                  "well-formed programs of the renderer's abstract grammar (by induction over the grammar) and ALL "
                  "strictly increasing depth->column maps: the piled rendering linearises to the canonical bracketed "
                  "stream, the braced rendering's canonical stream is a fixed point of the `;` rules, and the two agree "
                  "up to {~SetTab, ;~BackSet, }~BackTab (piled_canon, braced_canon, braced_equals_piled); appending any "
                  "white space to an indentation strictly increases its column under the TABSTOP rule "
                  "(indent_prefix_mono). Scanner cursor (AV.Linear.Scan: inclCalcIndentLevel/inclLine, scStartLine, "
                  "scAdvance0/scAdvance/scAdvance1, scSkipSpace, comments, doc comments, system-command lines, token "
                  "positions; token recognition is an abstract maximal-munch oracle): include.c and scan.c compute the "
                  "same tab-stop column for every white-space string (incl_indent_eq_scan_column); a rendered statement "
                  "scans to its tokens whatever the blanks/tabs between them and across escaped line breaks with any "
                  "trailing blanks, blank lines and continuation indentation (scan_logical_line, scan_spacing_insens, "
                  "escape_join_insens). The model is tied to the current sources on every run: exact comparison (tags, "
                  "lines, columns, source token) of the extracted model with the real linearize() (compiler rebuilt from "
                  "the current tree, the call wrapped by the linker) on every rendering of generated programs and on a "
                  "malformed token stream; the extracted scanner model, fed the source lines include.c built and the "
                  "real tokens' lengths, must reproduce start and end (line, column) of every token of every rendering, "
                  "and inclLine the indentation/text of every physical line (wrap of scan()); the token table the model consults is regenerated from token.h/token.c; the "
                  "python renderer's canonical stream and side conditions are compared with the extracted Coq "
                  "grammar (canonPiled, canonBraced, wf_block) on every generated program.",
    "level_note": "Trusted/assumed: Coq kernel + extraction (ExtrOcamlBasic only); harness/c14/hook.c (dump of the token "
                  "lists); the LALR parser, macro expansion and abnormalisation are not modelled: that identical "
                  "linearised streams give identical -Fap, and that the parser-level equivalences (extra braces round a "
                  "single statement, a body on the header line) hold, is checked by the -Fap oracle on generated "
                  "programs only (translation validation, not proof). Token recognition (what a word/number/string/"
                  "operator is) is an abstract oracle: the scanner theorems assume the recogniser cuts each token "
                  "text off in the float state the scanner is in (kept across escaped line breaks; a plain line break "
                  "resets it, which is a newline token and not a layout-only edit). linCheckBalance (diagnostics) and "
                  "interactive mode are not modelled. lin_monotone_reindent requires the re-mapping to fix column 0 "
                  "(= sposNone; scanner columns start at 1).",
    "technique": "Coq proof of the lineariser model + correspondence (extracted OCaml vs the real linearize() of the "
                 "current tree) + metamorphic -Fap oracle over {braced, piled} x spacing x comments/blank lines x "
                 "indentation width 1..8 x tabs/spaces x escaped line breaks",
    "design_ref": "DESIGN.md section 4 / C14",
}

GEN_V = os.path.join(C.COQ, "Gen", "TokenInfo.v")

# ------------------------------------------------------------------ generate


def generate():
    """(Re)generate coq/Gen/TokenInfo.v from the current token.h / token.c / cport.h."""
    txt, info = c14_gen.generate(C.SRC)
    C.write_if_changed(GEN_V, txt)
    return info


# ------------------------------------------------------------------ building

class Tools:
    def __init__(self, info, need_model=True):
        self.info = info
        self.exe = C.build_compiler()
        objs = sorted(glob.glob(os.path.join(os.path.dirname(self.exe), "obj", "*.o")))
        d = C.scratch("c14")
        hobj = C.cc_objs([os.path.join(C.VERIF, "harness", "c14", "hook.c")], d + "/hobj", (C.GUARD,))
        os.makedirs(d + "/bin", exist_ok=True)
        self.exew = d + "/bin/aldor-wrapped"
        rc, out, err = C.run(["gcc", "-o", self.exew] + objs + hobj + ["-lm", "-Wl,--wrap=linearize", "-Wl,--wrap=scan"], timeout=300)
        if rc != 0:
            raise C.BuildError("link of wrapped compiler failed:\n" + err[-2000:])
        ex = os.path.join(C.COQ, "Linear", "extracted")
        try:
            self.model = C.build_ocaml("c14lin", [ex + "/linear.mli", ex + "/linear.ml"],
                                       os.path.join(C.COQ, "Linear", "driver.ml"))
        except (C.BuildError, OSError):
            if need_model:
                raise
            self.model = None          # searcher after a failed proof stage: the -Fap oracle alone
        self.work = d + "/w"
        os.makedirs(self.work, exist_ok=True)
        self.n = 0
        self.tag = info["tags"]
        self.NL, self.COM = self.tag["KW_NewLine"], self.tag["TK_Comment"]
        self.SETTAB, self.BACKSET, self.BACKTAB = self.tag["KW_SetTab"], self.tag["KW_BackSet"], self.tag["KW_BackTab"]
        self.STRING = self.tag["TK_String"]
        self.followers = {info["str"][t] for t in info["followers"]}
        self.closers = {info["str"][t] for t in info["closers"]}
        self.openers = {info["str"][t] for t in info["openers"]}

    def fresh(self):
        self.n += 1
        d = os.path.join(self.work, "r%d" % self.n)
        os.makedirs(d, exist_ok=True)
        return d

    def compile(self, text, dump=True, extra=()):
        """Run the compiler (built from the current tree) on text with -Fap.
        Returns dict(rc, msg, ap, secs) ; secs = [(IN|OUT, [(tag,line,col,text)])]."""
        d = self.fresh()
        with open(d + "/p.as", "w") as f:
            f.write(text)
        env = C.aldor_env()
        if dump:
            env["ALDOR_VERIF_LINDUMP"] = d + "/p.dump"
        cmd = C.aldor_base_args(self.exew if dump else self.exe) + ["-Fap"] + list(extra) + ["p.as"]
        rc, out, err = C.run(cmd, timeout=20, cwd=d, env=env)
        ap = None
        try:
            ap = open(d + "/p.ap", errors="replace").read()
        except OSError:
            pass
        secs, scan = parse_dump(d + "/p.dump") if dump else ([], {})
        shutil.rmtree(d, ignore_errors=True)
        return {"rc": rc, "msg": (out + err)[-1500:], "ap": ap, "secs": secs, "scan": scan}

    def run_model(self, batches):
        """batches: list of token lists [(tag,line,col,text)] -> list of None | [(tag,id,line,col)]"""
        if self.model is None:
            return ["nomodel"] * len(batches)
        lines = []
        for toks in batches:
            lines.append("L " + " ".join("%d:%d:%d:%d" % (t[0], i + 1, t[1], t[2]) for i, t in enumerate(toks)))
        rc, out, err = C.run([self.model], input="\n".join(lines) + "\n", timeout=600)
        res = []
        for ln in out.split("\n"):
            if not ln:
                continue
            if ln == "NONE":
                res.append(None)
            elif ln.startswith("OK"):
                res.append([tuple(int(x) for x in w.split(":")) for w in ln.split(" ")[1:]])
            else:
                res.append("?")
        if len(res) != len(batches):
            raise RuntimeError("model driver returned %d results for %d inputs: %s" % (len(res), len(batches), err[-300:]))
        return res

    def run_canon(self, blocks):
        """blocks: list of serialized item lists -> list of (wf, piled atoms, braced atoms)"""
        if self.model is None:
            return [None] * len(blocks)
        rc, out, err = C.run([self.model], input="".join("C " + b + "\n" for b in blocks), timeout=120)
        res = []
        for ln in out.split("\n"):
            if not ln:
                continue
            w = ln.split(" ")
            ip, ib = w.index("P"), w.index("B")
            at = lambda ws: [tuple(int(x) for x in a.split(":")) for a in ws]
            res.append((w[0] == "WF", at(w[ip + 1:ib]), at(w[ib + 1:])))
        if len(res) != len(blocks):
            raise RuntimeError("model driver: canon results %d for %d inputs %s" % (len(res), len(blocks), err[-300:]))
        return res

    def model_indent(self, strings):
        if self.model is None:
            return [R.col_after(0, s) for s in strings]
        inp = "".join("I " + s.replace(" ", "s").replace("\t", "t") + "\n" for s in strings)
        rc, out, err = C.run([self.model], input=inp, timeout=60)
        return [int(x) for x in out.split()]


def parse_dump(path):
    """-> (secs, scan): secs = [(IN|OUT, [(tag,line,col,text)])] (linearize), scan = {SLINES: [...], STOKS: [...]}
    (raw fields of the scan() dump, see harness/c14/hook.c)."""
    secs, cur, scan, mode = [], None, {}, None
    try:
        fh = open(path, errors="replace")
    except OSError:
        return secs, scan
    for ln in fh:
        ln = ln.rstrip("\n")
        if ln in ("IN", "OUT"):
            cur, mode = [], "lin"
            secs.append((ln, cur))
            continue
        if ln in ("SLINES", "STOKS"):
            cur, mode = [], "scan"
            scan[ln] = cur
            continue
        parts = ln.split(" ")
        if cur is None:
            continue
        if mode == "scan":
            cur.append(parts)
            continue
        if len(parts) != 4:
            continue
        txt = "" if parts[3] == "-" else bytes.fromhex(parts[3]).decode("latin-1")
        cur.append((int(parts[0]), int(parts[1]), int(parts[2]), txt))
    fh.close()
    return secs, scan


def _hexlen(h):
    return 0 if h == "-" else len(h) // 2


def _unhex(h):
    return "" if h == "-" else bytes.fromhex(h).decode("latin-1")


def scan_tie(T, jobs):
    """Scanner / includer tie.  jobs: list of (scan dump, text of the main file or None).
    The extracted model (AV.Linear.Scan) is given the source lines exactly as include.c built them and, for
    the abstract token recogniser, the lengths and tags of the real tokens; it must reproduce every
    token's start and end (line, column), every newline / comment / doc-comment / system-command token, and
    every escaped-line-break joining.  include.c: the model's inclLine on each physical line of the main
    file must give the indentation and text of the corresponding source line.
    Returns one list of (kind, detail) per job."""
    if T.model is None:
        return [[] for _ in jobs]
    own = {T.NL, T.COM, T.tag["TK_PreDoc"], T.tag["TK_PostDoc"], T.tag["TK_SysCmd"]}
    inp, plan = [], []
    for scan, text in jobs:
        sl, tk = scan.get("SLINES"), scan.get("STOKS")
        if sl is None or tk is None or any(int(t[0]) == T.tag["TK_Error"] for t in tk):
            plan.append(None)
            continue
        words = ["L:%s:%s:%s:%s" % (x[3], x[4], x[5], x[6]) for x in sl]
        for j, t in enumerate(tk):
            tag = int(t[0])
            if tag not in own:
                # what the real token says about scFloatState: `.digits` read as a float: AnyFloat;
                # a `.` with a digit directly behind it: not AnyFloat
                req = ""
                if tag == T.tag["TK_Float"] and _unhex(t[5]).startswith("."):
                    req = ":A"
                elif tag == T.tag["KW_Dot"] and j + 1 < len(tk) and (tk[j + 1][1], tk[j + 1][2]) == (t[3], t[4]) \
                        and _unhex(tk[j + 1][5])[:1].isdigit():
                    req = ":N"
                words.append("O:%d:%d%s" % (_hexlen(t[5]) + (2 if tag == T.STRING else 0), tag, req))
        inp.append("S " + " ".join(words))
        nincl = []
        if text is not None:
            phys = text.split("\n")
            lines = [l + "\n" for l in phys[:-1]] + ([phys[-1]] if phys[-1] else [])
            for x in sl:
                if x[2] == "1" and 1 <= int(x[1]) <= len(lines):
                    nincl.append((x, lines[int(x[1]) - 1]))
                    inp.append("N " + (lines[int(x[1]) - 1].encode("latin-1", "replace").hex() or "-"))
        plan.append((sl, tk, nincl))
    rc, out, err = C.run([T.model], input="\n".join(inp) + "\n", timeout=900)
    outs = [l for l in out.split("\n") if l]
    res, k = [], 0
    for pl in plan:
        if pl is None:
            res.append([])
            continue
        sl, tk, nincl = pl
        bad = []
        if k >= len(outs) or not outs[k].startswith("OK"):
            res.append([("scan-tie", "model driver gave no answer: %s" % err[-200:])])
            k += 1 + len(nincl)
            continue
        w = outs[k].split(" ")[1:]
        k += 1
        left = bool(w) and w[-1] == "LEFT"
        if left:
            w = w[:-1]
        if w and w[-1] == "FS":
            w = w[:-1]
            bad.append(("scan-tie", "scan.c vs model: the float state (scFloatState) differs: a `.digits` token was "
                        "read as a float where the model is not in AnyFloat, or the other way round"))
        gl = [int(x[0]) for x in sl]
        fl = {int(x[0]): (int(x[1]), x[2] == "1") for x in sl}
        got = []
        for a in w:
            g = [int(v) for v in a.split(":")]
            got.append((g[0], gl[g[1]] if g[1] < len(gl) else -1, g[2], gl[g[3]] if g[3] < len(gl) else -1, g[4]))
        exp = [(int(t[0]), int(t[1]), int(t[2]), int(t[3]), int(t[4])) for t in tk]
        if got != exp or left:
            i = next((j for j, (a, b) in enumerate(zip(got, exp)) if a != b), min(len(got), len(exp)))
            e = exp[i] if i < len(exp) else None
            where = ""
            if e is not None:
                f_line, ismain = fl.get(e[1], (0, False))
                where = " at %s line %d, token %r" % ("the rendering's" if ismain else "an included file's", f_line,
                                                      _unhex(tk[i][5]))
            bad.append(("scan-tie", "scan.c vs model: token %d%s: model (tag,line,col,endline,endcol) %s, real %s"
                        % (i, where, got[i] if i < len(got) else None, e)))
        for x, physline in nincl:
            o = outs[k].split(" ") if k < len(outs) else ["?", "?", "?"]
            k += 1
            if (o[0], o[1], o[2]) != (x[3], x[4], x[6]) and not any(b[0] == "incl-tie" for b in bad):
                bad.append(("incl-tie", "include.c vs model: line %s %r: model (indentation %s, syscmd %s, text %r), "
                            "real (indentation %s, syscmd %s, text %r)"
                            % (x[1], physline, o[0], o[1], _unhex(o[2]), x[3], x[4], _unhex(x[6]))))
        res.append(bad)
    return res


# ------------------------------------------------------------------ comparisons

def tie_ok(IN, OUT, m):
    """Exact comparison of the model's output with the real one."""
    if m == "nomodel":
        return True, ""
    if m is None or m == "?":
        return False, "model returned %r" % (m,)
    if len(m) != len(OUT):
        return False, "length: model %d, real %d" % (len(m), len(OUT))
    for k, ((tag, i, ln, col), real) in enumerate(zip(m, OUT)):
        if ln < 0:
            ln, col = 0, 0                      # sposNone
        if (tag, ln, col) != real[:3]:
            return False, "token %d: model (tag %d, line %d, col %d), real %r" % (k, tag, ln, col, real)
        if i > 0 and IN[i - 1][3] != real[3]:
            return False, "token %d: model copies input token %d (%r), real text %r" % (k, i, IN[i - 1][3], real[3])
    return True, ""


def norm_tok(t):
    if len(t) >= 2 and t[0] == '"' and t[-1] == '"':
        return "S:" + t[1:-1].replace("__", "_")
    return t


def out_texts(T, toks):
    out = []
    for tag, ln, col, txt in toks:
        if tag == T.SETTAB:
            out.append("{")
        elif tag == T.BACKSET:
            out.append(";")
        elif tag == T.BACKTAB:
            out.append("}")
        elif tag == T.STRING:
            out.append("S:" + txt)
        else:
            out.append(txt)
    return out


class RefRejected(Exception):
    def __init__(self, text, msg):
        Exception.__init__(self, msg)
        self.text, self.msg = text, msg


class Prelude:
    """What the two #include lines contribute (measured once on the current tree)."""

    def __init__(self, T):
        r = T.compile("\n".join(R.PRELUDE) + "\n")
        if len(r["secs"]) < 2 or r["ap"] is None:
            raise RefRejected("\n".join(R.PRELUDE) + "\n", "rc=%s %s" % (r["rc"], r["msg"][-300:]))
        IN, OUT = r["secs"][0][1], r["secs"][1][1]
        self.n_ord = len([t for t in IN if t[0] not in (T.NL, T.COM)])
        self.out = out_texts(T, OUT)


def check_rendering(T, P, prog, rr, res, m, scanbad=()):
    """All per-rendering checks but the -Fap oracle.  Returns list of (kind, detail)."""
    if len(res["secs"]) < 2:
        return [("nodump", "no linearize dump; rc=%s %s" % (res["rc"], res["msg"][-200:]))]
    bad = list(scanbad)
    IN, OUT = res["secs"][0][1], res["secs"][1][1]
    ok, why = tie_ok(IN, OUT, m)
    if not ok:
        bad.append(("tie", why))
    # scanner: the ordinary tokens are the ones the renderer wrote, in order
    ordin = [t for t in IN if t[0] not in (T.NL, T.COM)]
    body = ordin[P.n_ord:]
    if rr["mode"] == "piled":
        body = [t for t in body if t[0] not in (T.tag["KW_StartPile"], T.tag["KW_EndPile"])]
    want = [norm_tok(t) for t in rr["toks"]]
    got = out_texts(T, body)
    if got != want:
        k = next((i for i, (a, b) in enumerate(zip(got, want)) if a != b), min(len(got), len(want)))
        bad.append(("scan-tokens", "token %d: scanner %r, written %r" % (k, got[k:k + 3], want[k:k + 3])))
    # lineariser result against the canonical stream of the abstract program
    if rr["token_equiv"]:
        can = [norm_tok(t) for t in R.canon(prog)]
        o = out_texts(T, OUT)
        tail = o[len(o) - len(can):] if len(can) <= len(o) else None
        head = o[:len(o) - len(can)] if tail is not None else None
        if tail != can or head not in (P.out, P.out + [";"]):
            bad.append(("canon", "linearised stream differs from the canonical stream of the program"))
    return bad


def serialize_block(block, tagof, ids):
    """python stmt/seg structure -> the Coq grammar's items ( [ atoms | items ] )."""
    out = []
    for st in block:
        for hdr, body in st:
            out.append("[")
            for t in hdr:
                n = norm_tok(t)
                out.append("%d:%d" % (tagof[n], ids.setdefault(n, len(ids) + 1)))
            out.append("|")
            if body is not None:
                out.append(serialize_block(body, tagof, ids))
            out.append("]")
    return " ".join(out)


def check_canon_model(T, P, prog, ref_rr, ref_res):
    """Tie the python `canon` / `check_grammar` to the Coq grammar (canonPiled, canonBraced, wf_block)."""
    if len(ref_res["secs"]) < 2:
        return None
    IN = ref_res["secs"][0][1]
    body = [t for t in IN if t[0] not in (T.NL, T.COM)][P.n_ord:]
    texts = out_texts(T, body)
    want = [norm_tok(t) for t in ref_rr["toks"]]
    if texts != want:
        return None                     # reported by the scanner check
    tagof = {}
    for t, n in zip(body, want):
        tagof[n] = t[0]
    ids = {}
    ser = serialize_block(prog, tagof, ids)
    back = {v: k for k, v in ids.items()}
    rc0 = T.run_canon([ser])[0]
    if rc0 is None:
        return None
    wf, pa, ba = rc0
    br = {T.tag["KW_SetTab"]: "{", T.tag["KW_BackSet"]: ";", T.tag["KW_BackTab"]: "}",
          T.tag["KW_OCurly"]: "{", T.tag["KW_Semicolon"]: ";", T.tag["KW_CCurly"]: "}"}
    dec = lambda l: [br[a] if (b == 0 and a in br) else back.get(b, "?") for a, b in l]
    can = [norm_tok(t) for t in R.canon(prog)]
    pyok = not R.check_grammar(prog, T.followers, T.closers, T.openers)
    bad = []
    if wf != pyok:
        bad.append(("grammar", "Coq wf_block = %s, python side conditions = %s" % (wf, pyok)))
    if dec(pa) != can or dec(ba) != can:
        bad.append(("canon-model", "python canon differs from Coq canonPiled/canonBraced"))
    return bad


# ------------------------------------------------------------------ the differential run

def renderings_for(prog, rnd, n, level=1.0):
    """Reference (plain canonical braced) + n random renderings, both modes."""
    out = [R.render(prog, rnd, "braced", canonical=True, width=4)]
    out[0]["desc"]["reference"] = True
    fixed = [("piled", dict(width=4)), ("piled", dict(width=1, tabs="equiv", blanks=0.3, commas=0.5)),
             ("piled", dict(tabs="all", comments=0.4, trail=0.3, closer0=0.5)),
             ("braced", dict(canonical=False, breaks=0.2, comments=0.3))]
    for mode, kw in fixed[:max(0, min(len(fixed), n // 2))]:
        out.append(R.render(prog, rnd, mode, **kw))
    while len(out) < n + 1:
        mode = "piled" if len(out) % 2 else "braced"
        out.append(R.render(prog, rnd, mode, **R.random_layout(rnd, mode, level)))
    return out


FEATURES = [("comments", 0.0), ("blanks", 0.0), ("trail", 0.0), ("escapes", 0.0), ("trailws", 0.0), ("contin", 0.0), ("commas", 0.0), ("closer0", 0.0),
            ("inline", 0.0), ("breaks", 0.0), ("endpile", False), ("no_final_nl", False), ("spacing", "one"),
            ("tabs", "none"), ("canonical", True), ("semi_after_brace", 1.0), ("semi_before_close", 0.0), ("width", 4)]


def differs(T, ta, tb):
    a, b = T.compile(ta, dump=False), T.compile(tb, dump=False)
    return a["ap"] != b["ap"], a, b


def shrink_pair(T, prog, ref, rr, seed_tag, deadline):
    """Minimise a pair (reference rendering, rendering rr) whose -Fap differ: first the program
    (drop statements / bodies), then the layout features.  Re-renders deterministically."""
    desc = {k: v for k, v in rr["desc"].items() if k not in ("mode", "reference")}
    mode = rr["mode"]

    def rend(p, d):
        rnd = random.Random(seed_tag)
        a = R.render(p, random.Random(seed_tag + "/ref"), "braced", canonical=True, width=4)
        b = R.render(p, rnd, mode, **d)
        return a, b

    def bad(p, d):
        a, b = rend(p, d)
        df, ra, rb = differs(T, a["text"], b["text"])
        return df

    if not bad(prog, desc):
        return prog, desc, ref, rr            # not reproducible under re-rendering: keep the original pair

    def variants(b):
        for i in range(len(b)):
            if len(b) > 1:
                yield b[:i] + b[i + 1:]
            st = b[i]
            for k, (hdr, body) in enumerate(st):
                if body is not None:
                    for vb in variants(body):
                        yield b[:i] + [st[:k] + [(hdr, vb)] + st[k + 1:]] + b[i + 1:]
            if len(st) > 1:
                yield b[:i] + [st[:-1]] + b[i + 1:]

    changed = True
    while changed and time.time() < deadline:
        changed = False
        for v in variants(prog):
            if time.time() > deadline:
                break
            if not R.check_grammar(v, T.followers, T.closers, T.openers) and bad(v, desc):
                prog, changed = v, True
                break
    for k, off in FEATURES:
        if k in desc and desc[k] != off and time.time() < deadline:
            d2 = dict(desc)
            d2[k] = off
            if bad(prog, d2):
                desc = d2
    a, b = rend(prog, desc)
    return prog, desc, a, b


def model_ties(T, text):
    """The model ties (include.c / scan.c / linear.c) on one text: list of 'kind: detail'."""
    res = T.compile(text)
    out = ["%s: %s" % b for b in scan_tie(T, [(res["scan"], text)])[0]]
    if len(res["secs"]) >= 2:
        ok, why = tie_ok(res["secs"][0][1], res["secs"][1][1], T.run_model([res["secs"][0][1]])[0])
        if not ok:
            out.append("tie: " + why)
    return out


def feature_key(mode, desc):
    on = sorted(k for k, off in FEATURES if k in desc and desc[k] != off and k != "width")
    return "%s:%s" % (mode, "+".join(on) if on else "plain")


def differential(rep, T, P, nprog, nrend, tag, stats, deadline, size_max=3, level=1.0):
    """Generated programs x renderings: tie, scanner bookkeeping, canonical stream, -Fap oracle."""
    jobs = []
    for pi in range(nprog):
        rnd = C.rng("%s/%d" % (tag, pi))
        g = R.Gen(rnd, size=rnd.randint(1, size_max))
        prog = g.program()
        gb = R.check_grammar(prog, T.followers, T.closers, T.openers)
        if gb and not stats.get("grammar_note"):
            # the token classes of the current tree no longer make the generated programs well-formed
            # piles (e.g. `==` or `else` stopped being a follower): the oracle below decides
            stats["grammar_note"] = True
            rep.notes.append("token classes changed: generated programs violate the pile side conditions: %s" % gb[:2])
        rs = renderings_for(prog, rnd, nrend, level)
        jobs.append((pi, prog, rs))
    flat = [(pi, ri) for pi, prog, rs in jobs for ri in range(len(rs))]
    with concurrent.futures.ThreadPoolExecutor(C.NCPU) as ex:
        results = list(ex.map(lambda pr: T.compile(jobs[pr[0]][2][pr[1]]["text"]), flat))
    byjob = {}
    for (pi, ri), res in zip(flat, results):
        byjob[(pi, ri)] = res
    models = T.run_model([(res["secs"][0][1] if res["secs"] else []) for res in results])
    mby = {pr: m for pr, m in zip(flat, models)}
    sres = scan_tie(T, [(res["scan"], jobs[pr[0]][2][pr[1]]["text"]) for pr, res in zip(flat, results)])
    sby = {pr: b for pr, b in zip(flat, sres)}
    nviol = 0
    for pi, prog, rs in jobs:
        if time.time() > deadline:
            rep.notes.append("time budget reached after %d programs of stream %s" % (pi, tag))
            break
        ref = byjob[(pi, 0)]
        stats["programs"] += 1
        stats["tokens"] += R.size(prog)
        stats["depth"][R.depth(prog)] = stats["depth"].get(R.depth(prog), 0) + 1
        if ref["ap"] is None:
            # the reference itself must parse
            rep.violation("C14: reference rendering of a generated program is rejected by the compiler",
                          {"kind": "reference-rejected", "text": rs[0]["text"], "msg": ref["msg"]},
                          key="reference-rejected")
            nviol += 1
            continue
        problems = []
        cm = check_canon_model(T, P, prog, rs[0], ref)
        if cm is not None:
            stats["canon_model"] += 1
            if cm:
                problems.append((0, rs[0], cm))
        for ri, rr in enumerate(rs):
            res = byjob[(pi, ri)]
            stats["renderings"] += 1
            stats["mode"][rr["mode"]] = stats["mode"].get(rr["mode"], 0) + 1
            for k in ("tabs", "spacing"):
                v = rr["desc"].get(k)
                if v is not None:
                    stats[k][v] = stats[k].get(v, 0) + 1
            for k in ("comments", "blanks", "escapes", "contin", "commas", "closer0", "breaks", "inline", "trail"):
                if rr["desc"].get(k):
                    stats["feature"][k] = stats["feature"].get(k, 0) + 1
            if res["secs"]:
                stats["tie_tokens"] += len(res["secs"][0][1])
            if res["scan"].get("STOKS") is not None:
                stats["scan_tokens"] += len(res["scan"]["STOKS"])
            bad = check_rendering(T, P, prog, rr, res, mby[(pi, ri)], sby[(pi, ri)])
            if not bad:
                stats["tie_ok"] += 1
            if res["ap"] != ref["ap"]:
                # the property's own observable differs: minimise and report
                sp, sd, sa, sb = shrink_pair(T, prog, rs[0], rr, "%d/%s/%d/%d" % (C.seed(), tag, pi, ri),
                                             min(deadline, time.time() + 20))
                df, ra, rb = differs(T, sa["text"], sb["text"])
                if not df:
                    sa, sb = rs[0], rr
                    df, ra, rb = differs(T, sa["text"], sb["text"])
                key = feature_key(rr["mode"], sd)
                if rep.violation("C14: two renderings of one program give different -Fap (%s)" % key,
                                 {"kind": "fap-diff", "a": sa["text"], "b": sb["text"], "desc_b": sd, "mode_b": rr["mode"],
                                  "ap_a": ra["ap"], "ap_b": rb["ap"], "msg_b": rb["msg"][-600:],
                                  "other_checks": bad, "model_ties_on_b": model_ties(T, sb["text"])}, key=key):
                    nviol += 1
                if nviol >= 4:
                    return nviol
            elif bad:
                problems.append((ri, rr, bad))
        if problems:
            # model / bookkeeping disagree with the implementation but -Fap agrees on every rendering
            # of this program: search harder for a failing input before calling it drift
            nviol += escalate(rep, T, P, prog, rs, problems, tag, pi, deadline)
            if nviol >= 4:
                return nviol
    return nviol


def escalate(rep, T, P, prog, rs, problems, tag, pi, deadline):
    """Searcher: a correspondence mismatch is not yet a violation.  Look for a pair of renderings of the
    same (and of smaller) programs with different -Fap, aimed at the layout features of the mismatching
    rendering; if none is found report the broken correspondence itself."""
    ri, rr, bad = problems[0]
    rnd = C.rng("%s/%d/escalate" % (tag, pi))
    ref = rs[0]
    refap = T.compile(ref["text"], dump=False)["ap"]
    tries = 0
    end = min(deadline, time.time() + 25)
    base = {k: v for k, v in rr["desc"].items() if k not in ("mode", "reference")}
    while time.time() < end and tries < 400:
        tries += 1
        mode = rr["mode"] if tries % 3 else ("braced" if rr["mode"] == "piled" else "piled")
        kw = dict(base) if (tries % 2 and mode == rr["mode"]) else R.random_layout(rnd, mode)
        if tries % 4 == 0:
            kw["tabs"] = rnd.choice(["all", "mixed", "equiv"])
        b = R.render(prog, rnd, mode, **kw)
        rb = T.compile(b["text"], dump=False)
        if rb["ap"] != refap:
            sp, sd, sa, sb = shrink_pair(T, prog, ref, b, "%d/%s/%d/esc%d" % (C.seed(), tag, pi, tries),
                                         min(deadline, time.time() + 20))
            df, ra, rb2 = differs(T, sa["text"], sb["text"])
            if not df:
                sa, sb, ra, rb2 = ref, b, {"ap": refap}, rb
            key = feature_key(mode, sd)
            return 1 if rep.violation("C14: two renderings of one program give different -Fap (%s)" % key,
                                      {"kind": "fap-diff", "a": sa["text"], "b": sb["text"], "desc_b": sd, "mode_b": mode,
                                       "ap_a": ra["ap"], "ap_b": rb2["ap"], "found_by": "searcher after %s" % (bad[0],),
                                       "tie_problems": bad, "model_ties_on_b": model_ties(T, sb["text"])},
                                      key=key) else 0
    what = "; ".join("%s: %s" % b for b in bad[:3])
    return 1 if rep.violation("correspondence linear.c/scan.c vs model no longer checks (%s)" % what,
                              {"kind": "tie", "text": rr["text"], "desc": rr["desc"], "problems": bad,
                               "searched_renderings": tries}, no_input=True) else 0


SOUP = ["a", "b", "x", "f", "(", ")", "{", "}", ";", ",", "then", "else", "if", "==", "add", "with", ":=", "+", "[", "]",
        "@", "repeat", "++ doc", "+++ pre", "-- c", "try", "catch", "in", "1", '"s"', "where", "return", "but", "always"]


def soup(rep, T, n, tag, stats):
    """Malformed stream: arbitrary token soup with #pile/#endpile/{/} unbalanced and arbitrary indentation.
    Only the tie is checked here (these are not programs)."""
    texts = []
    for k in range(n):
        rnd = C.rng("%s/%d" % (tag, k))
        lines = []
        for _ in range(rnd.randint(1, 14)):
            q = rnd.random()
            if q < 0.12:
                lines.append("#pile")
            elif q < 0.2:
                lines.append("#endpile")
            elif q < 0.27:
                lines.append(rnd.choice(["", "  ", "\t"]))
            else:
                ind = rnd.choice(["", "  ", "    ", "\t", " \t", "      ", "  ", " " * rnd.randint(0, 17)])
                lines.append(ind + " ".join(rnd.choice(SOUP) for _ in range(rnd.randint(1, 6))))
        texts.append("\n".join(lines) + "\n")
    with concurrent.futures.ThreadPoolExecutor(C.NCPU) as ex:
        results = list(ex.map(T.compile, texts))
    ms = T.run_model([(r["secs"][0][1] if r["secs"] else []) for r in results])
    ss = scan_tie(T, [(r["scan"], t) for t, r in zip(texts, results)])
    nbad = 0
    for text, r, sb in zip(texts, results, ss):
        if sb and nbad < 2:
            nbad += 1
            rep.violation("correspondence include.c/scan.c vs model no longer checks on a malformed token stream (%s)"
                          % "; ".join("%s: %s" % b for b in sb),
                          {"kind": "tie-soup", "text": text, "why": sb}, no_input=True)
        if r["scan"].get("STOKS") is not None and not sb:
            stats["scan_soup"] += 1
    for text, r, m in zip(texts, results, ms):
        if len(r["secs"]) < 2:
            stats["soup_nodump"] += 1
            continue
        stats["soup"] += 1
        ok, why = tie_ok(r["secs"][0][1], r["secs"][1][1], m)
        if not ok and nbad < 2:
            nbad += 1
            rep.violation("correspondence linear.c vs model no longer checks on a malformed token stream (%s)" % why,
                          {"kind": "tie-soup", "text": text, "why": why}, no_input=True)
    return nbad


# ------------------------------------------------------------------ corpus

def run_corpus(rep, T, stats):
    n = 0
    for path in sorted(glob.glob(os.path.join(C.VERIF, "corpus", ID, "*.json"))):
        try:
            obj = json.load(open(path))
        except (OSError, ValueError):
            continue
        df, ra, rb = differs(T, obj["a"], obj["b"])
        stats["corpus"] += 1
        if ra["ap"] is None:
            rep.violation("C14 corpus %s: reference no longer parses" % os.path.basename(path),
                          {"kind": "fap-diff", "a": obj["a"], "b": obj["b"], "msg": ra["msg"]},
                          key="corpus:" + obj.get("key", os.path.basename(path)))
            n += 1
        elif df:
            rep.violation("C14: two renderings of one program give different -Fap (corpus %s: %s)"
                          % (os.path.basename(path), obj.get("what", "")),
                          {"kind": "fap-diff", "a": obj["a"], "b": obj["b"], "ap_a": ra["ap"], "ap_b": rb["ap"],
                           "msg_b": rb["msg"][-600:]}, key="corpus:" + obj.get("key", os.path.basename(path)))
            n += 1
    return n


# ------------------------------------------------------------------ float state across an escaped line break

FLOAT_STATE_PAIRS = [("y := x .5;\n", "y := x _\n .5;\n"),
                     ("y := m.1.2;\n", "y := m.1 _  \n\n   .2;\n"),
                     ("#pile\ny := f(x) .5\nz := 2 .5\n", "#pile\ny := f(x) _\n    .5\nz := 2  _ \n\n .5\n")]


def regress_float_state(rep, T, stats):
    """Regression (defect repaired in /repo by 230444b): an escaped line break must not reset scFloatState:
    `x .5` is x . 5 on one line and must stay so when `_ newline` stands between x and .5.  Both the -Fap
    oracle and the model ties (the extracted scanner keeps the float state across the escape) are applied."""
    n = 0
    for a, b in FLOAT_STATE_PAIRS:
        stats["corpus"] += 1
        df, ra, rb = differs(T, a, b)
        ties = model_ties(T, a) + model_ties(T, b)
        if df or ra["ap"] is None:
            rep.violation("C14: escaping a line break changes -Fap (float state reset inside an escaped line break)",
                          {"kind": "fap-diff", "a": a, "b": b, "ap_a": ra["ap"], "ap_b": rb["ap"],
                           "msg_b": rb["msg"][-400:], "model_ties_on_b": ties}, key="regress:float-state-across-escape")
            n += 1
        elif ties:
            rep.violation("correspondence scan.c vs model no longer checks (%s)" % "; ".join(ties)[:300],
                          {"kind": "tie", "text": b, "problems": ties}, no_input=True)
            n += 1
    return n


# ------------------------------------------------------------------ entry points

def new_stats():
    return {"programs": 0, "renderings": 0, "tie_ok": 0, "tie_tokens": 0, "tokens": 0, "soup": 0, "soup_nodump": 0,
            "corpus": 0, "canon_model": 0, "scan_tokens": 0, "scan_soup": 0, "mode": {}, "tabs": {}, "spacing": {}, "feature": {}, "depth": {}}


def run(rep, tier):
    t0 = time.time()
    info = generate()
    if info["misplaced"]:
        rep.notes.append("tokInfoTable rows out of enum order: %s" % (info["misplaced"][:5],))
    state = {}

    def searcher(log):
        # a proof obligation no longer checks: look for a concrete failing input with the oracle
        try:
            T = state.get("T") or Tools(info, need_model=False)
            state["T"] = T
            try:
                P = Prelude(T)
            except RefRejected as e:
                rep.violation("C14: the two #include lines alone are rejected (or the compiler hangs)",
                              {"kind": "reference-rejected", "text": e.text, "msg": e.msg}, key="reference-rejected")
                return
            st = new_stats()
            run_corpus(rep, T, st)
            differential(rep, T, P, 60, 10, "searcher", st, time.time() + 90)
        except C.BuildError as e:
            rep.notes.append("searcher could not build: %s" % str(e)[:300])

    ok = C.proof_stage(rep, ID, ["Props/Properties_C14.vo", "Linear/Extract.vo"], "Props/Properties_C14.v", searcher)
    if not ok:
        return
    T = Tools(info)
    state["T"] = T
    try:
        P = Prelude(T)
    except RefRejected as e:
        rep.violation("C14: the two #include lines alone are rejected (or the compiler hangs) on the current tree",
                      {"kind": "reference-rejected", "text": e.text, "msg": e.msg}, key="reference-rejected")
        return
    stats = new_stats()
    budget = 75 if tier == "quick" else 1200
    deadline = t0 + budget + 40
    nv = run_corpus(rep, T, stats)
    nv += regress_float_state(rep, T, stats)
    # indentation columns: model of inclCalcIndentLevel vs the renderer's TABSTOP rule
    rnd = C.rng("indent")
    inds = ["".join(rnd.choice(" \t") for _ in range(rnd.randint(0, 12))) for _ in range(200)]
    mi = T.model_indent(inds)
    for s, v in zip(inds, mi):
        if v != R.col_after(0, s):
            rep.violation("model indentLevel disagrees with the renderer's TABSTOP rule", {"ws": s, "model": v}, no_input=True)
            break
    if R.TABSTOP != info["tabstop"]:
        R.TABSTOP = info["tabstop"]
    if tier == "quick":
        nv += differential(rep, T, P, 70, 10, "main", stats, deadline, size_max=3)
        nv += soup(rep, T, 300, "soup", stats)
    else:
        nv += differential(rep, T, P, 500, 14, "main", stats, deadline, size_max=3)
        nv += differential(rep, T, P, 150, 14, "big", stats, deadline, size_max=5)
        nv += soup(rep, T, 3000, "soup", stats)
    rep.add_cov(
        evaluations=stats["renderings"] + stats["soup"] + stats["corpus"],
        distinct_nontrivial=stats["programs"],
        traces_validated_against_impl=stats["tie_ok"] + stats["soup"],
        rule="every rendering: real linearize() output == extracted model output (tag, line, column, source token); "
             "scanner tokens/columns == renderer bookkeeping; token-equivalent renderings == canonical stream; "
             "-Fap of every rendering == -Fap of the reference rendering (byte comparison)",
        samples=[{"programs": stats["programs"], "renderings": stats["renderings"],
                  "tokens_through_tie": stats["tie_tokens"], "malformed_streams": stats["soup"],
                  "corpus_pairs": stats["corpus"],
                  "tokens_through_scanner_tie": stats["scan_tokens"], "malformed_streams_through_scanner_tie": stats["scan_soup"],
                  "programs_whose_canon_and_wf_were_compared_with_the_Coq_grammar": stats["canon_model"]}],
        input_distribution={"mode": stats["mode"], "tabs": stats["tabs"], "spacing": stats["spacing"],
                            "features_on": stats["feature"], "block_depth": stats["depth"],
                            "program_tokens_total": stats["tokens"],
                            "indent_width": "1..8 uniformly (tabs none/equiv), tab-only, mixed tab+space increments",
                            "malformed": "random token soup, unbalanced #pile/#endpile/{/}, random indentation"})
    rep.assume(
        "LALR parser / macro expansion / abnormalisation not modelled: 'equal linearised streams give equal -Fap' and the "
        "parser-level equivalences are checked by the -Fap oracle on generated programs only",
        "token recognition inside scan.c (scanWord/scanNumber/scanString/scanSpecial, keyLongest) is an abstract "
        "maximal-munch oracle in the model; in the tie its answers are the real tokens' lengths and tags; handled "
        "directives (#include, #if, #assert ...) are taken from the implementation's source-line list",
        "scanner theorems: token texts contain no escape character and no newline, the recogniser cuts each text off "
        "in the float state left by the previous token (same on both sides of an escaped line break), loops bounded by explicit fuel F "
        "(hypothesis gapSize/length < F; scan uses F = characters + 2)",
        "harness/c14/hook.c (linker --wrap=linearize, --wrap=scan) reports the source lines and token lists faithfully",
        "extraction: ExtrOcamlBasic only; driver.ml converts int <-> N and nothing else",
        "layout-only edits EXCLUDED because they legitimately change the token stream: `++`/`+++` doc comments (kept as "
        "tokens and attached to declarations); a `--` comment between an escaping `_` and its line end or a comment-only line "
        "directly after an escaped line break (the escape covers white space only, so the line break becomes real); real "
        "line breaks inside a piled statement unless the continuation is indented deeper than the statement and "
        "than its body, does not follow then/else/with/add/..., and successive continuation lines go deeper (or follow "
        "a comma / opener); a body on the header line after `with`/`add`; characters other than blank and tab (CR, FF "
        "are 'bad character' tokens); the piled body of a file corresponds to `{ body }`, not to the bare body (a top-level "
        "pile after other text parses as one nested Sequence)",
        "linCheckBalance (diagnostics only) and the interactive-mode `#pile` push are not modelled",
        "theorem lin_monotone_reindent assumes the re-mapping fixes column 0 (= sposNone / empty line; scanner columns "
        "start at 1: see lin_monotone_reindent_scanner_columns)")


def replay(path):
    obj = json.load(open(path))
    r = obj.get("replay", obj)
    info = generate()
    T = Tools(info)
    kind = r.get("kind")
    if kind == "fap-diff":
        df, ra, rb = differs(T, r["a"], r["b"])
        print("C14 replay: -Fap of the two renderings %s" % ("DIFFER" if df else "are identical"))
        if df:
            print("--- a.ap\n%s\n--- b.ap\n%s\n%s" % ((ra["ap"] or "<none>")[:600], (rb["ap"] or "<none>")[:600], rb["msg"][-400:]))
        for which in ("a", "b"):
            for ln in model_ties(T, r[which]):
                print("C14 replay: model tie on rendering %s: %s" % (which, ln))
        return 1 if df else 0
    if kind in ("tie", "tie-soup"):
        res = T.compile(r["text"])
        if len(res["secs"]) < 2:
            print("C14 replay: no dump")
            return 1
        m = T.run_model([res["secs"][0][1]])[0]
        ok, why = tie_ok(res["secs"][0][1], res["secs"][1][1], m)
        print("C14 replay: model vs real linearize(): %s %s" % ("equal" if ok else "DIFFER", why))
        sb = scan_tie(T, [(res["scan"], r["text"])])[0]
        print("C14 replay: model vs real include.c/scan.c: %s" % ("equal" if not sb else "DIFFER " + "; ".join("%s: %s" % b for b in sb)))
        return 0 if (ok and not sb) else 1
    if kind == "reference-rejected":
        res = T.compile(r["text"], dump=False)
        print("C14 replay: rc=%s ap=%s" % (res["rc"], "written" if res["ap"] else "missing"))
        return 0 if res["ap"] else 1
    print("C14 replay: nothing to re-run for kind %r" % kind)
    return 1
