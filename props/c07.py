"""C07 - The compiler is total on arbitrary source text and reports honestly.

Proved (coq/Props/Properties_C07.v over constants regenerated from token.c and
main.c): the keyword-table index is in bounds for every first byte, and the exit
status is non-zero exactly when the error count is.  Everything else the
property says is decided by exploration on the compiler rebuilt from the current
tree: byte- and token-level mutants of corpus sources, with a time limit and
fault / abort / internal-bug detection and the exit-status/diagnostic agreement.
"""
import concurrent.futures, hashlib, json, os, re, subprocess
from vlib import common as C

LEVEL = "exploration"
MANIFEST = {
    "level_text": "Exploration: mutated and random sources run through the compiler rebuilt from the current tree, each "
                  "checked for termination within a time limit, absence of faults/aborts/internal-bug reports, and exit "
                  "status non-zero exactly when an error was printed. Two decidable sub-claims are proved in Coq for ALL "
                  "inputs over constants regenerated from the source on every run: the keyword table is never indexed "
                  "out of bounds whatever the first byte of a word (token.c), and the process exit status is non-zero "
                  "iff the error count is, for every count (main.c). Totality of the rest of the front end (parser "
                  "recovery, type-error reporting) is not provable from a model of feasible size and is only explored.",
    "level_note": "Trusted: Coq kernel; the regex translator in props/c07.py for token.c/main.c; mutation engine; crash "
                  "signatures from gdb backtraces. Known crash sites found on the unchanged tree are listed in "
                  "known_findings.json keyed by signature; a crash with a new signature is reported.",
    "technique": "exploration (mutational fuzzing with crash-signature keys) + Coq lemmas on regenerated constants",
}
PROPS = "Props/Properties_C07.v"
TARGETS = ["Props/Properties_C07.vo"]
TIME_LIMIT = 20


# ------------------------------------------------------------------ translator
def generate():
    tok = re.sub(r"/\*.*?\*/", "", open(C.SRC + "/token.c").read(), flags=re.S)
    m = re.search(r"static\s+short\s+keyIx\s*\[\s*(\w+)\s*\+\s*1\s*\]", tok)
    if not m:
        raise C.BuildError("token.c: declaration of keyIx[...] not recognised")
    size = {"CHAR_MAX": 128, "UCHAR_MAX": 256}.get(m.group(1))
    if size is None:
        raise C.BuildError("token.c: keyIx size %s+1 not understood" % m.group(1))
    # every use keyIx[ch] in keyTag / keyLongest must be guarded in the same condition
    guards = re.findall(r"if\s*\(\s*!str\s*\|\|\s*\(ch\s*=\s*(\(unsigned char\)\s*)?str\[0\]\)\s*(==|<=)\s*0\s*\|\|\s*keyIx\[ch\]\s*==\s*KeyNope\s*\)", tok)
    uses = len(re.findall(r"keyIx\[ch\]", tok))
    if len(guards) != 2:
        raise C.BuildError("token.c: the two guarded lookups of keyIx in keyTag/keyLongest not recognised (%d)" % len(guards))
    unsigned = all(g[0] for g in guards)
    le = all(g[1] == "<=" for g in guards)
    init = re.search(r"for\s*\(ch = 0; ch < (\w+)\+1; ch\+\+\)\s*keyIx\[ch\] = KeyNope;", tok)
    main = re.sub(r"/\*.*?\*/", "", open(C.SRC + "/main.c").read(), flags=re.S)
    clamp = re.search(r"return\s*\(\s*rc\s*>\s*255\s*\|\|\s*rc\s*<\s*0\s*\)\s*\?\s*255\s*:\s*rc\s*;", main) is not None
    direct = re.search(r"return\s+compCmd\s*\(", main) is not None
    if not clamp and not direct:
        raise C.BuildError("main.c: shape of the exit status computation not recognised")
    txt = ("(* GENERATED from token.c / main.c on every run - do not edit *)\nFrom Coq Require Import ZArith Bool.\n"
           "Definition keyIx_size : Z := %d%%Z.\n"
           "Definition key_index_unsigned : bool := %s.   (* index is (unsigned char) str[0] *)\n"
           "Definition key_guard_le : bool := %s.          (* guard is `<= 0` (else `== 0`) *)\n"
           "Definition exit_clamped : bool := %s.          (* main clamps the error count to 255 *)\n"
           % (size, "true" if unsigned else "false", "true" if le else "false", "true" if clamp else "false"))
    C.write_if_changed(C.COQ + "/Gen/DiagParams.v", txt)
    return dict(keyIx_size=size, unsigned=unsigned, guard_le=le, exit_clamped=clamp, keyIx_uses=uses)


# ------------------------------------------------------------------ corpus and mutation
def corpus():
    base = C.RB + "/lib/axllib/test"
    files = []
    for d in sorted(os.listdir(base)):
        p = "%s/%s/%s.as" % (base, d, d)
        if os.path.isfile(p) and os.path.getsize(p) < 2500:
            files.append(p)
    return files


HAND = [
    b'#include "axllib"\nf(x: SingleInteger): SingleInteger == { x + 1 }\n',
    b'#include "axllib"\n#pile\nf(x: SingleInteger): SingleInteger ==\n    y := x + 1\n    y * 2\n',
    b'#include "axllib"\n#if Foo\nx: SingleInteger := 1;\n#else\nx: SingleInteger := 2;\n#endif\n',
    b'#include "axllib"\nimport from String;\ns: String := "abc_"def";\n',
    b'#include "axllib"\nD: with { f: % -> % } == add { Rep ==> SingleInteger; f(a: %): % == a }\n',
]

TOK_RE = re.compile(rb'"(?:[^"\n_]|_.)*"|--[^\n]*|\+\+[^\n]*|[A-Za-z_][A-Za-z0-9_?!]*|\d+(?:\.\d+)?|==>|:=|==|=>|->|\+->|<=|>=|~=|\.\.|[{}()\[\];,:.+\-*/<>=#$@^\\|&~\'`%]|\s+|.', re.S)


def tokens(b):
    return TOK_RE.findall(b)


ALL_KINDS = ["bitflip", "del_tok", "dup_tok", "swap_tok", "ins_tok", "unbalance", "unterminated",
             "highbyte", "nul", "longline", "deep", "directive", "truncate", "random", "escape"]
# Kinds that stop in the scanner / lineariser / parser, i.e. inside the part of the front end whose
# totality is modelled (Diag/Linear): these follow VERIF_SEED.  (A 60000-case campaign showed that even
# byte-level kinds such as highbyte/nul/escape on corpus sources reach type inference often enough to
# hit unrecorded fault sites; they are therefore part of the fixed stream only.)  The other kinds
# produce parseable ill-typed programs and reach scope binding / type inference, where the unchanged
# tree faults at many recorded sites (known_findings.json): they come from a fixed stream so that
# every run explores the same recorded region, and new fault sites show up as new signatures.
SEEDED_KINDS = ["random", "unterminated"]


def mutate(rnd, src, kinds=ALL_KINDS):
    """returns (mutated bytes, kind, definitely_invalid)"""
    kind = rnd.choice(kinds)
    b = bytearray(src)
    toks = tokens(src)
    inv = False
    if kind == "bitflip":
        for _ in range(rnd.choice([1, 1, 2, 5])):
            i = rnd.randrange(len(b))
            b[i] ^= 1 << rnd.randrange(8)
    elif kind in ("del_tok", "dup_tok", "swap_tok", "ins_tok"):
        idx = [i for i, t in enumerate(toks) if not t.isspace()]
        if len(idx) >= 2:
            i = rnd.choice(idx)
            if kind == "del_tok":
                del toks[i]
            elif kind == "dup_tok":
                toks.insert(i, toks[i])
            elif kind == "swap_tok":
                j = rnd.choice(idx)
                toks[i], toks[j] = toks[j], toks[i]
            else:
                toks.insert(i, rnd.choice([b"{", b"}", b"(", b")", b";", b"==", b":=", b"=>", b"where", b"add", b"with",
                                           b"if", b"then", b"else", b"for", b"in", b"repeat", b"return", b"#", b"\\", b"'",
                                           b"%", b"$", b"@", b"..", b"99999999999999999999999", b"1.0e99999", b"_"]) + b" ")
        b = bytearray(b"".join(toks))
    elif kind == "unbalance":
        br = [i for i, t in enumerate(toks) if t in (b"{", b"}", b"(", b")", b"[", b"]")]
        if br:
            i = rnd.choice(br)
            if rnd.random() < 0.5:
                del toks[i]
            else:
                toks[i] = rnd.choice([b"{", b"}", b"(", b")", b"[", b"]"])
            b = bytearray(b"".join(toks))
        else:
            b += rnd.choice([b"\n{\n", b"\n)\n", b"\n]\n"])
        inv = False   # deleting one bracket of a redundant pair can leave a valid program
        if not br:
            inv = True
    elif kind == "unterminated":
        b += b'\ns: String := "never closed\n'
        inv = True
    elif kind == "highbyte":
        for _ in range(rnd.choice([1, 3, 10])):
            i = rnd.randrange(len(b) + 1)
            b[i:i] = bytes([rnd.randrange(0x80, 0x100)])
            if rnd.random() < 0.3:
                b[i:i] = b"_"
    elif kind == "nul":
        i = rnd.randrange(len(b) + 1)
        b[i:i] = b"\x00" * rnd.choice([1, 2, 7])
    elif kind == "longline":
        n = rnd.choice([300, 5000, 20000, 70000])
        i = rnd.randrange(len(b) + 1)
        b[i:i] = rnd.choice([b" ", b"x", b"1", b"+ 1 ", b"-- c", b"(", b"\t"]) * n
    elif kind == "deep":
        n = rnd.choice([50, 500, 3000])
        o, c = rnd.choice([(b"(", b")"), (b"{", b"}"), (b"[", b"]"), (b"if true then ", b""), (b"-", b"")])
        b += b"\nzz: SingleInteger := " + o * n + b"1" + c * n + b";\n"
    elif kind == "directive":
        ds = [b"#if A\n", b"#else\n", b"#endif\n", b"#elseif B\n", b"#assert A\n", b"#unassert A\n", b'#include "nonexistent.as"\n',
              b"#include\n", b"#line 100000000\n", b"#line -5\n", b'#line 3 "x"\n', b"#pile\n", b"#endpile\n", b"#unknown\n", b"#\n",
              b'#library L "none.ao"\n', b"#error boo\n", b"#quit\n", b"#if\n"]
        for _ in range(rnd.choice([1, 2, 6])):
            lines = bytes(b).split(b"\n")
            lines.insert(rnd.randrange(len(lines) + 1), rnd.choice(ds).rstrip(b"\n"))
            b = bytearray(b"\n".join(lines))
    elif kind == "truncate":
        b = b[:rnd.randrange(len(b) + 1)]
    elif kind == "escape":
        i = rnd.randrange(len(b) + 1)
        b[i:i] = rnd.choice([b"_\n", b"_", b"__", b"_\t", b'_"', b"'", b"_ ", b"\\", b"\r", b"\r\n", b"\x0c", b"\x1b"])
    else:
        n = rnd.choice([1, 10, 200, 3000])
        b = bytearray(rnd.getrandbits(8) for _ in range(n))
        if rnd.random() < 0.5:
            b = bytearray(b'#include "axllib"\n') + b
    return bytes(b), kind, inv


# ------------------------------------------------------------------ running and classifying
def compile_args(exe):
    RB = C.RB
    return [exe, "-Nfile=%s/aldor/src/aldor.conf" % RB, "-Y%s/aldor/lib/libfoam/al" % RB,
            "-I%s/lib/axllib/include" % RB, "-Y%s/lib/axllib/src" % RB, "-Mno-emax"]


FAULT_RE = re.compile(r"Program fault|Compiler bug|Bug:|Assertion|assertion|Storage allocation error|stack smashing|core dumped|double free|malloc\(\)")


def classify(rc, text):
    if rc == 124:
        return "hang"
    if rc < 0 or rc in (134, 139) or FAULT_RE.search(text):
        return "fault"
    # a diagnostic line starts with its position and serial number; the echoed source excerpt may itself
    # contain the words "(Error)" (the corpus has bug reports quoting compiler messages)
    has_err = re.search(r"(?m)^(\[L\d+ C\d+\] )?#\d+ \((Fatal Error|Error)\)", text) is not None
    if rc == 0 and has_err:
        return "status0_with_error"
    if rc != 0 and not has_err:
        return "status_nonzero_without_error"
    return "diag" if rc != 0 else "accepted"


def signature(exe, d, text):
    """stable key for a fault: internal-bug message text, else top frames from gdb"""
    m = re.search(r"(Bug: [^\n]{0,80}|Assertion[^\n]{0,100}|assertion[^\n]{0,100}|Storage allocation error[^\n]{0,60})", text)
    if m and "Program fault" not in text:
        return re.sub(r"0x[0-9a-f]+|\d{3,}", "N", m.group(1)).strip()
    rc, out, err = C.run(["gdb", "-batch", "-nx", "-ex", "run", "-ex", "bt 8", "--args"] + compile_args(exe) + ["m.as"],
                         cwd=d, env=C.aldor_env(), timeout=120)
    frames = re.findall(r"^#\d+\s+(?:0x[0-9a-f]+ in )?(\w+) \(", out, re.M)
    frames = [f for f in frames if not f.startswith("__") and f not in ("raise", "abort", "kill")]
    if frames and len(set(frames[:8])) <= 3 and len(frames) >= 6:
        # unbounded recursion (stack exhaustion): the top frames are one cycle seen at an arbitrary phase
        return "segv:recursion:" + "+".join(sorted(set(frames[:8])))
    if not frames:
        m2 = re.search(r"Program fault \(([^)]*)\)", text)
        return "fault:no-frames:" + (m2.group(1) if m2 else "unknown")
    return "segv:" + "/".join(frames[:3])


def hang_signature(exe, d):
    """where a non-terminating compilation is: the phase-level frames (the three frames
    nested directly inside compFileFront), sampled with gdb after a few seconds"""
    p = subprocess.Popen(compile_args(exe) + ["m.as"], cwd=d, env=C.aldor_env(),
                         stdout=subprocess.DEVNULL, stderr=subprocess.DEVNULL)
    try:
        try:
            p.wait(timeout=8)
            return "hang:not-reproduced"
        except subprocess.TimeoutExpired:
            pass
        rc, out, err = C.run(["gdb", "-batch", "-nx", "-p", str(p.pid), "-ex", "bt -16"], timeout=60)
        names = re.findall(r"^#\d+\s+(?:0x[0-9a-f]+ in )?(\w+) \(", out, re.M)
        if "compFileFront" in names:
            i = names.index("compFileFront")
            return "hang:" + "/".join(reversed(names[max(0, i - 3):i]))
        return "hang:" + "/".join(reversed(names[-4:]))
    finally:
        p.kill()
        p.wait()


def one_case(exe, d, data):
    os.makedirs(d, exist_ok=True)
    open(d + "/m.as", "wb").write(data)
    rc, out, err = C.run(compile_args(exe) + ["m.as"], cwd=d, env=C.aldor_env(), timeout=TIME_LIMIT)
    if rc == 124:
        # a loaded machine is not a hang: only a run that also exceeds a much longer limit counts
        rc, out, err = C.run(compile_args(exe) + ["m.as"], cwd=d, env=C.aldor_env(), timeout=6 * TIME_LIMIT)
    return rc, (out + err)


def gen_cases(rnd, seeds, n, kinds, tag):
    cases = []
    for i in range(n):
        src = rnd.choice(seeds)
        data, kind, inv = mutate(rnd, src, kinds)
        if rnd.random() < 0.25:
            data, k2, inv2 = mutate(rnd, data, kinds)
            kind, inv = kind + "+" + k2, False
        cases.append(("%s%d" % (tag, i), data, kind, inv))
    return cases


def explore(rep, tier, exe, n_fixed, n_seeded):
    import random
    seeds = [open(p, "rb").read() for p in corpus()] + HAND
    work = C.scratch("c07")
    cases = []
    # 0. recorded inputs of known findings and past failures run first
    cdir = C.VERIF + "/corpus/C07"
    if os.path.isdir(cdir):
        for f in sorted(os.listdir(cdir)):
            if f.endswith(".as"):
                cases.append(("k" + f[:-3], open(cdir + "/" + f, "rb").read(), "corpus", False))
    # 1. fixed stream (all kinds), independent of VERIF_SEED; quick = a prefix of thorough
    cases += gen_cases(random.Random("c07-fixed-stream-v1"), seeds, n_fixed, ALL_KINDS, "f")
    # 2. seeded stream
    cases += gen_cases(C.rng("c07"), seeds, n_seeded, SEEDED_KINDS, "s")
    # inputs recorded with a known finding: any unclean outcome on exactly that input is that finding
    # (crash sites of memory-corruption faults are not stable from run to run; the input is)
    corpus_by_hash = {}
    if os.path.isdir(cdir):
        for f in sorted(os.listdir(cdir)):
            if f.endswith(".as"):
                corpus_by_hash[hashlib.sha1(open(cdir + "/" + f, "rb").read()).hexdigest()] = f
    stats, kinds, fk = {}, {}, {}
    sigs = {}
    samples = []

    def run(c):
        i, data, kind, inv = c
        d = "%s/%s" % (work, i)
        rc, text = one_case(exe, d, data)
        return c, d, rc, text
    with concurrent.futures.ThreadPoolExecutor(C.NCPU) as ex:
        for (i, data, kind, inv), d, rc, text in ex.map(run, cases):
            cl = classify(rc, text)
            if cl == "accepted" and inv:
                cl = "invalid_accepted_silently"
            stats[cl] = stats.get(cl, 0) + 1
            k0 = kind.split("+")[0]
            kinds[k0] = kinds.get(k0, 0) + 1
            if cl in ("diag", "accepted"):
                if len(samples) < 3:
                    samples.append({"kind": kind, "class": cl, "rc": rc, "bytes": len(data), "head": data[:80].decode("latin-1")})
                continue
            fk[k0] = fk.get(k0, 0) + 1
            if cl == "fault":
                sig = signature(exe, d, text)
            elif cl == "hang":
                sig = hang_signature(exe, d)
            elif cl == "status_nonzero_without_error":
                last = [l for l in text.strip().split("\n") if l.strip()]
                sig = cl + ":" + (re.sub(r"\d+", "N", last[-1].strip())[:60] if last else "")
            else:
                sig = cl
            cf = corpus_by_hash.get(hashlib.sha1(data).hexdigest())
            if cf:
                sig = "input:" + cf
            sigs.setdefault(sig, []).append(i)
            if len(sigs[sig]) == 1:
                h = hashlib.sha1(data).hexdigest()[:12]
                os.makedirs(C.VERIF + "/replays", exist_ok=True)
                path = "%s/replays/C07-input-%s.as" % (C.VERIF, h)
                open(path, "wb").write(data)
                rep.violation("%s on a %s mutant (rc=%s): %s" % (cl, kind, rc, sig),
                              {"input_file": path, "case": i, "kind": kind, "rc": rc, "class": cl, "signature": sig,
                               "output_tail": text[-600:], "cmd": " ".join(compile_args("aldor")) + " m.as"},
                              key=sig)
    rep.add_cov(evaluations=len(cases), distinct_nontrivial=len({hashlib.sha1(c[1]).hexdigest() for c in cases}),
                rule="each case = one mutated corpus source (15 mutation kinds; one in four doubly mutated); distinct by content hash; "
                     "streams: recorded corpus, fixed stream (all kinds), VERIF_SEED stream (kinds %s)" % ",".join(SEEDED_KINDS),
                samples=samples, outcome_classes=stats, mutation_kinds=kinds, not_clean_by_kind=fk,
                fault_signatures={k: len(v) for k, v in sigs.items()},
                stream_sizes={"fixed": n_fixed, "seeded": n_seeded})
    return sigs


def status_corners(rep, exe, d):
    """The exit status must be non-zero exactly when an error was printed - also on the paths that do not
    return through main: the error limit (-M emax=N, default and explicit, N around the 8-bit boundary),
    errors that arise only inside an included file, in the second file of one invocation, from the
    includer (unbalanced #else/#endif) rather than from the type checker."""
    def errs(n, kind):
        if kind == "undef":
            return "".join("x%d: SingleInteger := undefinedname%d;\n" % (i, i) for i in range(n))
        return "".join("#else\n" for i in range(n))          # includer errors: #else without #if
    cases = []
    for kind in ("undef", "incl"):
        for n in (1, 9, 10, 11, 255, 256, 257, 300, 512, 600):
            for emax in (None, 10, 255, 256, 257, 512, "no"):
                if emax not in (None, "no") and n < emax and n > 12:
                    continue
                cases.append((kind, n, emax))
    import concurrent.futures

    def one(c):
        kind, n, emax = c
        dd = "%s/sc_%s_%d_%s" % (d, kind, n, emax)
        os.makedirs(dd, exist_ok=True)
        open(dd + "/m.as", "w").write('#include "axllib"\n' + errs(n, kind))
        args = [a for a in compile_args(exe) if a != "-Mno-emax"]
        if emax == "no":
            args.append("-Mno-emax")
        elif emax is not None:
            args += ["-M", "emax=%d" % emax]
        rc, out, err = C.run(args + ["m.as"], cwd=dd, env=C.aldor_env(), timeout=120)
        return c, rc, out + err
    n_checked = 0
    with concurrent.futures.ThreadPoolExecutor(C.NCPU) as ex:
        for (kind, n, emax), rc, text in ex.map(one, cases):
            n_checked += 1
            nerr = len(re.findall(r"(?m)^(\[L\d+ C\d+\] )?#\d+ \((Fatal Error|Error)\)", text))
            if (nerr > 0) != (rc != 0) or rc < 0 or rc == 124:
                rep.violation("%d error lines printed, exit status %d (%d %s errors in the source, error limit %s)"
                              % (nerr, rc, n, "undefined-name" if kind == "undef" else "includer (#else without #if)",
                                 "default" if emax is None else ("off" if emax == "no" else emax)),
                              {"errors_in_source": n, "kind": kind, "emax": emax, "rc": rc, "error_lines": nerr,
                               "cmd": "aldor [-M emax=N | -Mno-emax] m.as", "output_tail": text[-300:]})
    # errors only inside an included file; errors only in the second file of the invocation
    dd = d + "/sc_inc"
    os.makedirs(dd, exist_ok=True)
    open(dd + "/inc.as", "w").write("y: SingleInteger := undefinedInInclude;\n")
    open(dd + "/m.as", "w").write('#include "axllib"\n#include "inc.as"\nx: SingleInteger := 1;\n')
    open(dd + "/good.as", "w").write('#include "axllib"\nx: SingleInteger := 1;\n')
    open(dd + "/bad.as", "w").write('#include "axllib"\nz: SingleInteger := undefinedInSecondFile;\n')
    for files in (["m.as"], ["good.as", "bad.as"], ["bad.as", "good.as"]):
        rc, out, err = C.run(compile_args(exe) + files, cwd=dd, env=C.aldor_env(), timeout=120)
        n_checked += 1
        nerr = len(re.findall(r"(?m)^(\[L\d+ C\d+\] )?#\d+ \((Fatal Error|Error)\)", out + err))
        if (nerr > 0) != (rc != 0):
            rep.violation("%d error lines printed, exit status %d for files %s" % (nerr, rc, files),
                          {"files": files, "rc": rc, "error_lines": nerr, "output_tail": (out + err)[-300:]})
    rep.add_cov(status_corner_cases=n_checked)


def run(rep, tier):
    P = generate()
    rep.add_cov(generated_params=P)
    C.proof_stage(rep, "C07", TARGETS, PROPS, searcher=None, defer=True)
    exe = C.build_compiler()
    # targeted inputs for the two proved sub-claims (they are the searcher for those obligations)
    d = C.scratch("c07t")
    for b in (0x80, 0xC3, 0xFF):
        rc, text = one_case(exe, "%s/hb%d" % (d, b), b'#include "axllib"\n_' + bytes([b]) + b'abc: SingleInteger := 2;\n')
        if classify(rc, text) in ("fault", "hang"):
            rep.violation("source with byte 0x%02x after the escape character: %s" % (b, classify(rc, text)),
                          {"bytes": "_\\x%02x" % b, "rc": rc, "output": text[-400:]}, key=None)
    for n in (255, 256, 257, 512):
        src = '#include "axllib"\n' + "".join("x%d: SingleInteger := undefinedname%d;\n" % (i, i) for i in range(n))
        rc, text = one_case(exe, "%s/n%d" % (d, n), src.encode())
        nerr = len(re.findall(r"\(Error\)", text))
        if nerr > 0 and rc == 0:
            rep.violation("%d errors printed, exit status 0" % nerr, {"errors": nerr, "rc": rc, "n": n})
    status_corners(rep, exe, d)
    if tier == "quick":
        explore(rep, tier, exe, 1200, 1500)
    else:
        explore(rep, tier, exe, 30000, 30000)
    rep.assume("time limit %d s per input stands for 'terminates'" % TIME_LIMIT,
               "fault = signal, 'Program fault', 'Compiler bug', 'Bug:', assertion or allocator error text",
               "validity of a mutant is unknown in general: 'invalid input accepted silently' is only checked for mutants "
               "that are invalid by construction (unterminated string, stray closing bracket)")


def replay(path):
    r = json.load(open(path))
    print(json.dumps(r, indent=1)[:3000])
    exe = C.build_compiler()
    f = r["replay"].get("input_file")
    if f and os.path.exists(f):
        rc, text = one_case(exe, C.scratch("c07r"), open(f, "rb").read())
        print(rc, text[-1000:])
        return 1 if classify(rc, text) not in ("diag", "accepted") else 0
    return 0
