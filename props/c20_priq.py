"""C20, part "priq": the array heap of priq.c.

  proof stage     coq/Props/Properties_C20_priq.v (model coq/PriQ/Model.v, lemmas coq/PriQ/Facts.v)
  correspondence  harness/priq/h.c (#includes the CURRENT priq.c) against the extracted model:
                  every result line AND the array layout (dump) must be identical
  oracle          python multiset / sorted list kept here: every extracted key is the minimum of
                  what is queued, the extracted (key,payload) was queued and is removed once, counts
                  agree, size is a power of two that doubles exactly when full
  evidence        rep.add_cov(priq={...})
"""
import bisect, json, os, time
from vlib import common as C

PART = "priq"
PID = "C20"
PROPS = "Props/Properties_C20_priq.v"
TARGETS = ["Props/Properties_C20_priq.vo", "PriQ/Extract.vo"]

MANIFEST_PART = {
    "what": "priq.c: heapSiftOutward/Inward, heapInsert, heapExtractMin, heapPeekMin, heapCheck, heapMap, "
            "priqNew (with util.c cielLg), priqInsert (growth by doubling), priqExtractMin, priqPeekMin as Gallina "
            "functions on lists; theorems for heaps of any size and any interleaving of inserts/extracts/peeks: "
            "heap order kept, extracted part has a minimum key, contents change by exactly that part, written slot "
            "inside the allocation, key sequence = reference sorted-list queue, payload multiset conserved. "
            "Tie: random + boundary-aimed histories (growth thresholds, complete-level sizes, ties) through "
            "harness/priq/h.c vs extracted model incl. array layout; python sorted-multiset oracle.",
    "not_modelled": "double keys that are NaN or non-integers (any total order would do; the model uses Z), int "
                    "overflow of 2*i+2 above 2^30 entries, stoResize/stoAlloc themselves, priqFreeDeeply, priqPrint; "
                    "extraction from an empty queue (the C guard tests size instead of argc and does not reject it)",
}

_built = {}


def lib_files(exclude):
    gen = C.makefile_am_sources("libgen_a_SOURCES")
    port = C.makefile_am_sources("libport_a_SOURCES")
    return [f for f in gen + port if f not in exclude and f != "test.c"]


def harness():
    if "h" not in _built:
        _built["h"] = C.build_harness("priq", "priq/h.c", lib_files(("priq.c",)))
    return _built["h"]


def model():
    if "m" not in _built:
        d = C.COQ + "/PriQ/extracted/"
        _built["m"] = C.build_ocaml("priqm", [d + "priq_model.mli", d + "priq_model.ml"], C.COQ + "/PriQ/driver.ml")
    return _built["m"]


def run_lines(exe, lines, timeout=900):
    rc, out, err = C.run([exe], input="\n".join(lines) + "\n", timeout=timeout)
    res = out.split("\n")
    if res and res[-1] == "":
        res.pop()
    return rc, res, err


# ------------------------------------------------------------------ oracle
def ceil_lg(n):
    i, p = 0, 1
    while n > p:
        i, p = i + 1, p * 2
    return i


class Ref:
    """reference queue: sorted list of (key, payload)"""

    def __init__(self, g):
        self.items = []
        self.size = 1 << ceil_lg(g)

    def check(self, line, res):
        """returns None or a description of the property violation"""
        t = line.split()
        op = t[0]
        if res.startswith("crash"):
            return "implementation crashed (%s) on %r" % (res, line)
        r = res.split()
        if op == "ins":
            k, e = int(t[1]), int(t[2])
            if self.size == len(self.items):
                self.size *= 2
            bisect.insort(self.items, (k, e))
            if r != [str(len(self.items)), str(self.size)]:
                return "after insert the queue reports argc/size %s, expected %d %d" % (res, len(self.items), self.size)
            if len(self.items) > self.size:
                return "argc exceeds the allocated size"
            return None
        if op in ("ext", "peek"):
            if not self.items:
                return None if res == "EMPTY" else "empty queue answered %s" % res
            if res == "EMPTY":
                return "queue with %d entries answered EMPTY" % len(self.items)
            k, e = int(r[0]), int(r[1])
            if k != self.items[0][0]:
                return "%s returned key %d but the minimum queued key is %d" % (op, k, self.items[0][0])
            i = bisect.bisect_left(self.items, (k, e))
            if i >= len(self.items) or self.items[i] != (k, e):
                return "%s returned (%d,%d) which is not queued" % (op, k, e)
            if op == "ext":
                del self.items[i]
                if int(r[2]) != len(self.items):
                    return "after extract argc is %s, expected %d" % (r[2], len(self.items))
            return None
        if op == "count":
            return None if res == str(len(self.items)) else "count %s, expected %d" % (res, len(self.items))
        if op in ("map", "dump"):
            got = sorted(tuple(int(x) for x in p.split(":")) for p in r)
            if got != self.items:
                return "%s shows %d entries that are not the queued multiset (%d entries)" % (op, len(got), len(self.items))
            if op == "dump":
                ks = [int(p.split(":")[0]) for p in r]
                for j in range(1, len(ks)):
                    if ks[(j - 1) // 2] > ks[j]:
                        return "array is not heap ordered at index %d" % j
            return None
        if op == "check":
            return None        # priqCheck itself is not part of the property (it rejects equal keys; see report)
        return None


def split_histories(lines):
    hs, cur = [], []
    for l in lines:
        if l.startswith("new") and cur:
            hs.append(cur)
            cur = []
        cur.append(l)
    if cur:
        hs.append(cur)
    return hs


def judge(lines, cout, mout):
    """first failure in a script: (index, kind, what) or None"""
    ref = None
    first_mismatch = None            # a property failure anywhere in the history takes precedence
    for i, l in enumerate(lines):
        c = cout[i] if i < len(cout) else "crash-exit"
        m = mout[i] if i < len(mout) else "model-missing"
        if l.startswith("new"):
            g = int(l.split()[1])
            ref = Ref(g)
            bad = None if c == str(ref.size) else "priqNew(%d) has size %s, expected %d" % (g, c, ref.size)
        else:
            bad = ref.check(l, c)
        if bad:
            return (i, "property", bad)
        if c != m and first_mismatch is None:
            first_mismatch = (i, "mismatch", "implementation %r, model %r" % (c, m))
    return first_mismatch


# ------------------------------------------------------------------ generators
def history(rnd, kind):
    g = rnd.choice((0, 0, 1, 2, 3, 4, 5, 7, 8, 9, 15, 16, 17, 30, 31, 32, 33, 63, 64, 65, 100))
    lines = ["new %d" % g]
    sz = 1 << ceil_lg(g)
    n = 0
    pay = [0]

    def ins(k):
        pay[0] += 1
        lines.append("ins %d %d" % (k, pay[0]))

    keyr = rnd.choice((2, 3, 5, 10, 100, 10 ** 6, 2 ** 40))
    def key():
        w = rnd.random()
        if w < 0.05:
            return rnd.choice((0, -1, 1, -keyr, keyr))
        return rnd.randint(-keyr, keyr) if rnd.random() < 0.3 else rnd.randint(0, keyr)

    if kind == "grow":
        # fill across 2..4 doublings, hovering around each threshold
        target = sz * rnd.choice((2, 4, 8)) + rnd.randint(0, 3)
        target = min(target, 700)
        while n < target:
            ins(key()); n += 1
            if n in (sz, sz + 1, 2 * sz, 2 * sz + 1, 4 * sz, 4 * sz + 1) or rnd.random() < 0.03:
                for _ in range(rnd.randint(1, 3)):
                    lines.append("ext"); n = max(0, n - 1)
                    ins(key()); n += 1
                lines.append(rnd.choice(("dump", "count", "peek", "map", "check")))
        for _ in range(rnd.randint(0, n + 2)):
            lines.append("ext"); n = max(0, n - 1)
        lines.append("dump")
    elif kind == "levels":
        # sizes 2^k-2 .. 2^k+1: last node with one child / none
        k = rnd.randint(1, 7)
        target = (1 << k) + rnd.randint(-2, 1)
        for _ in range(max(0, target)):
            ins(key()); n += 1
        lines.append("dump")
        for _ in range(n + 1):
            lines.append("ext")
            if rnd.random() < 0.2:
                lines.append("dump")
    elif kind == "ties":
        for _ in range(rnd.randint(1, 40)):
            ins(rnd.randint(0, 2)); n += 1
            if rnd.random() < 0.3:
                lines.append("ext"); n = max(0, n - 1)
            if rnd.random() < 0.1:
                lines.append(rnd.choice(("check", "dump", "map")))
        for _ in range(n + 1):
            lines.append("ext")
    elif kind == "drain":
        m = rnd.randint(3, 60)
        kr = rnd.choice((3, 10, 50, 1000))
        for _ in range(m):
            ins(rnd.randint(0, kr))
        for _ in range(m + 1):
            lines.append("ext")
    elif kind == "sorted":
        m = rnd.randint(1, 80)
        ks = list(range(m))
        if rnd.random() < 0.5:
            ks.reverse()
        for k in ks:
            ins(k)
        lines.append("dump")
        lines.append("check")
        for _ in range(m + 1):
            lines.append("ext")
    else:  # mixed
        steps = rnd.randint(1, 300)
        pins = rnd.choice((0.4, 0.55, 0.7))
        for _ in range(steps):
            w = rnd.random()
            if w < pins:
                ins(key())
            elif w < 0.9:
                lines.append("ext")
            else:
                lines.append(rnd.choice(("peek", "count", "dump", "map", "check")))
    return lines


def long_history(rnd, steps, cap):
    lines = ["new %d" % rnd.choice((0, 30, 64))]
    n, pay = 0, 0
    up = True
    for _ in range(steps):
        if n >= cap:
            up = False
        if n == 0:
            up = True
        p = 0.62 if up else 0.38
        if rnd.random() < p:
            pay += 1
            lines.append("ins %d %d" % (rnd.randint(0, 10 ** 5), pay)); n += 1
        else:
            lines.append("ext"); n = max(0, n - 1)
        if rnd.random() < 0.002:
            lines.append("dump")
    lines.append("dump")
    return lines


# ------------------------------------------------------------------ shrinking
def shrink_history(h, fails, budget=250):
    """delete chunks of operations (never the leading `new`) while `fails(history)` keeps failing"""
    cur = h
    chunk = max(1, (len(cur) - 1) // 2)
    while chunk >= 1 and budget > 0:
        i = 1
        progressed = False
        while i < len(cur) and budget > 0:
            cand = cur[:i] + cur[i + chunk:]
            budget -= 1
            if len(cand) >= 1 and fails(cand):
                cur = cand
                progressed = True
            else:
                i += chunk
        if not progressed or chunk == 1:
            chunk //= 2
    return cur


def campaign(rep, tier, state):
    if state.get("done"):
        return
    state["done"] = True
    t0 = time.time()
    rnd = C.rng("c20-priq")
    hs = []
    corpus = os.path.join(C.VERIF, "corpus", PID, "priq.lines")
    if os.path.exists(corpus):
        hs += split_histories([l for l in open(corpus).read().split("\n") if l.strip()])
    ncorp = len(hs)
    nh = 400 if tier == "quick" else 6000
    kinds = ("grow", "levels", "ties", "sorted", "mixed", "drain", "drain")
    dist = {}
    for i in range(nh):
        k = kinds[i % len(kinds)]
        dist[k] = dist.get(k, 0) + 1
        hs.append(history(rnd, k))
    if tier == "quick":
        hs.append(long_history(rnd, 10000, 300)); dist["long"] = 1
    else:
        for cap in (300, 1500, 3000):
            hs.append(long_history(rnd, 100000 if cap == 300 else 30000, cap))
        dist["long"] = 3
    lines = [l for h in hs for l in h]
    rc, cout, cerr = run_lines(harness(), lines)
    rm, mout, merr = run_lines(model(), lines)
    if len(mout) != len(lines):
        raise RuntimeError("priq model driver failed: rc=%s %s" % (rm, merr[-300:]))
    # judge history by history
    pos = 0
    failures = 0
    maxlen = 0
    opsd = {}
    failing = []
    for h in hs:
        n = len(h)
        c, m = cout[pos:pos + n], mout[pos:pos + n]
        pos += n
        maxlen = max(maxlen, n)
        for l in h:
            o = l.split()[0]
            opsd[o] = opsd.get(o, 0) + 1
        bad = judge(h, c, m)
        if bad is not None:
            failing.append((h, bad))
    failing.sort(key=lambda hb: (hb[1][1] != "property", len(hb[0])))     # property failures first, short first
    for h, bad in failing:
        failures += 1
        if failures > 3:
            continue
        kind0 = bad[1]

        def fails(cand):
            _, c2, _ = run_lines(harness(), cand, timeout=60)
            _, m2, _ = run_lines(model(), cand, timeout=60)
            b = judge(cand, c2, m2)
            return b is not None and b[1] == kind0
        small = shrink_history(h[:bad[0] + 1], fails)
        _, c2, _ = run_lines(harness(), small, timeout=60)
        _, m2, _ = run_lines(model(), small, timeout=60)
        b2 = judge(small, c2, m2) or bad
        replay = {"part": PART, "lines": small, "impl": c2, "model": m2}
        if b2[1] == "property":
            rep.violation("priq: %s (operation %d of the replayed history)" % (b2[2], b2[0]), replay,
                          key="priq:" + " ".join(small)[:200])
            try:
                os.makedirs(os.path.dirname(corpus), exist_ok=True)
                with open(corpus, "a") as f:
                    f.write("\n".join(small) + "\n")
            except OSError:
                pass
        else:
            rep.violation("correspondence priq no longer checks: %s at operation %d; the multiset/minimum "
                          "property still holds on that history" % (b2[2], b2[0]), replay, no_input=True)
    distinct = len(set(zip(lines, cout)))
    rep.add_cov(priq={
        "evaluations": len(lines), "histories": len(hs), "distinct_nontrivial": distinct,
        "traces_validated_against_impl": len(hs),
        "rule": "every result line and every array dump identical between harness/priq/h.c (current priq.c) and "
                "the extracted model; python sorted-multiset oracle on every implementation result",
        "input_distribution": {"history_kinds": dist, "operations": opsd, "longest_history": maxlen,
                               "corpus_histories": ncorp},
        "failures": failures,
        "samples": [{"op": l, "impl": c} for l, c in list(zip(lines, cout))[:400:37]],
        "seconds": round(time.time() - t0, 1)})
    rep.add_cov(evaluations=len(lines), traces_validated_against_impl=len(hs))


def run_part(rep, tier):
    state = {}

    def searcher(log):
        try:
            campaign(rep, tier, state)
        except C.BuildError as e:
            rep.notes.append("priq searcher could not build: %s" % str(e)[:200])

    prev_axioms = dict(rep.cov.get("axioms") or {})      # proof_stage replaces these keys: keep the other parts'
    ok = C.proof_stage(rep, PID, TARGETS, PROPS, searcher)
    merged = dict(prev_axioms)
    merged.update(rep.cov.get("axioms") or {})
    rep.cov["axioms"] = merged
    rep.add_cov(**{PART + "_proof": {"ok": bool(ok), "properties_file": "coq/" + PROPS,
                                     "checker_cmd": "make -C coq %s && coqc -Q . AV %s" % (" ".join(TARGETS), PROPS)}})
    campaign(rep, tier, state)
    rep.assume(
        "priq: extraction of coq/PriQ/Model.v with ExtrOcamlBasic only; coq/PriQ/driver.ml only parses/prints",
        "priq: harness/priq/h.c #includes the current priq.c, stores integer keys in the double field and integer "
        "payloads in the pointer field, never calls extract/peek on an empty queue",
        "priq: keys form a total order (no NaN); fewer than 2^30 entries; stoAlloc/stoResize return usable memory",
        "priq: priqCheck is proved sound only: it calls bug() on valid heaps with equal keys on an edge "
        "(theorem priq_check_complete_refuted); it is not part of the property")


def replay_part(obj):
    lines = obj.get("lines", [])
    _, c, _ = run_lines(harness(), lines, timeout=120)
    _, m, _ = run_lines(model(), lines, timeout=120)
    return 1 if judge(lines, c, m) is not None else 0
