"""C04 — Every builtin operation means the same wherever it is evaluated.

Stages (BUILDER_CONTRACT):
  1. translator: tools/builtins_gen.py reads of_cfold.c:cfoldBCall, fint.c:fintEvalBCall,
     genc.c:ccBValInfoTable (+ gc0Builtin/gc0FCall/gc0Cop dispatch), foam_c.h macros, one-line leaf
     functions of foam_c.c/foam_i.c and foam.c:foamBValInfoTable of the CURRENT tree and writes
     coq/Gen/Builtins.v (deep embedding `cexp` of every row).  Entries that used to translate and
     no longer do are broken ties (tools/builtins_translated.json).
  2. proof stage: coq/Props/Properties_C04.v (fint_meets_spec, genc_meets_spec,
     cfold_declines_or_meets_spec, cfold_never_faults, cfold_meets_spec, three_agree, interp_c_agree, sameop_agree,
     coverage_complete, specified_present) over the regenerated tables.  Searcher: the extracted
     model (coq/Builtins/driver.ml) evaluates every row against `spec` over the boundary product,
     and each disagreement is confirmed on the real system.
  3. correspondence + direct oracle: generated Aldor sources apply each builtin (imported from
     `Builtin`) to constant operands from the boundary product and are run
        (a)  -Q0 -ginterp                      the interpreter evaluates the BCall
        (b)  -Q2 -ginterp                      the folder evaluates it (constant operands only exist after
                                               inlining; the fold is confirmed on the -Ffm dump: no BCall of the
                                               builtin is left in the unit)
        (c)  -Q0 C executable                  generated C + foam_c.h of the current tree, linked with the
                                               C runtime compiled from the CURRENT sources
     with the compiler built from the current tree; every printed value is compared with the
     mathematical definition (python, written independently of Spec.v) AND with the extracted
     model's prediction for that route.

Python API for other properties (C02, C03, C12):
    tables()  -> {"sig": [...], "cfold": [...], "fint": [...], "genc": [...]}   parsed rows, each
                 {"name", "exp" (IR tuple), "coq" (text), "translated", "declined", ...}
    SPEC      -> name -> (arg types, result type, python function, domain predicate)
    boundary(ty), operand_expr(ty, v), run_real(tests, routes)  helpers of the 3-way run
"""
import itertools, json, os, re, sys, time, concurrent.futures
from vlib import common as C

sys.path.insert(0, os.path.join(C.VERIF, "tools"))
import builtins_gen as G   # noqa: E402

ID = "C04"
LEVEL = "proof"
MANIFEST = {
    "level_text": "Coq proofs over tables REGENERATED from the current C sources: for every Bool, Char, Byte, "
                  "HInt, machine-integer and double-word builtin (75 builtins, the multi-result ones component by component) each of the three evaluators' C expressions "
                  "(folder, interpreter, generated C + runtime macros) is defined and equals the mathematical "
                  "definition on ALL well-typed operands of the stated domain (finite types exhaustively, "
                  "64-bit integers by proof over Z with explicit wrap-around); corollary three_agree; float / "
                  "big-integer / runtime-only / multi-result builtins (167) are proved to be syntactically the same C operation or "
                  "runtime call in every evaluator that implements them; coverage_complete puts every builtin "
                  "of foamBValInfoTable in exactly one class.  The embedding of C and the translator are "
                  "validated, and the property is decided independently, by running generated programs through "
                  "interpreter, folder and C executable built from the current tree.",
    "level_note": "Trusted: Coq kernel; the meaning given to the C expression subset in coq/Builtins/CInt.v "
                  "(LP64, gcc: wrapping signed arithmetic and shifts, arithmetic >>, glibc C-locale ctype) — "
                  "exercised against the real binaries on every run; tools/builtins_gen.py (checked by the same "
                  "runs and by the committed list of translating entries); the hand-mirrored case analysis of "
                  "gc0Builtin/gc0FCall/gc0Cop (hash-pinned).  Not modelled: operand fetch/decoding around the "
                  "switches, the ccode printer, gcc, SIntGcd/SIntLength/HashCombine bodies (same runtime call in "
                  "both run times; compared with exact arithmetic by the runs), float rounding, bigint.c (C11).",
    "technique": "Coq proof over generated deep embeddings of the three builtin tables + checked translation "
                 "+ 3-way differential run with an exact-arithmetic oracle on the real system",
    "design_ref": "DESIGN.md section 4 / C04",
}

COQ_GEN = os.path.join(C.COQ, "Gen", "Builtins.v")
PROOF_TARGETS = ["Builtins/ProofsFint.vo", "Builtins/ProofsGenc.vo", "Builtins/ProofsCfold.vo",
                 "Builtins/ProofsCover.vo", "Builtins/ProofsFault.vo", "Builtins/Extract.vo"]
PROPS = "Props/Properties_C04.v"

M63 = 1 << 63
M64 = 1 << 64


def red(z):
    return (z + M63) % M64 - M63


def cquot(a, b):
    q = abs(a) // abs(b)
    return q if (a < 0) == (b < 0) else -q


def crem(a, b):
    return a - b * cquot(a, b)


def div_ok(a, b):
    return b != 0 and not (a == -M63 and b == -1)


def b2z(b):
    return 1 if b else 0


def tbit(a, i):
    return (a >> i) & 1


def hash_combine(i1, i2):
    # util.c:hashCombinePair on LP64 (the operands are converted to int)
    def to_int(x):
        return (x + (1 << 31)) % (1 << 32) - (1 << 31)
    z1, z2, zzh, zzl = 0x419ac241, 0x5577f8e1, 0x440badfc, 0x05072367
    zz = red((zzh << 32) + zzl)
    h1 = to_int(i1) & ((1 << 32) - 1)
    h2 = to_int(i2) & ((1 << 32) - 1)
    t = red(red(z1 * h1 + z2 * h2) * zz) >> 32
    return to_int(t) & 0x3FFFFFFF


def _upper(c):
    return 65 <= c <= 90


def _lower(c):
    return 97 <= c <= 122


T, B, Ch, By, H, S = True, "FBool", "FChar", "FByte", "FHInt", "FSInt"
ALWAYS = lambda *a: True   # noqa: E731
SHIFT = lambda a, n: 0 <= n < 64   # noqa: E731

# the mathematical definition, written independently of coq/Builtins/Spec.v
SPEC = {
    "BoolFalse": ([], B, lambda: 0, ALWAYS), "BoolTrue": ([], B, lambda: 1, ALWAYS),
    "BoolNot": ([B], B, lambda a: 1 - a, ALWAYS),
    "BoolAnd": ([B, B], B, lambda a, b: a & b, ALWAYS), "BoolOr": ([B, B], B, lambda a, b: a | b, ALWAYS),
    "BoolEQ": ([B, B], B, lambda a, b: b2z(a == b), ALWAYS), "BoolNE": ([B, B], B, lambda a, b: b2z(a != b), ALWAYS),
    "CharSpace": ([], Ch, lambda: 32, ALWAYS), "CharNewline": ([], Ch, lambda: 10, ALWAYS),
    "CharTab": ([], Ch, lambda: 9, ALWAYS),
    "CharIsDigit": ([Ch], B, lambda c: b2z(48 <= c <= 57), ALWAYS),
    "CharIsLetter": ([Ch], B, lambda c: b2z(_upper(c) or _lower(c)), ALWAYS),
    "CharEQ": ([Ch, Ch], B, lambda a, b: b2z(a == b), ALWAYS), "CharNE": ([Ch, Ch], B, lambda a, b: b2z(a != b), ALWAYS),
    "CharLT": ([Ch, Ch], B, lambda a, b: b2z(a < b), ALWAYS), "CharLE": ([Ch, Ch], B, lambda a, b: b2z(a <= b), ALWAYS),
    "CharLower": ([Ch], Ch, lambda c: c + 32 if _upper(c) else c, ALWAYS),
    "CharUpper": ([Ch], Ch, lambda c: c - 32 if _lower(c) else c, ALWAYS),
    "CharOrd": ([Ch], S, lambda c: c, ALWAYS), "CharNum": ([S], Ch, lambda n: n % 256, ALWAYS),
    "Byte0": ([], By, lambda: 0, ALWAYS), "Byte1": ([], By, lambda: 1, ALWAYS),
    "ByteMin": ([], By, lambda: 0, ALWAYS), "ByteMax": ([], By, lambda: 255, ALWAYS),
    "HInt0": ([], H, lambda: 0, ALWAYS), "HInt1": ([], H, lambda: 1, ALWAYS),
    "HIntMin": ([], H, lambda: -32768, ALWAYS), "HIntMax": ([], H, lambda: 32767, ALWAYS),
    "SInt0": ([], S, lambda: 0, ALWAYS), "SInt1": ([], S, lambda: 1, ALWAYS),
    "SIntMin": ([], S, lambda: -M63, ALWAYS), "SIntMax": ([], S, lambda: M63 - 1, ALWAYS),
    "SIntIsZero": ([S], B, lambda a: b2z(a == 0), ALWAYS), "SIntIsNeg": ([S], B, lambda a: b2z(a < 0), ALWAYS),
    "SIntIsPos": ([S], B, lambda a: b2z(a > 0), ALWAYS),
    "SIntIsEven": ([S], B, lambda a: b2z(a % 2 == 0), ALWAYS), "SIntIsOdd": ([S], B, lambda a: b2z(a % 2 == 1), ALWAYS),
    "SIntEQ": ([S, S], B, lambda a, b: b2z(a == b), ALWAYS), "SIntNE": ([S, S], B, lambda a, b: b2z(a != b), ALWAYS),
    "SIntLT": ([S, S], B, lambda a, b: b2z(a < b), ALWAYS), "SIntLE": ([S, S], B, lambda a, b: b2z(a <= b), ALWAYS),
    "SIntNegate": ([S], S, lambda a: red(-a), ALWAYS),
    "SIntPrev": ([S], S, lambda a: red(a - 1), ALWAYS), "SIntNext": ([S], S, lambda a: red(a + 1), ALWAYS),
    "SIntPlus": ([S, S], S, lambda a, b: red(a + b), ALWAYS), "SIntMinus": ([S, S], S, lambda a, b: red(a - b), ALWAYS),
    "SIntTimes": ([S, S], S, lambda a, b: red(a * b), ALWAYS),
    "SIntTimesPlus": ([S, S, S], S, lambda a, b, c: red(a * b + c), ALWAYS),
    "SIntMod": ([S, S], S, crem, div_ok), "SIntQuo": ([S, S], S, cquot, div_ok), "SIntRem": ([S, S], S, crem, div_ok),
    "SIntPlusMod": ([S, S, S], S, lambda a, b, n: crem(red(a + b), n), lambda a, b, n: div_ok(red(a + b), n)),
    "SIntMinusMod": ([S, S, S], S, lambda a, b, n: crem(red(a - b), n), lambda a, b, n: div_ok(red(a - b), n)),
    "SIntTimesMod": ([S, S, S], S, lambda a, b, n: crem(red(a * b), n), lambda a, b, n: div_ok(red(a * b), n)),
    # fourth operand: the DFlo 1/n, written here as the integer n it is the inverse of
    "SIntTimesModInv": ([S, S, S, "FDFlo"], S, lambda a, b, n, i: crem(red(a * b), n),
                        lambda a, b, n, i: i == n and div_ok(red(a * b), n)),
    "SIntShiftUp": ([S, S], S, lambda a, n: red(a << n), SHIFT), "SIntShiftDn": ([S, S], S, lambda a, n: a >> n, SHIFT),
    "SIntBit": ([S, S], B, tbit, SHIFT),
    "SIntNot": ([S], S, lambda a: ~a, ALWAYS), "SIntAnd": ([S, S], S, lambda a, b: a & b, ALWAYS),
    "SIntOr": ([S, S], S, lambda a, b: a | b, ALWAYS), "SIntXOr": ([S, S], S, lambda a, b: a ^ b, ALWAYS),
    "ByteToSInt": ([By], S, lambda a: a, ALWAYS), "SIntToByte": ([S], By, lambda a: a % 256, ALWAYS),
    "HIntToSInt": ([H], S, lambda a: a, ALWAYS),
    "SIntToHInt": ([S], H, lambda a: (a + 32768) % 65536 - 32768, ALWAYS),
    "RoundZero": ([], S, lambda: 0, ALWAYS), "RoundNearest": ([], S, lambda: 1, ALWAYS), "RoundUp": ([], S, lambda: 2, ALWAYS),
    "RoundDown": ([], S, lambda: 3, ALWAYS), "RoundDontCare": ([], S, lambda: 4, ALWAYS),
}

W = "FWord"
M64W = 1 << 64
# components of the multi-result builtins ("X#k" = result k of X); Word = unsigned 64-bit
SPEC.update({
    "SIntDivide#0": ([S, S], S, cquot, div_ok), "SIntDivide#1": ([S, S], S, crem, div_ok),
    "WordPlusStep#0": ([W, W, W], W, lambda a, b, k: (a + b + k) >> 64, ALWAYS),
    "WordPlusStep#1": ([W, W, W], W, lambda a, b, k: (a + b + k) % M64W, ALWAYS),
    "WordTimesDouble#0": ([W, W], W, lambda a, b: (a * b) >> 64, ALWAYS),
    "WordTimesDouble#1": ([W, W], W, lambda a, b: (a * b) % M64W, ALWAYS),
    "WordTimesStep#0": ([W, W, W, W], W, lambda a, b, c, k: (a * b + c + k) >> 64, ALWAYS),
    "WordTimesStep#1": ([W, W, W, W], W, lambda a, b, c, k: (a * b + c + k) % M64W, ALWAYS),
})
# multi-result builtins: name -> (argument types, result types, python function returning the tuple, domain)
MULTI = {
    "SIntDivide": ([S, S], [S, S], lambda a, b: (cquot(a, b), crem(a, b)), div_ok, True),
    "WordPlusStep": ([W, W, W], [W, W], lambda a, b, k: divmod(a + b + k, M64W), ALWAYS, True),
    "WordTimesDouble": ([W, W], [W, W], lambda a, b: divmod(a * b, M64W), ALWAYS, True),
    "WordTimesStep": ([W, W, W, W], [W, W], lambda a, b, c, k: divmod(a * b + c + k, M64W), ALWAYS, True),
    # same-operation class (runtime function with branches and a loop): exact arithmetic on the runs only
    "WordDivideDouble": ([W, W, W], [W, W, W],
                         lambda nh, nl, d: (((nh << 64) + nl) // d >> 64, ((nh << 64) + nl) // d % M64W, ((nh << 64) + nl) % d),
                         lambda nh, nl, d: d != 0, False),
}

# integer builtins without a Coq spec (one implementation in the runtime, the folder declines or
# calls the same function): compared with exact arithmetic by the runs only
import math   # noqa: E402
ORACLE_ONLY = {
    "SIntGcd": ([S, S], S, lambda a, b: math.gcd(a, b), lambda a, b: a != -M63 and b != -M63),
    "SIntLength": ([S], S, lambda a: abs(a).bit_length(), ALWAYS),
    "SIntHashCombine": ([S, S], S, hash_combine, ALWAYS),
}

ALDOR_TY = {"FBool": "Bool", "FChar": "Char", "FByte": "XByte", "FHInt": "HInt", "FSInt": "SInt",
            "FSFlo": "SFlo", "FDFlo": "DFlo", "FBInt": "BInt", "FWord": "Word", "FPtr": "Ptr", "FArr": "Arr"}

# ------------------------------------------------------------------ boundary sets


def boundary(ty):
    if ty == B:
        return [0, 1]
    if ty == Ch:
        return list(range(128))
    if ty == By:
        return [0, 1, 2, 127, 128, 254, 255]
    if ty == H:
        return [0, 1, -1, 2, 127, 128, 255, 256, 257, -255, -256, 32766, 32767, -32767, -32768]
    if ty == W:
        # carry boundaries: all-ones words and halves, the 2^32 split, the sign bit
        vs = {0, 1, 2, 3, (1 << 32) - 1, 1 << 32, (1 << 32) + 1, (1 << 31), (1 << 63) - 1, 1 << 63, (1 << 63) + 1,
              M64W - 1, M64W - 2, 0xFFFFFFFF00000000, 0xFFFFFFFF00000001, 0x00000001FFFFFFFF, 0x8000000080000000,
              0xFFFFFFFEFFFFFFFF, 0x0000000100000001, 0xFFFF0000FFFF0000, 0x5555555555555555, 10, 1 << 16}
        return sorted(vs)
    vals = {0, 1, -1, 2, -2, 3, -3, 7, -7, 10, 63, 64, 65}
    for k in (7, 8, 15, 16, 31, 32, 62, 63):
        for d in (-1, 0, 1):
            for s in (1, -1):
                v = s * ((1 << k) + d)
                if -M63 <= v < M63:
                    vals.add(v)
    vals |= {M63 - 1, M63 - 2, -M63, -M63 + 1}
    return sorted(vals)


def tuples_for(name, argtys, dom, rng, cap):
    """Operand tuples from the boundary product: all of it when it fits under
    `cap`, otherwise the corners plus a seeded sample."""
    if name == "SIntTimesModInv":
        tups, total = tuples_for("SIntTimesMod", argtys[:3], lambda a, b, n: dom(a, b, n, n), rng, cap)
        return [t + (t[2],) for t in tups], total
    sets = []
    for i, t in enumerate(argtys):
        vs = boundary(t)
        if name in ("SIntShiftUp", "SIntShiftDn", "SIntBit") and i == 1:
            vs = [0, 1, 2, 7, 8, 31, 32, 33, 62, 63]
        sets.append(vs)
    total = 1
    for s in sets:
        total *= len(s)
    if total <= cap:
        out = [t for t in itertools.product(*sets)]
    else:
        seen = set()
        out = []
        corner = [[s[0], s[-1]] + [v for v in s if v in (0, 1, -1)] for s in sets]
        for t in itertools.product(*corner):
            if t not in seen:
                seen.add(t)
                out.append(t)
        while len(out) < cap:
            t = tuple(rng.choice(s) for s in sets)
            if t not in seen:
                seen.add(t)
                out.append(t)
    return [t for t in out if dom(*t)], total


# ------------------------------------------------------------------ translator glue

_tr_cache = {}


def _translation():
    if "t" not in _tr_cache:
        _tr_cache["t"] = G.translate(C.SRC)
    return _tr_cache["t"]


def generate():
    """(Re)write coq/Gen/Builtins.v from the current sources (called by tools/setup.py and run)."""
    t = _translation()
    kb = G.known_bad_from(C.known_findings())
    C.write_if_changed(COQ_GEN, G.emit_coq(t, kb))
    return t


def tables():
    """Parsed rows of the three builtin tables of the current tree (API for C02/C03/C12)."""
    t = _translation()
    out = {"sig": t["sig"]}
    for route in ("cfold", "fint", "genc"):
        out[route] = [dict(r, coq=G.coq(r["exp"]), translated=G.is_translated(r),
                           declined=(r["exp"] == ("declined",))) for r in t[route]]
    return out


# ------------------------------------------------------------------ extracted model

def zb(v):
    return ("-" + bin(-v)[2:]) if v < 0 else bin(v)[2:]


def bz(s):
    return -int(s[1:], 2) if s.startswith("-") else int(s, 2)


class Model:
    def __init__(self):
        ex = os.path.join(C.COQ, "Builtins", "extracted")
        self.exe = C.build_ocaml("c04drv", [ex + "/builtins.mli", ex + "/builtins.ml"],
                                 os.path.join(C.COQ, "Builtins", "driver.ml"))

    def ask(self, lines):
        rc, out, err = C.run([self.exe], input="\n".join(lines) + "\n", timeout=900)
        res = out.split("\n")[:len(lines)]
        if rc != 0 or len(res) != len(lines):
            raise RuntimeError("model driver failed rc=%d: %s" % (rc, err[-500:]))
        return res

    def sem(self, queries):
        """queries: (route, name, k, args) -> list of int | 'declined' | 'undef' | 'none'"""
        res = self.ask(["sem %s %s %d %s" % (r, n, k, " ".join(zb(a) for a in args)) for r, n, k, args in queries])
        return [x if x in ("declined", "undef", "none", "bad-query") else bz(x) for x in res]

    def spec(self, queries):
        res = self.ask(["spec %s %s" % (n, " ".join(zb(a) for a in args)) for n, args in queries])
        out = []
        for x in res:
            if x == "none":
                out.append(None)
            else:
                v, d, t = x.split()
                out.append((bz(v), d == "1", t == "1"))
        return out


def model_sweep(model, tr, rng, cap):
    """Every translated row of a specified builtin against spec over the boundary
    product, in the extracted model.  Returns (evaluations, mismatches)."""
    qs, meta = [], []
    for route in ("cfold", "fint", "genc"):
        counts = {}
        for r in tr[route]:
            n = r["name"]
            k = counts.get(n, 0)
            counts[n] = k + 1
            if n not in SPEC or r["exp"] == ("declined",):
                continue
            argtys, rty, fn, dom = SPEC[n]
            tups, _ = tuples_for(n, argtys, dom, rng, cap)
            for t in tups:
                qs.append((route, n, k, t))
                meta.append((route, n, r.get("variant", ""), t, red_to(rty, fn(*t))))
    got = model.sem(qs)
    bad = []
    for g, (route, n, var, t, want) in zip(got, meta):
        if g != want:
            bad.append({"route": route, "builtin": n, "variant": var, "operands": list(t),
                        "model_value": g, "definition": want})
    return len(qs), bad


def red_to(rty, v):
    return v


# ------------------------------------------------------------------ real system

HEADER = """#include "aldor"
#include "aldorio"
import from Machine;
import from MachineInteger, Boolean, Integer;
import {
%s
} from Builtin;
pr(tag: String, x: SInt): () == { stdout << tag << " " << (x::MachineInteger) << newline; }
macro K(n) == ((n@MachineInteger)::SInt);
macro KB(n) == ((n@Integer)::BInt);
"""


def aldor_sig(name, sig):
    s = sig[name]
    args = ", ".join(ALDOR_TY[a] for a in s["args"])
    ret = ALDOR_TY[s["ret"]] if s["ret"] != "FMulti" else "(%s)" % ", ".join(ALDOR_TY[r] for r in s["rets"])
    return "  %s: (%s) -> %s;" % (name, args, ret)


def operand_expr(ty, v):
    if ty == B:
        return "BoolTrue()" if v else "BoolFalse()"
    if ty == S:
        if v == -M63:
            return "SIntPrev(K(-%d))" % (M63 - 1)
        return "K(%d)" % v if v >= 0 else "K(-%d)" % (-v)
    if ty == Ch:
        return "CharNum(K(%d))" % v
    if ty == By:
        return "SIntToByte(K(%d))" % v
    if ty == H:
        return "SIntToHInt(%s)" % operand_expr(S, v)
    if ty == W:             # an unsigned word, written through its signed reinterpretation
        return "(%s pretend Word)" % operand_expr(S, v - M64W if v >= M63 else v)
    if ty == "FDFlo":       # the double 1/v
        return "DFloDivide(SIntToDFlo(K(1)), SIntToDFlo(%s))" % operand_expr(S, v)
    raise ValueError(ty)


def result_stmt(tag, rty, e):
    if rty == S:
        return 'pr("%s", %s);' % (tag, e)
    if rty == B:
        return 'pr("%s", (%s) pretend SInt);' % (tag, e)   # the raw Bool datum, not only its truth value
    if rty == Ch:
        return 'pr("%s", CharOrd(%s));' % (tag, e)
    if rty == By:
        return 'pr("%s", ByteToSInt(%s));' % (tag, e)
    if rty == H:
        return 'pr("%s", HIntToSInt(%s));' % (tag, e)
    if rty == W:
        return 'pr("%s", (%s) pretend SInt);' % (tag, e)
    raise ValueError(rty)


def used_builtins(exprs, sig):
    names = set()
    for e in exprs:
        for w in re.findall(r"\b([A-Z][A-Za-z0-9]*)\s*\(", e):
            if w in sig:
                names.add(w)
    return sorted(names)


def program(tests, sig, pre=()):
    """tests: [(aldor expression, result FOAM type)] -> source printing `t<i> <integer>` per test;
    `pre`: statements placed before (multi-result calls binding the variables the tests print)."""
    body = list(pre) + [result_stmt("t%d" % i, rty, e) for i, (e, rty) in enumerate(tests)]
    names = used_builtins(body, sig)
    hdr = HEADER % "\n".join(aldor_sig(n, sig) for n in names)
    return hdr + "\n".join(body) + "\n"


def spec_tests(name, argtys, rty, fn, tups):
    """[(expression, result type, expected value, operands)] for a builtin applied to operand tuples."""
    out = []
    for t in tups:
        call = "%s(%s)" % (name, ", ".join(operand_expr(ty, v) for ty, v in zip(argtys, t)))
        out.append((call, rty, fn(*t), list(t)))
    return out


def runtime_lib(thorough=False):
    """libfoam.a built from the CURRENT C sources (vlib.common.build_runtime); runtime.c (the C generated from
    runtime.as: domain/closure support, no builtin arithmetic) is /repo's pre-built one in both tiers
    (build_runtime(regen_runtime_c=True) cannot find "foamlib" on this image)."""
    return os.path.join(C.build_runtime(regen_runtime_c=False), "libfoam.a")


ROUTES = {
    "interp": ["-Q0", "-ginterp"],
    "fold": ["-Q2", "-ginterp"],      # constant operands only exist after inlining: the level-2 pipeline
    "c": None,
}
ROUTE_TIMEOUT = 15


def count_bcalls(fm_text, name):
    return len(re.findall(r"\(BCall\s+%s\b" % re.escape(name), fm_text))


def run_program(exe, d, base, src_text, name, routes, rt_objs):
    """Run one generated source through the routes. Returns {route: {tag: int} | {'error': text}}, extra."""
    os.makedirs(d, exist_ok=True)
    with open(os.path.join(d, base + ".as"), "w") as f:
        f.write(src_text)
    args0 = C.aldor_base_args(exe)
    env = C.aldor_env()
    res, extra = {}, {}

    def parse(out):
        vals = {}
        for line in out.split("\n"):
            m = re.fullmatch(r"(t\d+) (-?\d+)", line.strip())
            if m:
                vals[m.group(1)] = int(m.group(2))
        return vals
    for r in routes:
        if r == "c":
            rc, out, err = C.run(args0 + ["-Q0", "-Fc", "-Fmain", base + ".as"], cwd=d, env=env, timeout=300)
            if rc != 0:
                res[r] = {"error": "aldor -Fc rc=%d %s" % (rc, (out + err)[-400:])}
                continue
            exe_c = os.path.join(d, base + ".exe")
            rc, out, err = C.run(["gcc", "-w", "-ffloat-store", "-I", C.SRC, "-o", exe_c, base + ".c",
                                  base + "-aldormain.c", C.RB + "/lib/aldor/src/libaldor.a", rt_objs, "-lm"],
                                 cwd=d, timeout=300)
            if rc != 0:
                res[r] = {"error": "gcc rc=%d %s" % (rc, err[-600:])}
                continue
            rc, out, err = C.run([exe_c], cwd=d, env=env, timeout=120)
            res[r] = parse(out)
            if rc != 0:
                res[r]["error"] = "exe rc=%d %s" % (rc, err[-300:])
        else:
            flags = list(ROUTES[r])
            fm = None
            if r == "fold":
                fm = os.path.join(d, base + ".fold.fm")
                flags = ["-Ffm=" + fm] + flags
            rc, out, err = C.run(args0 + flags + [base + ".as"], cwd=d, env=env, timeout=ROUTE_TIMEOUT)
            res[r] = parse(out)
            if rc == 124:
                res[r] = {"timeout": True}
                continue
            if rc != 0:
                res[r]["error"] = "rc=%d %s" % (rc, (out + err)[-400:])
            if fm and os.path.exists(fm):
                try:
                    extra["bcalls_after"] = count_bcalls(open(fm).read(), name)
                except OSError:
                    pass
    return res, extra


def run_real(jobs, routes=("interp", "fold", "c"), exe=None):
    """jobs: [{"name": builtin, "tests": [(expression, result type, expected, operands)]}]
    -> the same jobs with "results" {route: {t<i>: value}} and "extra"; one generated source per
    job, jobs run in parallel.  Compiler and C runtime are built from the current tree."""
    exe = exe or C.build_compiler()
    rt = runtime_lib(THOROUGH[0]) if "c" in routes else None
    sig = {r["name"]: r for r in _translation()["sig"]}
    top = C.scratch("c04run")

    def one(i):
        j = jobs[i]
        src = program([(x[0], x[1]) for x in j["tests"]], sig, j.get("pre", ()))
        j["results"], j["extra"] = run_program(exe, os.path.join(top, "j%d" % i), "p", src, j["name"], routes, rt)
        for r in routes:
            # the compiler itself may not terminate at -Q2 on some programs (corpus/C04/hang_q2.as, reported):
            # evaluate the statements of such a program one by one on that route
            if j["results"].get(r, {}).get("timeout"):
                vals = {}
                for k, x in enumerate(j["tests"]):
                    e, rty = x[0], x[1]
                    one_src = program([(e, rty)], sig, j.get("pre", ()))
                    rr, _ = run_program(exe, os.path.join(top, "j%d_%s_%d" % (i, r, k)), "p", one_src, j["name"], (r,), rt)
                    v = rr.get(r, {})
                    if "t0" in v:
                        vals["t%d" % k] = v["t0"]
                vals["split_after_timeout"] = True
                j["results"][r] = vals
                j["extra"].pop("bcalls_after", None)
        return i
    with concurrent.futures.ThreadPoolExecutor(max(2, C.NCPU)) as ex:
        list(ex.map(one, range(len(jobs))))
    return jobs


# ------------------------------------------------------------------ compile-time fault probe

MAY_FAULT = ["SIntMod", "SIntQuo", "SIntRem", "SIntPlusMod", "SIntMinusMod", "SIntTimesMod", "SIntTimesModInv"]


def fault_cases():
    """(builtin, expression, operands): constant operands OUTSIDE the domain (zero divisor, LONG_MIN with -1)."""
    mn = operand_expr(S, -M63)
    out = []
    for n in ("SIntMod", "SIntQuo", "SIntRem"):
        out.append((n, "%s(K(5), K(0))" % n, [5, 0]))
        out.append((n, "%s(%s, K(-1))" % (n, mn), [-M63, -1]))
    for n, a, b in (("SIntPlusMod", -M63, 0), ("SIntMinusMod", -M63, 0), ("SIntTimesMod", -M63, 1)):
        out.append((n, "%s(K(3), K(4), K(0))" % n, [3, 4, 0]))
        out.append((n, "%s(%s, K(%d), K(-1))" % (n, mn, b), [a, b, -1]))
    out.append(("SIntTimesModInv", "SIntTimesModInv(K(3), K(4), K(0), SIntToDFlo(K(1)))", [3, 4, 0, 1]))
    out.append(("SIntTimesModInv", "SIntTimesModInv(%s, K(1), K(-1), SIntToDFlo(K(-1)))" % mn, [-M63, 1, -1, -1]))
    return out


def fault_probe(rep, state):
    """A call outside the domain in code that is never executed: compiling (with the folder on) and
    running the program must still work on every route."""
    exe = C.build_compiler()
    rt = runtime_lib()
    sig = {r["name"]: r for r in _translation()["sig"]}
    top = C.scratch("c04fault")
    cases = fault_cases()

    def one(i):
        name, e, ops = cases[i]
        body = ["f(b: Boolean): () == { if b then %s }" % result_stmt("t0", S, e)[:-1], "f(false);",
                result_stmt("t9", S, "K(1)")]
        names = used_builtins(body, sig)
        src = HEADER % "\n".join(aldor_sig(n, sig) for n in names) + "\n".join(body) + "\n"
        res, _ = run_program(exe, os.path.join(top, "f%d" % i), "p", src, name, ("interp", "fold", "c"), rt)
        return i, res
    n = 0
    with concurrent.futures.ThreadPoolExecutor(max(2, C.NCPU)) as ex:
        for i, res in ex.map(one, range(len(cases))):
            name, e, ops = cases[i]
            for r, vals in res.items():
                n += 1
                if vals.get("t9") != 1 or "error" in vals or vals.get("timeout"):
                    rep.violation(
                        "a program containing %s in a branch that is never executed cannot be compiled/run on route %s: %s" % (
                            e, r, (vals.get("error") or str(vals))[:200]),
                        {"builtin": name, "operands": ops, "route": r, "flags": ROUTES.get(r) or ["-Q0", "C executable"],
                         "expression": e, "dead_code": True,
                         "program": "f(b: Boolean): () == { if b then pr(\"t0\", %s) }  f(false);  pr(\"t9\", K(1));" % e,
                         "result": vals},
                        key="cfoldfault:%s" % name if r == "fold" else "%s:%s" % (route_of_real(r), name))
    return n


# ------------------------------------------------------------------ ctype probe

def ctype_probe(model, rep):
    """The libc functions the tables call, on this platform (C locale), against the model of them in CInt.v."""
    d = C.scratch("c04ct")
    with open(d + "/p.c", "w") as f:
        f.write('#include <ctype.h>\n#include <stdio.h>\nint main(void){int c;for(c=-1;c<256;c++)'
                'printf("%d %d %d %d %d\\n",c,isdigit(c),isalpha(c),tolower(c),toupper(c));return 0;}\n')
    C.run(["gcc", "-O0", "-o", d + "/p", d + "/p.c"], timeout=60, check=True)
    rc, out, err = C.run([d + "/p"], env=C.aldor_env(), timeout=30)
    rows = [tuple(int(x) for x in l.split()) for l in out.strip().split("\n")]
    fns = ("isdigit", "isalpha", "tolower", "toupper")
    got = model.ask(["lib %s %s" % (fn, zb(r[0])) for r in rows for fn in fns])
    bad = []
    for i, r in enumerate(rows):
        g = tuple(bz(x) for x in got[4 * i:4 * i + 4])
        if g != r[1:]:
            bad.append((r[0], g, r[1:]))
    if bad:
        rep.violation("the model of <ctype.h> (coq/Builtins/CInt.v) differs from this platform's libc on %d "
                      "characters, e.g. (c, model, libc) %s" % (len(bad), bad[:3]), {"ctype_mismatch": bad[:20]}, no_input=True)
    return len(rows) * 4


# ------------------------------------------------------------------ test families

FLO_INTS = [0, 1, -1, 2, -2, 3, 7, -7, 10, 1024, 1 << 20, (1 << 31) + 1, -((1 << 31) + 1)]


def float_jobs(rng, cap):
    """Float builtins on exactly representable values: the expected truth value of a comparison
    is known without modelling rounding.  Directed-rounding builtins return a neighbouring float
    except in modes nearest (1) and don't-care (4)."""
    jobs = []
    for P, conv, lim in (("DFlo", "SIntToDFlo", 1 << 53), ("SFlo", "SIntToSFlo", 1 << 24)):
        def k(v):
            return "%s(%s)" % (conv, operand_expr(S, v))
        ints = [v for v in FLO_INTS if abs(v) < lim]
        pairs = [(a, b) for a in ints for b in ints]
        rng.shuffle(pairs)
        pairs = pairs[:cap]
        for op, f in (("Plus", lambda a, b: a + b), ("Minus", lambda a, b: a - b), ("Times", lambda a, b: a * b)):
            tests = [("%sEQ(%s%s(%s, %s), %s)" % (P, P, op, k(a), k(b), k(f(a, b))), B, 1, [a, b])
                     for a, b in pairs if abs(f(a, b)) < lim]
            jobs.append({"name": P + op, "tests": tests})
        tests = [("%sEQ(%sDivide(%s, %s), %s)" % (P, P, k(a * b), k(b), k(a)), B, 1, [a * b, b])
                 for a, b in pairs if b != 0 and abs(a * b) < lim]
        jobs.append({"name": P + "Divide", "tests": tests})
        tests = [("%sEQ(%sTimesPlus(%s, %s, %s), %s)" % (P, P, k(a), k(b), k(3), k(a * b + 3)), B, 1, [a, b, 3])
                 for a, b in pairs if abs(a * b + 3) < lim]
        jobs.append({"name": P + "TimesPlus", "tests": tests})
        tests = [("%sEQ(%sNegate(%s), %s)" % (P, P, k(a), k(-a)), B, 1, [a]) for a in ints]
        jobs.append({"name": P + "Negate", "tests": tests})
        for op, f in (("EQ", lambda a, b: a == b), ("NE", lambda a, b: a != b), ("LT", lambda a, b: a < b),
                      ("LE", lambda a, b: a <= b)):
            jobs.append({"name": P + op, "tests": [("%s%s(%s, %s)" % (P, op, k(a), k(b)), B, b2z(f(a, b)), [a, b])
                                                  for a, b in pairs]})
        for op, f in (("IsZero", lambda a: a == 0), ("IsNeg", lambda a: a < 0), ("IsPos", lambda a: a > 0)):
            jobs.append({"name": P + op, "tests": [("%s%s(%s)" % (P, op, k(a)), B, b2z(f(a)), [a]) for a in ints]})
        jobs.append({"name": P + "0", "tests": [("%sEQ(%s0(), %s)" % (P, P, k(0)), B, 1, [])]})
        jobs.append({"name": P + "1", "tests": [("%sEQ(%s1(), %s)" % (P, P, k(1)), B, 1, [])]})
        # directed rounding, in a nested position (operand of a comparison)
        modes = [("RoundZero", 0), ("RoundNearest", 1), ("RoundUp", 2), ("RoundDown", 3), ("RoundDontCare", 4)]
        for op, x, y, exact in (("RPlus", 1, 1, 2), ("RMinus", 3, 1, 2), ("RTimes", 2, 3, 6), ("RDivide", 6, 3, 2)):
            tests = []
            for mn, mv in modes:
                tests.append(("%sEQ(%s%s(%s, %s, %s()), %s)" % (P, P, op, k(x), k(y), mn, k(exact)), B,
                              b2z(mv in (1, 4)), [x, y, mv]))
                if mv == 2:
                    tests.append(("%sLT(%s, %s%s(%s, %s, %s()))" % (P, k(exact), P, op, k(x), k(y), mn), B, 1, [x, y, mv]))
                if mv == 3:
                    tests.append(("%sLT(%s%s(%s, %s, %s()), %s)" % (P, P, op, k(x), k(y), mn, k(exact)), B, 1, [x, y, mv]))
            jobs.append({"name": P + op, "tests": tests})
    return jobs


BINT_VALS = [0, 1, -1, 2, 7, -7, 255, (1 << 31) - 1, 1 << 31, (1 << 32) + 1, (1 << 62) - 1, 1 << 62, -(1 << 62),
             (1 << 63) - 1, 1 << 63, -(1 << 63), (1 << 64) - 1, (1 << 64) + 1, -((1 << 64) + 1), (1 << 100) + 12345,
             -((1 << 100) + 12345), 10 ** 30]


def bint_jobs(rng, cap):
    """Big-integer builtins against python integers (the oracle of C11, here across the evaluators)."""
    def kb(v):
        return "KB(%d)" % v if v >= 0 else "KB(-%d)" % (-v)
    pairs = [(a, b) for a in BINT_VALS for b in BINT_VALS]
    rng.shuffle(pairs)
    pairs = pairs[:cap]
    jobs = []
    for op, f in (("Plus", lambda a, b: a + b), ("Minus", lambda a, b: a - b), ("Times", lambda a, b: a * b)):
        jobs.append({"name": "BInt" + op, "tests": [("BIntEQ(BInt%s(%s, %s), %s)" % (op, kb(a), kb(b), kb(f(a, b))), B, 1, [a, b])
                                                   for a, b in pairs]})
    jobs.append({"name": "BIntTimesPlus", "tests": [("BIntEQ(BIntTimesPlus(%s, %s, %s), %s)" % (kb(a), kb(b), kb(-5), kb(a * b - 5)),
                                                    B, 1, [a, b, -5]) for a, b in pairs]})
    for op, f in (("EQ", lambda a, b: a == b), ("NE", lambda a, b: a != b), ("LT", lambda a, b: a < b), ("LE", lambda a, b: a <= b)):
        jobs.append({"name": "BInt" + op, "tests": [("BInt%s(%s, %s)" % (op, kb(a), kb(b)), B, b2z(f(a, b)), [a, b]) for a, b in pairs]})
    for op, f in (("IsZero", lambda a: a == 0), ("IsNeg", lambda a: a < 0), ("IsPos", lambda a: a > 0),
                  ("IsEven", lambda a: a % 2 == 0), ("IsOdd", lambda a: a % 2 == 1),
                  ("IsSingle", lambda a: a.bit_length() < 64 if a >= 0 else (-a).bit_length() < 64)):
        jobs.append({"name": "BInt" + op, "tests": [("BInt%s(%s)" % (op, kb(a)), B, b2z(f(a)), [a]) for a in BINT_VALS]})
    for op, f in (("Negate", lambda a: -a), ("Next", lambda a: a + 1), ("Prev", lambda a: a - 1)):
        jobs.append({"name": "BInt" + op, "tests": [("BIntEQ(BInt%s(%s), %s)" % (op, kb(a), kb(f(a))), B, 1, [a]) for a in BINT_VALS]})
    jobs.append({"name": "BIntLength", "tests": [("BIntLength(%s)" % kb(a), S, abs(a).bit_length(), [a]) for a in BINT_VALS if a != 0]})
    nn = [(a, b) for a, b in pairs if a >= 0 and b > 0]
    jobs.append({"name": "BIntQuo", "tests": [("BIntEQ(BIntQuo(%s, %s), %s)" % (kb(a), kb(b), kb(a // b)), B, 1, [a, b]) for a, b in nn]})
    jobs.append({"name": "BIntRem", "tests": [("BIntEQ(BIntRem(%s, %s), %s)" % (kb(a), kb(b), kb(a % b)), B, 1, [a, b]) for a, b in nn]})
    jobs.append({"name": "BIntMod", "tests": [("BIntEQ(BIntMod(%s, %s), %s)" % (kb(a), kb(b), kb(a % b)), B, 1, [a, b]) for a, b in nn]})
    jobs.append({"name": "BIntGcd", "tests": [("BIntEQ(BIntGcd(%s, %s), %s)" % (kb(a), kb(b), kb(math.gcd(a, b))), B, 1, [a, b])
                                              for a, b in pairs if (a, b) != (0, 0)]})
    sh = [(a, n) for a in BINT_VALS for n in (0, 1, 31, 32, 63, 64, 65)]
    rng.shuffle(sh)
    sh = sh[:cap]
    jobs.append({"name": "BIntShiftUp", "tests": [("BIntEQ(BIntShiftUp(%s, K(%d)), %s)" % (kb(a), n, kb(a << n)), B, 1, [a, n]) for a, n in sh]})
    jobs.append({"name": "BIntShiftDn", "tests": [("BIntEQ(BIntShiftDn(%s, K(%d)), %s)" % (kb(a), n, kb(a >> n)), B, 1, [a, n])
                                                  for a, n in sh if a >= 0]})
    jobs.append({"name": "BIntBit", "tests": [("BIntBit(%s, K(%d))" % (kb(a), n), B, (a >> n) & 1, [a, n]) for a, n in sh if a >= 0]})
    jobs.append({"name": "BIntSIPower", "tests": [("BIntEQ(BIntSIPower(%s, K(%d)), %s)" % (kb(a), n, kb(a ** n)), B, 1, [a, n])
                                                  for a in (0, 1, -1, 2, -7, (1 << 32) + 1) for n in (0, 1, 2, 3, 17)]})
    sv = boundary(S)
    jobs.append({"name": "SIntToBInt", "tests": [("BIntEQ(SIntToBInt(%s), %s)" % (operand_expr(S, a), kb(a)), B, 1, [a]) for a in sv]})
    jobs.append({"name": "BIntToSInt", "tests": [("BIntToSInt(%s)" % kb(a), S, a, [a]) for a in sv]})
    return jobs


def multi_jobs(rng, cap, only=None, extra=None):
    """Multi-result builtins: `(v0, v1) := X(constants)` and every component printed."""
    jobs = []
    for n, (argtys, rtys, fn, dom, specd) in MULTI.items():
        if only is not None and n not in only:
            continue
        tups, _ = tuples_for(n, argtys, dom, rng, cap)
        more = [tuple(x) for x in (extra or {}).get(n, []) if len(x) == len(argtys) and dom(*x)]
        tups = [x for x in more if x not in tups] + tups
        if n == "WordDivideDouble":
            # regression operands of the lost high quotient word (divisor below 2^32, nhi >= d; fixed in ab227b3)
            tups = [(5, 0, 2), (3, 7, 3), (1 << 40, 5, 3), (M64W - 1, M64W - 1, 1), (M64W - 1, 0, (1 << 32) - 1)] + \
                   [t for t in tups if t[2] != 0][:cap]
        for k0 in range(0, len(tups), 20):
            pre, tests = [], []
            for i, t in enumerate(tups[k0:k0 + 20]):
                vs = ["m%dr%d" % (i, k) for k in range(len(rtys))]
                call = "%s(%s)" % (n, ", ".join(operand_expr(ty, v) for ty, v in zip(argtys, t)))
                pre.append("(%s) := %s;" % (", ".join("%s: %s" % (v, ALDOR_TY[rt]) for v, rt in zip(vs, rtys)), call))
                want = fn(*t)
                for k, (v, rt) in enumerate(zip(vs, rtys)):
                    tests.append((v, rt, want[k], list(t), "%s#%d" % (n, k), call))
            jobs.append({"name": n, "tests": tests, "pre": pre, "spec": specd})
    return jobs


# ------------------------------------------------------------------ the check

def route_of_real(r):
    return {"interp": "fint", "fold": "cfold", "c": "genc"}[r]


def compare_real(rep, jobs, model, state):
    """Every printed value against the mathematical definition (python oracle)
    and against the extracted model's prediction for that route."""
    n_eval = n_points = 0
    folded_conf = folded_total = 0
    samples = []
    per_route = {"interp": 0, "fold": 0, "c": 0}
    mq, mmeta = [], []
    for j in jobs:
        name, tests, res, extra = j["name"], j["tests"], j.get("results", {}), j.get("extra", {})
        declined = state["declined"].get(name, True)
        if "bcalls_after" in extra and j.get("direct"):
            # statements are `pr(tag, <name>(constants))`: a BCall <name> node left in the -Q2 unit was not folded
            fs = state["fold_stats"].setdefault(name, {"tests": 0, "bcalls_left_at_Q2": 0, "folder_row_declines": declined})
            fs["tests"] += len(tests)
            fs["bcalls_left_at_Q2"] += extra["bcalls_after"]
            if not declined:
                folded_total += len(tests)
                folded_conf += max(0, len(tests) - extra["bcalls_after"])
        for r, vals in res.items():
            if "error" in vals:
                state["route_errors"].append((name, r, vals["error"]))
            if vals.get("split_after_timeout"):
                state["timeouts"].append((name, r))
            for i, x in enumerate(tests):
                e, rty, want, ops = x[:4]
                if rty == W and want >= M63:
                    want -= M64W            # words are printed through `pretend SInt`
                got = vals.get("t%d" % i)
                n_eval += 1
                per_route[r] = per_route.get(r, 0) + 1
                if got != want:
                    shown = e if len(x) < 6 else "result %s of %s" % (x[4], x[5])
                    state["real_bad"].append((name, shown, ops, r, got, want))
                elif len(samples) < 12 and (i + len(name)) % 23 == 3:
                    samples.append({"expression": e, "route": r, "value": got})
        n_points += len(tests)
        if j.get("spec"):
            for x in tests:
                e, rty, want, ops = x[:4]
                mname = x[4] if len(x) > 4 else name
                for route in ("cfold", "fint", "genc"):
                    mq.append((route, mname, 0, tuple(ops)))
                    mmeta.append((mname, ops, route, want))
    pred = model.sem(mq) if mq else []
    state["model_bad_on_run_points"] = [(m, p) for m, p in zip(mmeta, pred)
                                        if p not in ("declined", "none") and p != m[3]]
    return n_eval, n_points, per_route, folded_conf, folded_total, samples


def report_real_bad(rep, state):
    by = {}
    interp_bad = {(name, e): got for name, e, ops, r, got, want in state["real_bad"] if r == "interp"}
    for name, e, ops, r, got, want in state["real_bad"]:
        if r == "fold" and interp_bad.get((name, e), object()) == got:
            # -Q2 -ginterp: a call the optimiser did not fold (inline budget) is evaluated by the interpreter;
            # the same wrong value on the plain interpreter route is reported there
            continue
        by.setdefault((route_of_real(r), name), []).append((e, ops, r, got, want))
    for (route, name), lst in sorted(by.items()):
        e, ops, r, got, want = lst[0]
        rep.violation(
            "%s evaluated by route %s gives %s, the definition gives %s (%d results differ on this row)" % (
                e, r, got, want, len(lst)),
            {"builtin": name, "operands": ops, "route": r, "flags": ROUTES.get(r) or ["-Q0", "C executable"],
             "got": got, "definition": want, "expression": e,
             "program": "#include \"aldor\" / \"aldorio\"; import from Machine, MachineInteger, Integer; import { ... } from Builtin; "
                        "macro K(n) == ((n@MachineInteger)::SInt); macro KB(n) == ((n@Integer)::BInt); print the expression "
                        "(Bool via `pretend SInt`, Char via CharOrd)",
             "all": [{"expression": a, "route": c, "got": d, "definition": w} for a, b, c, d, w in lst[:25]]},
            key="%s:%s" % (route, name))
    state["real_bad"] = []


def spec_jobs(names, rng, cap):
    jobs = []
    for n in names:
        argtys, rty, fn, dom = (SPEC.get(n) or ORACLE_ONLY[n])
        tups, total = tuples_for(n, argtys, dom, rng, cap)
        extra = [tuple(c) for c in CORPUS.get(n, []) if len(c) == len(argtys) and dom(*c) and tuple(c) not in tups]
        tups = extra + tups
        # at most 40 statements per generated source: beyond that the -Q2 inliner runs out of budget, the
        # operands are no longer constants when the folder runs, and the interpreter evaluates the call instead
        for k in range(0, max(1, len(tups)), 40):
            jobs.append({"name": n, "tests": spec_tests(n, argtys, rty, fn, tups[k:k + 40]), "spec": n in SPEC,
                         "direct": True})
    return jobs


def run(rep, tier):
    thorough = tier == "thorough"
    THOROUGH[0] = thorough
    rng = C.rng("c04")
    tr = generate()
    state = {"real_bad": [], "fold_stats": {}, "declined": {}, "model": None, "route_errors": [], "timeouts": []}
    for r in tr["cfold"]:
        state["declined"][r["name"]] = (r["exp"] == ("declined",)) or not G.is_translated(r)
    counts = {route: (len(tr[route]), sum(1 for r in tr[route] if G.is_translated(r))) for route in ("cfold", "fint", "genc")}
    ties = G.broken_ties(tr)

    def get_model():
        if state["model"] is None:
            state["model"] = Model()
        return state["model"]

    def searcher(log):
        """A proof obligation over the regenerated tables failed: find operands on which a row
        differs from the definition (in the extracted model), then confirm on the real system."""
        failed = sorted(set(re.findall(r'ROW-FAILED "([\w#]+)"', log)))
        rep.add_cov(failed_rows=failed)
        try:
            model = get_model()
        except Exception as e:      # extraction itself broken: nothing to search with
            rep.notes.append("searcher: model driver unavailable: %s" % e)
            return
        n, bad = model_sweep(model, tr, C.rng("c04-sweep"), 20000)
        rep.add_cov(searcher_model_evaluations=n)
        cands = {}
        for b in bad:
            cands.setdefault(b["builtin"], []).append(b)
        for nme, lst in cands.items():
            CORPUS.setdefault(nme, [])
            for b in lst[:40]:
                if b["operands"] not in CORPUS[nme]:
                    CORPUS[nme].append(b["operands"])
        names = sorted(set(cands) | {f for f in failed if f in SPEC or f in ORACLE_ONLY})
        comp = [n for n in names if "#" in n]       # components of multi-result builtins: run the whole builtin
        names = [n for n in names if "#" not in n]
        jobs = spec_jobs(names, C.rng("c04-search"), 300)
        if comp:
            extra = {}
            for n in comp:
                extra.setdefault(n.split("#")[0], []).extend(b["operands"] for b in cands.get(n, [])[:40])
            jobs += multi_jobs(C.rng("c04-search-m"), 120, only={n.split("#")[0] for n in comp}, extra=extra)
        other = [f for f in failed if f not in SPEC and f not in ORACLE_ONLY]
        if other:
            jobs += [j for j in float_jobs(C.rng("c04-search-f"), 60) + bint_jobs(C.rng("c04-search-b"), 60)
                     if j["name"] in other]
        if any(f in MAY_FAULT for f in failed):
            state["fault_probe_done"] = fault_probe(rep, state)
        if not jobs:
            return
        run_real(jobs)
        compare_real(rep, jobs, model, state)
        reported = {nm for nm, *_ in state["real_bad"]}
        report_real_bad(rep, state)
        for nme, lst in cands.items():
            if nme not in reported and nme.split("#")[0] not in reported:
                b = lst[0]
                rep.violation("model of %s row %s differs from the definition on %s but the real system agrees with the "
                              "definition there: the translation/model no longer describes the code" % (
                                  b["route"], nme, b["operands"]), b, no_input=True)

    ok = C.proof_stage(rep, ID, PROOF_TARGETS, PROPS, searcher)
    model = get_model()

    for t in ties:
        rep.violation("translation tie broken: " + t, {"tie": t}, no_input=True)

    n_ct = ctype_probe(model, rep)

    # model sweep over the boundary product (ties the extracted model to the theorems' subject)
    n_sweep, bad = model_sweep(model, tr, C.rng("c04-sweep"), 20000 if thorough else 2500)
    if ok and bad:
        rep.violation("extracted model contradicts the proved theorems on %s" % bad[0], {"bad": bad[:5]}, no_input=True)

    # 3-way run on the real system
    names = [n for n in SPEC if "#" not in n] + list(ORACLE_ONLY)
    cap = 1500 if thorough else 40
    t0 = time.time()
    jobs = spec_jobs(names, rng, cap) + float_jobs(C.rng("c04-f"), 120 if thorough else 25) \
        + bint_jobs(C.rng("c04-b"), 300 if thorough else 30) + multi_jobs(C.rng("c04-m"), 600 if thorough else 60)
    run_real(jobs)
    n_eval, n_points, per_route, fconf, ftot, samples = compare_real(rep, jobs, model, state)
    report_real_bad(rep, state)
    if ok:
        for (name, ops, route, want), p in state.get("model_bad_on_run_points", [])[:5]:
            rep.violation("model of %s row %s predicts %s on %s, the definition is %s" % (route, name, p, ops, want),
                          {"builtin": name, "operands": ops, "route": route}, no_input=True)
    n_fault = state.get("fault_probe_done") or fault_probe(rep, state)
    wall_real = time.time() - t0
    if state["timeouts"]:
        rep.notes.append("the compiler did not terminate within %d s on the generated program(s) for %s (statements were then "
                         "run one per program); not a C04 matter; key hang:-Q2:cfold-peep-pingpong, see corpus/C04/hang_q2.note" % (ROUTE_TIMEOUT, state["timeouts"][:8]))
    if state["route_errors"]:
        rep.notes.append("routes that ended with an error status: %s" % state["route_errors"][:6])

    kb = {k: sorted(v) for k, v in G.known_bad_from(C.known_findings()).items() if v}
    rep.add_cov(
        evaluations=n_eval + n_sweep + n_ct,
        distinct_nontrivial=n_points,
        rule="every row of a specified builtin in each regenerated table is proved against spec for all operands; "
             "every real-system value (3 routes) must equal the python definition; the extracted model must "
             "predict the definition on the same points; folder rows must really fold (no BCall of the builtin left in the -Q2 unit)",
        samples=samples,
        traces_validated_against_impl=n_eval,
        input_distribution={
            "builtins_run": len({j["name"] for j in jobs}), "expressions": n_points, "per_route_values": per_route,
            "cap_per_builtin": cap, "boundary_sizes": {t: len(boundary(t)) for t in (B, Ch, By, H, S)},
            "fold_confirmed_tuples": fconf, "fold_expected_tuples": ftot,
            "model_sweep_evaluations": n_sweep, "ctype_points": n_ct, "dead_code_fault_probe_runs": n_fault},
        rows={r: {"rows": c[0], "translated": c[1]} for r, c in counts.items()},
        classes={"specified": class_lists()[0], "same_operation": class_lists()[1], "excluded": excluded_names(),
                 "counts": {"specified": len(class_lists()[0]), "same_operation": len(class_lists()[1]),
                            "excluded": len(excluded_names()), "all_builtins": len(tr["sig"])},
                 "oracle_only_run": sorted(ORACLE_ONLY)},
        known_bad_rows=kb,
        folds_not_confirmed={k: v for k, v in sorted(state["fold_stats"].items()) if not v["folder_row_declines"]
                             and v["bcalls_left_at_Q2"] > 0},
        declined_rows_left_in_place={k: v["bcalls_left_at_Q2"] for k, v in sorted(state["fold_stats"].items())
                                     if v["folder_row_declines"]},
        real_run_wall_s=round(wall_real, 1),
    )
    rep.assume(
        "meaning of the C expression subset (coq/Builtins/CInt.v): LP64, gcc wrap-around for signed + - * << and unary -, "
        "arithmetic >>, glibc C-locale isdigit/isalpha/tolower/toupper (probed over 0..255 on this run)",
        "tools/builtins_gen.py + tools/cexpr.py (translator) and the hand-mirrored dispatch of gc0Builtin/gc0FCall/gc0Cop/"
        "gc0SIntMod (hash-pinned in tools/builtins_translated.json)",
        "route (c): generated C compiled with -I <current src> and linked with libfoam.a built from the CURRENT sources "
        "(vlib.common.build_runtime; runtime.c, the C generated from runtime.as, is /repo's pre-built file); libaldor.a is /repo's "
        "pre-built one (printing and literal scanning only)",
        "operand fetch/decoding around the switches, the ccode printer and gcc are not modelled; SIntGcd/SIntLength/"
        "SIntHashCombine bodies, floats and big integers have no Coq spec (same-operation theorem + runs)",
        "extraction: ExtrOcamlBasic only; driver builds/prints constructor terms, no arithmetic")


def excluded_names():
    """[(builtin, reason)] of the excluded-by-name class (coq/Builtins/Spec.v `excluded`)."""
    txt = open(os.path.join(C.COQ, "Builtins", "Spec.v")).read()
    m = re.search(r"Definition excluded.*?:=\s*\[(.*?)\n\]\.", txt, re.S)
    return [{"builtin": a, "reason": b} for a, b in re.findall(r'\("(\w+)",\s*"([^"]*)"\)', m.group(1))] if m else []


def class_lists():
    txt = open(os.path.join(C.COQ, "Builtins", "Spec.v")).read()
    m = re.search(r"Definition sameop_names.*?:=\s*\[(.*?)\n\]\.", txt, re.S)
    same = re.findall(r'"(\w+)"', re.sub(r"\(\*.*?\*\)", "", m.group(1), flags=re.S)) if m else []
    spec = sorted({n.split("#")[0] for n in SPEC})
    return spec, same


def _load_corpus():
    d = os.path.join(C.VERIF, "corpus", ID)
    out = {}
    try:
        for f in sorted(os.listdir(d)):
            if f.endswith(".json"):
                for k, v in json.load(open(os.path.join(d, f))).items():
                    out.setdefault(k, []).extend(v)
    except OSError:
        pass
    return out


CORPUS = _load_corpus()
THOROUGH = [False]


def replay(path):
    """Re-run one replay file: the recorded expression through all routes."""
    obj = json.load(open(path))
    rp = obj.get("replay", {})
    e, want, name = rp.get("expression"), rp.get("definition"), rp.get("builtin")
    if not e or name is None:
        print("replay: nothing executable in", path)
        return 1
    sig = {r["name"]: r for r in _translation()["sig"]}
    rty = sig[[w for w in re.findall(r"\b([A-Z]\w*)\s*\(", e) if w in sig][0]]["ret"]
    jobs = run_real([{"name": name, "tests": [(e, rty, want, rp.get("operands"))]}])
    bad = 0
    for r, v in jobs[0]["results"].items():
        got = v.get("t0")
        print("%s  route %-6s -> %s (definition %s)%s" % (e, r, got, want, "" if got == want else "   DIFFERS"))
        bad |= got != want
    return 1 if bad else 0
