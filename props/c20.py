"""C20 - Core containers and the boolean normal form behave as their models.
Assembled from five parts (each: Coq model + theorems, correspondence with the
current C file, independent oracle): hash table, B-tree, priority queue, bit
vectors, disjunctive normal form."""
import importlib, json
from vlib import common as C

LEVEL = "proof"
PARTS = ["table", "btree", "priq", "bitv", "dnf"]
_mods = {p: importlib.import_module("props.c20_" + p) for p in PARTS}
TARGETS = sorted({t for m in _mods.values() for t in getattr(m, "TARGETS", [])} |
                 {"Props/Properties_C20_%s.vo" % p for p in PARTS})

MANIFEST = {
    "level_text": "Coq theorems for every operation history / every formula: the hash table refines a finite map for an "
                  "arbitrary hash function (collisions, constant hash included), the B-tree refines an ordered multimap "
                  "(insert, delete of present and absent keys, searches, invariant) for every minimum degree t >= 2, the "
                  "priority queue returns minima of the current multiset for every interleaving, bit vectors implement set "
                  "algebra for every length, and the DNF operations are characterised for every valuation: exact for the "
                  "single-literal cancel rule, and for the CURRENT multi-literal rule refuted by witness plus the partial "
                  "theorems (weakening; exact when no multi-literal cancel fires). Each model is tied to the current C file "
                  "by running the extracted model and the C code on the same histories (structure compared, not only "
                  "answers) and by an independent naive oracle (dict / sorted multimap / python sets / truth tables).",
    "level_note": "Trusted: Coq kernel; extraction (ExtrOcamlBasic only) and the drivers; the C harnesses under harness/; "
                  "python oracles. Modelled, not verified: table.c, btree.c, priq.c, bitv.c, dnf.c. Not modelled: storage "
                  "allocation inside them, printers, list.c/intset.c/buffer.c wrappers, the callers of DNF (ablogic.c, "
                  "tfcond.c). Known finding: dnfOrMerge's multi-literal negation cancel (the pinned test DNF2 asserts it).",
    "technique": "Coq refinement/invariant proofs over all histories + extracted-model-vs-C correspondence + naive oracles",
}
for _p, _m in _mods.items():
    MANIFEST["level_note"] += " [%s: %s]" % (_p, getattr(_m, "MANIFEST_PART", {}).get("not_modelled", ""))


def run(rep, tier):
    for p in PARTS:
        before = len(rep.violations)
        try:
            _mods[p].run_part(rep, tier)
        except C.BuildError as e:
            rep.violation("C20/%s: build of /repo's current tree failed: %s" % (p, str(e)[:300]),
                          {"part": p, "build_error": str(e)}, no_input=True)
        rep.add_cov(**{"part_%s_violations" % p: len(rep.violations) - before})


def replay(path):
    r = json.load(open(path))
    obj = r.get("replay", {})
    part = obj.get("part")
    if part in _mods and hasattr(_mods[part], "replay_part"):
        return _mods[part].replay_part(obj)
    rep = C.Report("C20", "quick", LEVEL)
    run(rep, "quick")
    return 1 if rep.violations else 0
