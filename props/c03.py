"""C03 -- Interpreter and native executable agree.

Proved part (coq/Routes, coq/Props/Properties_C03.v): how a run ENDS.  The statement lists of
fint.c / emit.c / util.c / foam_c.c / the generated main() that decide exit status and messages for
a normal end, an exception nobody catches and halt(n) for every n are regenerated on every run
(tools/exitclasses_gen.py -> coq/Gen/ExitClasses.v) and proved to give the same status class and
the same messages on both routes (exit_class_same, exit_messages_same, halt_tables_agree); plus
C04's builtin theorem restricted to {interpreter, generated C} (builtins_interp_c_agree).

Decision (differential exploration, NOT a proof): programs x optimisation level {0,1,2,3,5,9} x
  (a) `aldor -ginterp p.as`, (b) `aldor -Fao p.as` then `aldor -ginterp p.ao`,
  (c) executable from the generated C, gcc, linked with libfoam.a built NOW from the current tree;
stdout and success/failure class compared pairwise and with the oracle where there is one.
Programs: MiniAldor generated family (verified oracle), a hand-written family that ENDS in every
way the property names (with a Python oracle), a deterministic sample of the pinned test programs
of lib/aldor/test and lib/axllib/test.
"""
import collections, concurrent.futures, hashlib, itertools, json, os, re, shutil, time
from vlib import common as C
from props import mini
from tools import exitclasses_gen as G

ID = "C03"
LEVEL = "exploration"
MANIFEST = {
    "level_text": "Differential exploration: every sampled program is run at optimisation levels 0,1,2,3,5,9 through "
                  "the interpreter (from source and from a saved .ao) and as a gcc-built executable linked with the "
                  "runtime library compiled from the current sources; stdout and exit status class are compared pairwise "
                  "and with an oracle (the verified MiniAldor evaluator / a Python oracle for the ending family).  "
                  "Machine-checked for ALL inputs are only two sub-claims: (1) the mapping `kind of ending -> exit status "
                  "class and message stream' of both run times, regenerated from the C sources, is the same for a normal "
                  "end, an uncaught exception and halt(n) for every integer n; (2) every specified Machine builtin "
                  "computes the same value in fint.c and in the generated C (C04's theorem, restated).",
    "level_note": "Not modelled: the interpreter loop (fintStmt/fintEval_) versus the C emitter (gccExpr) for control "
                  "flow, environments, closures, records, arrays; gcc; the Aldor libraries (pre-built .al/.a of /repo are "
                  "used; libfoam.a is rebuilt).  Trusted: Coq kernel, extraction, the translator's reading of the C "
                  "statements (validated on every run against the real binaries on the ending family).",
    "technique": "Coq proof over regenerated exit-path tables + correspondence (extracted model vs real binaries) + "
                 "three-route differential runs with model-level shrinking",
    "design_ref": "DESIGN.md section 4 / C03",
}

LEVELS = [0, 1, 2, 3, 5, 9]
GEN = os.path.join(C.COQ, "Gen", "ExitClasses.v")
KEY_TRACE = "interp:halt-backtrace-on-stdout"
_uniq = itertools.count()

_FR = r"in <[^>\n]*> at unit \[[^\]\n]*\]\n"
TRACE_RE = re.compile(r"(?:#0 +(?:0x)?[0-9a-f]+ %s|\(Unknown current prog\)\n)(?:#\d+ +[0-9a-f]+ %s)*(?:\.\.\.\n)?" % (_FR, _FR))


def strip_trace(out):
    """Remove the interpreter's stack-trace blocks (fintWhere: `#0 <addr> in <prog> at unit [u]`, further
    frames, `...`) from its standard output, wherever in a line they start."""
    return TRACE_RE.sub("", out)


# What the compiler driver itself prints on standard output about a run it hosts: its report of a crashed interpretation
# (the executable's counterpart is printed by the shell, not on stdout) and internal warnings of the compilation.
FAULT_RE = re.compile(r"(?:Warning: (?:hard|soft) assertion failed, file [^\n]* line \d+: [^\n]*\n)?"
                      r"Program fault \([^)\n]*\)\.#\d+ \(Error\) Program fault \([^)\n]*\)\.\n")
IWARN_RE = re.compile(r"^Internal Warning: [^\n]*\n", re.M)


def strip_host(out):
    return IWARN_RE.sub("", FAULT_RE.sub("", strip_trace(out)))


# ------------------------------------------------------------------ routes

def lib_flags(lib):
    RB = C.RB
    if lib == "axllib":
        return ["-I%s/lib/axllib/include" % RB, "-Y%s/lib/axllib/src" % RB], "-laxllib"
    return ["-I%s/lib/aldor/include" % RB, "-Y%s/lib/aldor/src" % RB], "-laldor"


def base_args(exe, lib, rt=None):
    inc, _ = lib_flags(lib)
    a = [exe, "-Nfile=%s/aldor/src/aldor.conf" % C.RB]
    if rt:
        a.append("-Y" + rt)
    return a + ["-Y%s/aldor/lib/libfoam/al" % C.RB] + inc + ["-Mno-warnings"]


def cls(rc):
    if rc == 124:
        return "timeout"
    return "ok" if rc == 0 else "fail"


def run_routes(exe, rt, src, lib, q, d, name="p", routes=("interp", "ao", "c"), timeout=60, extra=()):
    """Run one program text at -Q<q> through the routes.  Each route in its own directory (the compiler
    warns on stdout about files of the same unit lying around).  Returns {route: {rc,status,out,err}}."""
    env = C.aldor_env()
    res = {}
    _, l = lib_flags(lib)
    qf = ["-Q%d" % q] + list(extra)

    def put(sub):
        dd = os.path.join(d, sub)
        os.makedirs(dd, exist_ok=True)
        with open(os.path.join(dd, name + ".as"), "w") as f:
            f.write(src)
        return dd
    if "interp" in routes:
        dd = put("a")
        rc, out, err = C.run(base_args(exe, lib) + qf + ["-ginterp", name + ".as"], cwd=dd, env=env, timeout=timeout)
        res["interp"] = {"rc": rc, "status": cls(rc), "out": out, "err": err}
    if "ao" in routes or "c" in routes:
        dd = put("b")
        cmd = base_args(exe, lib, rt) + qf + ["-Fao"]
        if "c" in routes:
            cmd += ["-Ccc=%s/aldor/subcmd/unitools/unicl" % C.RB, "-Y%s/aldor/lib/libfoam" % C.RB, l,
                    "-Cargs=-Wconfig=%s/aldor/src/aldor.conf -I%s" % (C.RB, C.eff_src()), "-fc", "-fx=%s.exe" % name]
        rc, out, err = C.run(cmd + [name + ".as"], cwd=dd, env=env, timeout=2 * timeout)
        built = {"rc": rc, "out": out, "err": err}
        bad_status = "timeout" if rc == 124 else "build-error"
        if "ao" in routes:
            if rc != 124 and os.path.exists(os.path.join(dd, name + ".ao")):
                do = os.path.join(d, "o")
                os.makedirs(do, exist_ok=True)
                shutil.copy(os.path.join(dd, name + ".ao"), do)
                rc2, out2, err2 = C.run(base_args(exe, lib) + [l, "-ginterp", name + ".ao"], cwd=do, env=env, timeout=timeout)
                res["ao"] = {"rc": rc2, "status": cls(rc2), "out": out2, "err": err2}
            else:
                res["ao"] = {"rc": rc, "status": bad_status, "out": out, "err": err}
        if "c" in routes:
            if rc == 0 and os.path.exists(os.path.join(dd, name + ".exe")):
                dc = os.path.join(d, "c")
                os.makedirs(dc, exist_ok=True)
                rc2, out2, err2 = C.run([os.path.join(dd, name + ".exe")], cwd=dc, env=env, timeout=timeout)
                res["c"] = {"rc": rc2, "status": cls(rc2), "out": out2, "err": err2}
            else:
                res["c"] = {"rc": rc, "status": bad_status, "out": out, "err": err}
        res["_build"] = built
    return res


def compare(res, oracle=None):
    """-> (verdict, detail).  verdict: 'agree' | 'trace-only' (only the interpreter's stack trace on stdout
    differs) | 'disagree' | 'incomparable' (no route built it / a time-out)."""
    rs = [r for r in ("interp", "ao", "c") if r in res]
    st = {r: res[r]["status"] for r in rs}
    if any(s == "timeout" for s in st.values()):
        return "incomparable", "timeout " + str(st)
    if all(s == "build-error" for r, s in st.items() if r != "interp") and res.get("interp", {}).get("rc", 1) != 0 \
            and re.search(r"\((?:Fatal )?Error\)", res.get("interp", {}).get("out", "")):
        return "incomparable", "does not compile"
    bad = []
    raw_equal = True
    host_only = False
    for a, b in itertools.combinations(rs, 2):
        if st[a] != st[b]:
            bad.append("%s ends %s (rc=%s), %s ends %s (rc=%s)" % (a, st[a], res[a]["rc"], b, st[b], res[b]["rc"]))
        if res[a]["out"] != res[b]["out"]:
            raw_equal = False
            if strip_trace(res[a]["out"]) != strip_trace(res[b]["out"]):
                sa, sb = strip_host(res[a]["out"]), strip_host(res[b]["out"])
                # r was killed by a signal and the OTHER route's run crashed as well (the driver reported a program fault)
                killed = [(x, y) for x, y, r, o in ((sa, sb, a, b), (sb, sa, b, a))
                          if res[r]["rc"] < 0 and y.startswith(x) and FAULT_RE.search(res[o]["out"])]
                if sa == sb:
                    host_only = True          # only the driver's own crash report / internal warnings differ
                elif st[a] == st[b] == "fail" and killed:
                    host_only = True          # a process killed by a signal loses what stdio still buffered
                else:
                    bad.append("stdout of %s and %s differ" % (a, b))
    if oracle is not None:
        for r in rs:
            o = strip_host(res[r]["out"])
            if "out" in oracle and o != oracle["out"]:
                bad.append("%s prints other text than the oracle" % r)
            if "prefix" in oracle and not o.startswith(oracle["prefix"]):
                bad.append("%s: stdout does not start with the oracle's text" % r)
            if oracle.get("status") and st[r] != oracle["status"]:
                bad.append("%s ends %s, oracle says %s" % (r, st[r], oracle["status"]))
    if bad:
        return "disagree", "; ".join(bad[:4])
    if host_only:
        return "host-report-only", ""
    return ("agree" if raw_equal else "trace-only"), ""


_NOASSERT = None


def pick_oracle(p, q):
    global _NOASSERT
    if _NOASSERT is None:
        _NOASSERT = assert_deleted_levels()
    if q in _NOASSERT and "oracle_noassert" in p:
        return p["oracle_noassert"]
    return p.get("oracle")


def brief(res):
    return [{"route": r, "status": v["status"], "rc": v["rc"], "out": v["out"][-1500:], "err": v["err"][-600:]}
            for r, v in res.items() if not r.startswith("_")]


# ------------------------------------------------------------------ the family of endings (Python oracle)

EHEAD = """#include "aldor"
#include "aldorio"
import from MachineInteger;
define AType: Category == with { };
define BType: Category == with { };
AExn: AType == add { };
BExn: BType == add { };
"""
HALT_IMPORT = "import from Machine;\nimport { Halt: SInt -> () } from Builtin;\n"
UNION_DEF = "U ==> Union(ua: MachineInteger, ub: String);\nimport from U;\n"

KINDS = ["normal", "error", "assert", "never", "throw", "halt", "union", "caught", "wrong-handler", "rethrow",
         "finally", "assert-caught", "error-caught"]
CONTEXTS = ["top", "function", "loop", "nested"]
HALT_CODES = [0, 1, 7, 100, 101, 102, 103, 104, 105, 106, 107, 255, 256, 1000, 65536, -2]


def ending_program(rng, kind=None, ctx=None, code=None, both=True):
    """One program that prints a few computed lines and then ends in the given way.
    -> dict(src, kind, ctx, oracle{prefix|out, status}, halt)"""
    kind = kind or rng.choice(KINDS)
    ctx = ctx or rng.choice(CONTEXTS)
    a, b, k = rng.randrange(-9, 10), rng.randrange(1, 20), rng.randrange(1, 4)
    j = rng.randrange(1, k + 1)              # the loop iteration at which it happens
    t = rng.randrange(2, 30)
    msg = "boom-%d" % rng.randrange(1000)
    halt = code if code is not None else rng.choice(HALT_CODES)
    L = [EHEAD]
    if kind == "halt":
        L.append(HALT_IMPORT)
    if kind == "union":
        L.append(UNION_DEF)
    L.append("a: MachineInteger := (%d@MachineInteger);\nb: MachineInteger := (%d@MachineInteger);\n" % (a, b))
    L.append('w(x: MachineInteger): MachineInteger == { stdout << "w " << x << newline; x + 1 }\n')
    L.append('pr(s: String, x: MachineInteger): () == { stdout << s << x << newline }\n')
    out = []

    # the statement that ends the run (or not), as the body of e(x), executed when x = t
    end_out, status, exact = [], "fail", True
    if kind == "normal":
        body, status = "x", "ok"
    elif kind == "error":
        body = 'x = %d => error "%s"; x' % (t, msg)
    elif kind == "assert":
        body = "assert(x ~= %d); x" % t
        end_out, exact = ["@ASSERT x ~= %d" % t], True
    elif kind == "never":
        body = "x = %d => never; x" % t
    elif kind == "throw":
        body = "x = %d => throw AExn; x" % t
    elif kind == "halt":
        body = "if x = %d then Halt((%s)::SInt); x" % (t, "%d@MachineInteger" % halt if halt >= 0 else "-(%d@MachineInteger)" % -halt)
    elif kind == "union":
        body = 'u: U := [x]; if x = %d then { s: String := u.ub; stdout << s << newline }; u.ua' % t
    elif kind == "caught":
        body = 'try { x = %d => throw AExn; x } catch E in { E has AType => { stdout << "caught" << newline; x + 100 }; never }' % t
        end_out, status = ["caught"], "ok"
    elif kind == "wrong-handler":
        body = 'try { x = %d => throw AExn; x } catch E in { E has BType => { stdout << "caughtB" << newline; x + 100 }; never }' % t
    elif kind == "rethrow":
        body = 'try { x = %d => throw AExn; x } catch E in { E has AType => { stdout << "again" << newline; throw BExn }; never }' % t
        end_out = ["again"]
    elif kind == "finally":
        body = ('try { x = %d => throw AExn; x } catch E in { E has BType => x + 100; true => throw E; never } '
                'finally stdout << "fin " << x << newline' % t)
        end_out = ["fin %d" % t]
    elif kind == "assert-caught":
        body = 'try { assert(x ~= %d); x } catch E in { true => { stdout << "caught-all" << newline; x + 100 }; never }' % t
        end_out, status = ["@ASSERT x ~= %d" % t, "caught-all"], "ok"
    elif kind == "error-caught":
        body = 'try { x = %d => error "%s"; x } catch E in { true => { stdout << "caught-all" << newline; x + 100 }; never }' % (t, msg)
        end_out, status = ["caught-all"], "ok"
    else:
        raise ValueError(kind)
    L.append("e(x: MachineInteger): MachineInteger == { %s }\n" % body)
    if ctx == "nested":
        L.append("e2(x: MachineInteger): MachineInteger == { y: MachineInteger := e(x) + 1; y - 1 }\n")
    call = "e2" if ctx == "nested" else "e"
    L.append('stdout << "start " << (a + b) << newline;\n')
    if ctx == "loop":
        L.append("for i: MachineInteger in 1..%d repeat {\n    pr(\"i \", w(i * a));\n"
                 "    pr(\"e \", %s(if i = %d then %d else i + %d));\n}\n" % (k, call, j, t, t))
    else:
        L.append("for i: MachineInteger in 1..%d repeat pr(\"i \", w(i * a));\n" % k)
        if ctx == "top":
            L.append('pr("f ", %s(%d));\n' % (call, t + 1))
        L.append('pr("e ", %s(%d));\n' % (call, t))
    L.append('stdout << "done" << newline;\n')
    src = "".join(L)
    aline = next((n + 1 for n, ln in enumerate(src.split("\n")) if ln.startswith("e(x: MachineInteger)")), 0)

    def simulate(kind, end_out, status):
        """expected stdout and status class"""
        out = []
        continues = status == "ok"
        ret_hit = {"normal": t, "caught": t + 100, "assert-caught": t + 100, "error-caught": t + 100}.get(kind, None)

        def do_call(v, pre):
            if kind == "finally":
                if v != t:
                    out.append("fin %d" % v)
            if v == t and kind != "normal":
                out.extend(end_out)
                if not continues:
                    return False
                out.append("%s%d" % (pre, ret_hit))
                return True
            out.append("%s%d" % (pre, v))
            return True
        out.append("start %d" % (a + b))
        alive = True
        if ctx == "loop":
            for i in range(1, k + 1):
                out.append("w %d" % (i * a))
                out.append("i %d" % (i * a + 1))
                if not do_call(t if i == j else i + t, "e "):
                    alive = False
                    break
        else:
            for i in range(1, k + 1):
                out.append("w %d" % (i * a))
                out.append("i %d" % (i * a + 1))
            if ctx == "top":
                alive = do_call(t + 1, "f ")
            if alive:
                alive = do_call(t, "e ")
        if alive:
            out.append("done")
        # the assertion message names unit, line and the asserted expression
        out = [("Assertion failed at p:%d: %s" % (aline, o[8:]) if o.startswith("@ASSERT ") else o) for o in out]
        return {"status": "ok" if alive else "fail", "out": "".join(o + "\n" for o in out)}
    oracle = simulate(kind, end_out, status)
    # with -Qdel-assert (optfoam.c:optControl, on from -Q2) an assert statement is deleted
    oracle_na = simulate("normal", [], "ok") if kind in ("assert", "assert-caught") else oracle
    return {"src": src, "kind": kind, "ctx": ctx, "halt": halt if kind == "halt" else None, "oracle": oracle,
            "oracle_noassert": oracle_na, "features": ["ending:" + kind, "ctx:" + ctx]}


MINUS_ONE = {"src": EHEAD + HALT_IMPORT + 'stdout << "before" << newline;\nHalt((-(1@MachineInteger))::SInt);\n'
                                          'stdout << "after" << newline;\n',
             "kind": "halt", "ctx": "top", "halt": -1, "features": ["ending:halt", "ctx:top"],
             "oracle": {"status": "fail", "out": "before\n"}, "oracle_noassert": {"status": "fail", "out": "before\n"}}


def assert_deleted_levels():
    """levels at which `assert` statements are deleted: row "del-assert" of optfoam.c:optControl
    (columns -Q0..-Q4; higher levels use the last column)"""
    txt = open(os.path.join(C.SRC, "optfoam.c"), errors="replace").read()
    m = re.search(r'\{\s*"del-assert"\s*,\s*OPT_FLAG\s*,\s*&\w+\s*,\s*\{([^}]*)\}', txt)
    if not m:
        return set()
    col = [int(x) for x in re.findall(r"-?\d+", m.group(1))]
    return {q for q in LEVELS if col and col[min(q, len(col) - 1)]}


# ------------------------------------------------------------------ pinned corpus

def corpus_programs():
    """Programs the repository's own `make check` builds as executables: lib/<lib>/test/<n>/<n>.as for the
    entries of Tests.am (check_PROGRAMS)."""
    out = []
    for lib in ("aldor", "axllib"):
        tdir = "%s/lib/%s/test" % (C.R, lib)
        try:
            names = re.findall(r"check_PROGRAMS \+= (\S+)/\S+", open(tdir + "/Tests.am").read())
        except OSError:
            continue
        for n in names:
            p = "%s/%s/%s.as" % (tdir, n, n)
            if os.path.exists(p):
                out.append((lib, n, p))
    return out


def corpus_items():
    """corpus/C03/*.as: minimised past disagreements, run first.  Header lines `--# key: ..`, `--# levels: ..`,
    `--# expect-out: <json string>`, `--# expect-status: ok|fail`."""
    d = os.path.join(C.VERIF, "corpus", ID)
    items = []
    for f in sorted(os.listdir(d)) if os.path.isdir(d) else []:
        if not f.endswith(".as"):
            continue
        txt = open(os.path.join(d, f)).read()
        meta = dict(re.findall(r"^--# (\S+): (.*)$", txt, re.M))
        it = {"name": f[:-3], "src": txt, "key": meta.get("key"), "kind": "corpus", "ctx": "", "halt": None,
              "levels": [int(x) for x in meta.get("levels", "0,1,2,3,5,9").split(",")], "features": ["corpus"]}
        if "expect-out" in meta:
            it["oracle"] = {"out": json.loads(meta["expect-out"]), "status": meta.get("expect-status", "ok")}
        items.append(it)
    return items


# ------------------------------------------------------------------ generate + proof

def generate(exe=None):
    """(Re)write coq/Gen/ExitClasses.v from the current sources (also called by tools/setup.py)."""
    exe = exe or C.build_compiler()
    d = C.scratch("c03gen")
    with open(d + "/m.as", "w") as f:
        f.write('#include "aldor"\n#include "aldorio"\nstdout << "x" << newline;\n')
    rc, out, err = C.run(C.aldor_base_args(exe) + ["-Fc", "-Fmain", "m.as"], cwd=d, env=C.aldor_env(), timeout=120)
    mc = d + "/m-aldormain.c"
    if rc != 0 or not os.path.exists(mc):
        raise C.BuildError("aldor -Fc -Fmain failed on a one-line program:\n" + (out + err)[-1500:])
    bad, trace = G.known_from(C.known_findings())
    text = G.generate_text(C.SRC, open(mc).read(), bad, trace)
    C.write_if_changed(GEN, text)
    return bad, trace


def model_driver():
    ex = C.COQ + "/Routes/extracted"
    return C.build_ocaml("routes", [ex + "/routes.mli", ex + "/routes.ml"], C.COQ + "/Routes/driver.ml")


def model_query(drv, lines):
    rc, out, err = C.run([drv], input="\n".join(lines) + "\n", timeout=120)
    if rc != 0:
        raise RuntimeError("routes driver failed: " + err[-500:])
    return [json.loads(x) for x in out.splitlines() if x.strip()]


# ------------------------------------------------------------------ run

def run(rep, tier):
    t0 = time.time()
    exe = C.build_compiler()
    rt = C.build_runtime()
    gen_error = None
    try:
        known_bad, trace_known = generate(exe)
        from props import c04                  # the builtin tables the restated C04 theorem is about: regenerated too
        c04.generate()
    except C.BuildError:
        raise
    except Exception as e:                     # the sources no longer have the shape the translator reads (GenError, ...)
        gen_error = "%s: %s" % (type(e).__name__, str(e)[:300])
        known_bad, trace_known = G.known_from(C.known_findings())
        rep.notes.append("translator failed (%s): no proof stage on this tree; the decision runs still look for a failing program" % gen_error)
    base = C.scratch("c03")
    rng = C.rng("c03")
    quick = tier == "quick"
    stats = collections.Counter()
    feat = collections.Counter()
    viol = {"n": 0, "concrete": 0}
    trace_seen = []
    proof_log = {}

    def builtin_search(names):
        """Rows of the builtin tables (C04's, restated here) no longer prove: run exactly those builtins through the three
        routes on their boundary operands - negative operands, shift counts 0/1/63, min/max - first with constant operands at
        -Q0 (nothing is folded), then with the first operand taken from a list at run time at -Q1 and -Q2 (not foldable), and
        report the first operand tuple on which interpreter and executable differ, as a one-line program."""
        from props import c04
        sig = {r["name"]: r for r in c04._translation()["sig"]}
        srng = C.rng("c03-builtin-searcher")
        simple = (c04.B, c04.S, c04.Ch, c04.By, c04.H)

        def tvals(out):
            return {m.group(1): int(m.group(2)) for m in re.finditer(r"^(t\d+) (-?\d+)$", out, re.M)}
        # coqc stops at the FIRST row that fails: the rows named in the log are searched densely, every other specified
        # builtin on a lighter sample of its boundary product (the edit may have touched neighbouring rows too)
        order = [n for n in names if n in c04.SPEC] + [n for n in sorted(c04.SPEC) if n not in names]

        def one_name(name):
            argtys, rty, fn, dom = c04.SPEC[name]
            if any(a not in simple for a in argtys) or rty not in simple:
                return
            cap = (150 if quick else 600) if name in names else (60 if quick else 200)
            tups, _ = c04.tuples_for(name, argtys, dom, C.rng("c03-builtin-searcher-" + name), cap)
            tests = c04.spec_tests(name, argtys, rty, fn, tups)
            found = False
            for lo in range(0, len(tests), 150):
                ch = tests[lo:lo + 150]
                src = c04.program([(e, r) for e, r, w, o in ch], sig)
                d = "%s/bs-%s-%d" % (base, name, lo)
                res = run_routes(exe, rt, src, "aldor", 0, d, timeout=120)
                shutil.rmtree(d, ignore_errors=True)
                vi, va, vc = (tvals(res.get(r, {}).get("out", "")) for r in ("interp", "ao", "c"))
                for i, (e, r, want, ops) in enumerate(ch):
                    k = "t%d" % i
                    got = {"interp": vi.get(k), "ao": va.get(k), "c": vc.get(k)}
                    stats["builtin_search_evaluations"] += 1
                    if len(set(got.values())) > 1 or got["interp"] != want:
                        one = c04.program([(e, r)], sig)
                        d1 = "%s/bs1-%s" % (base, name)
                        r1 = run_routes(exe, rt, one, "aldor", 0, d1, timeout=120)
                        shutil.rmtree(d1, ignore_errors=True)
                        report("builtin %s on %s at -Q0: interpreter prints %s (from .ao: %s), the executable %s, the definition %s"
                               % (name, ops, got["interp"], got["ao"], got["c"], want),
                               {"how_to_replay": "./check C03 --replay <this file>", "src": one, "level": 0, "lib": "aldor",
                                "builtin": name, "operands": ops, "oracle": {"out": "t0 %d\n" % want, "status": "ok"},
                                "observed": brief(r1)}, group="builtin:" + name)
                        found = True
                        break
                if found:
                    break
            # first operand from a list at run time: the folder cannot touch it
            if not found and argtys and argtys[0] == c04.S and all(a == c04.S for a in argtys):
                firsts = [v for v in sorted({t[0] for t in tups}) if v != -c04.M63][:40]
                tails = sorted({t[1:] for t in tups})[:8]
                if name in ("SIntPlusMod", "SIntMinusMod", "SIntTimesMod"):
                    # the intermediate sum / difference / product must fit the word: beyond it the C is undefined, and gcc -O2
                    # (used from -Q2) is seen to simplify (x + n) % n with constant n - reported to the lead as an observation
                    f2 = {"SIntPlusMod": lambda a, b: a + b, "SIntMinusMod": lambda a, b: a - b, "SIntTimesMod": lambda a, b: a * b}[name]
                    tails = [tl for tl in tails if all(-c04.M63 <= f2(a, tl[0]) < c04.M63 for a in firsts)]
                lines, want = [], []
                for k, tail in enumerate(tails):
                    call = "%s(%s)" % (name, ", ".join(["(x::SInt)"] + [c04.operand_expr(c04.S, v) for v in tail]))
                    lines.append("for x in la repeat %s" % c04.result_stmt("u%d" % k, rty, call))
                    want += [("u%d" % k, fn(a, *tail)) for a in firsts if dom(a, *tail)]
                    if not all(dom(a, *tail) for a in firsts):
                        lines.pop()
                        want = [w for w in want if w[0] != "u%d" % k]
                body = "import from List MachineInteger;\nla: List MachineInteger := [%s];\n" % ", ".join(
                    "%d" % v if v >= 0 else "-%d" % -v for v in firsts) + "\n".join(lines) + "\n"
                names_used = c04.used_builtins([body], sig)
                src = c04.HEADER % "\n".join(c04.aldor_sig(n, sig) for n in names_used) + body
                exp = "".join("%s %d\n" % w for w in want)
                for q in (1, 2):
                    d = "%s/bsl-%s-%d" % (base, name, q)
                    res = run_routes(exe, rt, src, "aldor", q, d, timeout=120)
                    shutil.rmtree(d, ignore_errors=True)
                    v, det = compare(res, {"out": exp, "status": "ok"})
                    stats["builtin_search_evaluations"] += len(want)
                    if v == "disagree":
                        report("builtin %s with a run-time first operand at -Q%d: %s" % (name, q, det),
                               {"how_to_replay": "./check C03 --replay <this file>", "src": src, "level": q, "lib": "aldor",
                                "builtin": name, "oracle": {"out": exp, "status": "ok"}, "observed": brief(res)},
                               group="builtin:" + name)
                        break
        with concurrent.futures.ThreadPoolExecutor(max(2, C.NCPU // 2)) as ex:
            list(ex.map(one_name, order))

    def searcher(log):
        """An obligation about the exit-path tables no longer closes: run programs that END in every modelled way - the
        halt codes named by failed rows first - through the three routes at every level and report one on which stdout
        or the status class differ (the property's own statement)."""
        proof_log["log"] = log
        bnames = sorted(set(re.findall(r'ROW-FAILED"?\s*"(\w+)"', log)))
        stats["builtin_rows_failed_in_proof"] = len(bnames)
        if bnames:
            builtin_search(bnames)
        codes = sorted({int(x) for x in re.findall(r'ROW-FAILED halt code"?\s*\(?(-?\d+)', log)})
        stats["rows_failed_in_proof"] = len(codes)
        if bnames and not codes and "Routes/" not in log:
            return                                  # only builtin rows broke: the exit-path tables are intact
        sweep = [("normal", None), ("throw", None), ("assert", None), ("never", None), ("union", None), ("error", None)]
        sweep += [("halt", c) for c in (codes + [c for c in HALT_CODES if c not in codes])]
        jobs = []
        for k, c in sweep:
            p = ending_program(C.rng("c03-searcher-%s-%s" % (k, c)), k, "top", c)
            for q in ([1] if quick else LEVELS):
                jobs.append(("search-%s-%s" % (k, c), p, "aldor", q))
        for jb, res, v, det in job_runner(jobs):
            if v == "disagree":
                p = jb[1]
                report("ending program (%s%s) at -Q%d: %s" % (p["kind"], ", code %s" % p["halt"] if p["halt"] is not None else "", jb[3], det),
                       {"how_to_replay": "./check C03 --replay <this file>", "src": p["src"], "level": jb[3], "lib": "aldor",
                        "oracle": pick_oracle(p, jb[3]), "observed": brief(res)}, key=_end_key(p),
                       group="search:%s:%s" % (p["kind"], p["halt"]))

    seen_groups = collections.Counter()

    def report(what, obj, key=None, group=None):
        """one replay per group of like disagreements (same kind of program, same pattern of route results);
        the others are counted (input_distribution.disagreements_per_group)"""
        viol["n"] += 1
        g = group or what
        seen_groups[g] += 1
        if seen_groups[g] == 1 and (len(seen_groups) <= 12 or key is not None):
            if rep.violation(what, obj, key=key):
                viol["concrete"] += 1          # an unlisted violation with a concrete replay

    def job_runner(jobs):
        """jobs: [(tag, prog dict(src, oracle?), lib, q)] -> [(job, res, verdict, detail)] in parallel"""
        def one(jb):
            tag, p, lib, q = jb
            d = "%s/%s-q%d-%d" % (base, re.sub(r"\W", "_", tag)[:40], q, next(_uniq))
            try:
                res = run_routes(exe, rt, p["src"], lib, q, d, name=p.get("name", "p"),
                                 timeout=p.get("timeout", 30 if quick else 60))
                v, det = compare(res, pick_oracle(p, q))
                return jb, res, v, det
            finally:
                shutil.rmtree(d, ignore_errors=True)
        with concurrent.futures.ThreadPoolExecutor(C.NCPU) as ex:
            return list(ex.map(one, jobs))

    def defer_alarm(what, obj):
        """emit `what ... no-failing-input-found' at the end of the run unless the decision runs reported a concrete, unlisted
        violation meanwhile (listed findings do not count: they are seen on every run)"""
        def fin():
            if viol["concrete"] == 0:
                rep.violation(what, obj, no_input=True)
        rep.proof_finalize = fin
    if gen_error:
        proved = False
        rep.add_obligations(len(re.findall(r"^\s*Theorem\s", open(os.path.join(C.COQ, "Props/Properties_C03.v")).read(), re.M)), 0)
        defer_alarm("the exit-path translator cannot read the current sources (%s): the theorems of C03 are not checked on this tree"
                    % gen_error, {"translator": "tools/exitclasses_gen.py", "error": gen_error})
    else:
        proved = C.proof_stage(rep, ID, ["Props/Properties_C03.vo", "Routes/Extract.vo"], "Props/Properties_C03.v",
                               searcher, defer=True)
        if not proved and "log" in proof_log:
            log = proof_log["log"]
            failing = re.findall(r'File "([^"]+)", line (\d+)', log)
            defer_alarm("proof obligation no longer checks: %s" % (failing[:3],),
                        {"failing": failing[:10], "log_tail": log[-3000:], "props": "Props/Properties_C03.v"})
        elif not proved:
            rep.proof_finalize = None          # the gate itself reported
    t_proof = time.time() - t0

    # ---- 1. correspondence of the ending model with the real binaries -------------------------------
    drv = None
    try:
        drv = None if gen_error else model_driver()
    except (C.BuildError, OSError) as e:
        rep.notes.append("ending model not available (extraction did not build): %s" % str(e)[:200])
    n_model = 0
    codes = sorted(set(HALT_CODES + [-1]))
    if drv:
        endings = [("normal", None), ("throw", None)] + [("halt", c) for c in codes]
        qs = []
        for k, c in endings:
            e = {"normal": "normal", "throw": "uncaught"}.get(k) or "halt %d" % c
            qs += ["fint 1 1 " + e, "crt 1 1 " + e]
        ans = model_query(drv, qs)
        jobs = []
        for i, (k, c) in enumerate(endings):
            p = MINUS_ONE if (k, c) == ("halt", -1) else ending_program(C.rng("c03-model-%s-%s" % (k, c)), k, "top", c)
            jobs.append(("model-%s-%s" % (k, c), dict(p, model=(ans[2 * i], ans[2 * i + 1])), "aldor", 1))
        for jb, res, v, det in job_runner(jobs):
            p = jb[1]
            mi, mc = p["model"]
            for route, m in (("interp", mi), ("ao", mi), ("c", mc)):
                r = res.get(route)
                if r is None or r["status"] in ("build-error", "timeout"):
                    continue
                n_model += 1
                want_status = m.get("status") if m["result"] == "exit" else None
                ok = True
                why = ""
                if m["result"] == "exit" and r["rc"] != want_status:
                    ok, why = False, "exit status %s, model says %s" % (r["rc"], want_status)
                if m["result"] == "resume" and r["rc"] != 0:
                    ok, why = False, "model says the run goes on after the halt; rc=%s" % r["rc"]
                for ev in m["events"]:
                    if ev["ev"] == "unhandled":
                        txt = "Unhandled Exception: " + ("RuntimeError()" if ev["exn"] == "runtime" else "AExn")
                        if txt not in r["err"] or (ev.get("msg") and ev["msg"] not in r["err"]):
                            ok, why = False, "stderr lacks %r %r" % (txt, ev.get("msg"))
                    if ev["ev"] == "trace" and ev["stream"] == "stdout" and strip_trace(r["out"]) == r["out"]:
                        ok, why = False, "model says a stack trace goes to stdout; none seen"
                if not any(ev["ev"] == "trace" and ev["stream"] == "stdout" for ev in m["events"]) \
                        and strip_trace(r["out"]) != r["out"]:
                    ok, why = False, "stack trace on stdout the model does not predict"
                if not ok:
                    stats["model_mismatch"] += 1
                    # the model no longer describes the binaries: is the PROPERTY violated on this program?
                    if v == "disagree":
                        report("ending %s: routes disagree (%s)" % (jb[0], det),
                               {"src": p["src"], "level": 1, "observed": brief(res), "model": p["model"]},
                               key=_end_key(p))
                    else:
                        rep.violation("correspondence Routes/Model no longer checks on %s (%s): %s" % (jb[0], route, why),
                                      {"src": p["src"], "route": route, "observed": brief(res), "model": m}, no_input=True)
                        viol["n"] += 1
                    break
    stats["model_predictions_checked"] = n_model

    # ---- 2. the programs ----------------------------------------------------------------------------
    n_mini = 18 if quick else 150
    n_end = 20 if quick else 90
    n_corp = 10 if quick else None
    sizes = [6, 10, 14, 20] if quick else [6, 10, 14, 20, 30, 45]
    mini.build(rebuild_coq=False)
    mjobs = [(rng.randrange(1, 2 ** 40), rng.choice(sizes)) for _ in range(n_mini)]
    progs = mini.batch(["gen %d %d" % (s, z) for s, z in mjobs])
    for p in progs:
        p["oracle"] = {"out": p["expect_out"], "status": p["expect_status"]}
        feat.update(p["features"])
    ends = [ending_program(rng, KINDS[i % len(KINDS)], CONTEXTS[i % len(CONTEXTS)]) for i in range(n_end)]
    for p in ends:
        feat.update(p["features"])
    from props import c12                      # integer/list/record/closure programs with a Python oracle (values inside 32 bits)
    n_hand = 8 if quick else 80
    hands = []
    for i in range(n_hand):
        hp = c12.family_program(rng, rng.randrange(4, 16 if quick else 30))
        hp.update(kind="hand", ctx="", halt=None, levels=[q for q in LEVELS if not ("record-alias" in hp["features"] and q >= 3)])
        hands.append(hp)
        feat.update(hp["features"])
    corp = corpus_programs()
    n_corpus_total = len(corp)
    if n_corp is not None:
        # deterministic sample: order by a hash of (seed, name)
        corp = sorted(corp, key=lambda x: hashlib.sha1(("%d/%s/%s" % (C.seed(), x[0], x[1])).encode()).hexdigest())[:n_corp]

    jobs = []
    kept = corpus_items()
    for it in kept:
        for q in it["levels"]:
            jobs.append(("kept-%s" % it["name"], it, "aldor", q))
    for p in progs:
        for q in LEVELS:
            jobs.append(("mini-%d" % p["seed"], p, "aldor", q))
    for i, p in enumerate(ends):
        for q in LEVELS:
            jobs.append(("end-%d-%s" % (i, p["kind"]), p, "aldor", q))
    for i, p in enumerate(hands):
        for q in p["levels"]:
            jobs.append(("hand-%d" % i, p, "aldor", q))
    for lib, n, path in corp:
        src = open(path, errors="replace").read()
        for q in LEVELS:
            jobs.append(("corpus-%s-%s" % (lib, n), {"src": src, "name": n, "corpus": "%s/%s" % (lib, n),
                                                     "timeout": 20 if quick else 90}, lib, q))
    t1 = time.time()
    results = job_runner(jobs)
    t_run = time.time() - t1

    bad_mini, verdicts = {}, collections.Counter()
    incomparable = []
    per_family = collections.defaultdict(collections.Counter)
    for jb, res, v, det in results:
        tag, p, lib, q = jb
        fam = tag.split("-")[0]
        verdicts[v] += 1
        per_family[fam][v] += 1
        if v == "trace-only":
            trace_seen.append((jb, res))
        if v == "incomparable":
            incomparable.append("%s -Q%d: %s" % (tag, q, det[:80]))
        if v != "disagree":
            continue
        if fam == "kept":
            report("kept program %s at -Q%d: %s" % (p["name"], q, det),
                   {"how_to_replay": "./check C03 --replay <this file>", "src": p["src"], "level": q, "lib": "aldor",
                    "oracle": p.get("oracle"), "observed": brief(res)}, key=p.get("key"), group="kept:" + p["name"])
        elif fam == "mini":
            bad_mini.setdefault(p["seed"], (p, q, res, det))
        elif fam == "hand":
            report("hand-family program at -Q%d: %s" % (q, det),
                   {"how_to_replay": "./check C03 --replay <this file>", "src": p["src"], "level": q, "lib": "aldor",
                    "oracle": p["oracle"], "features": p["features"], "observed": brief(res)},
                   key=signature_key(res, q), group="hand:" + det[:50])
        elif fam == "end":
            report("ending program (%s in %s%s) at -Q%d: %s" % (p["kind"], p["ctx"],
                   ", code %s" % p["halt"] if p["halt"] is not None else "", q, det),
                   {"how_to_replay": "./check C03 --replay <this file>", "src": p["src"], "level": q, "lib": "aldor",
                    "oracle": pick_oracle(p, q), "observed": brief(res)}, key=_end_key(p),
                   group="end:%s:%s:%s" % (p["kind"], p["halt"], _route_sig(res)))
        else:
            report("corpus program %s at -Q%d: %s" % (p["corpus"], q, det),
                   {"how_to_replay": "./check C03 --replay <this file>", "corpus": p["corpus"], "lib": lib, "level": q,
                    "observed": brief(res)},
                   key=signature_key(res) or "corpus:%s:%s" % (p["corpus"], _route_sig(res)),
                   group="corpus:%s:%s" % (p["corpus"], _route_sig(res)))

    # the interpreter's stack trace on stdout: one keyed report, with the smallest witness
    if trace_seen:
        jb, res = min(trace_seen, key=lambda x: len(x[0][1]["src"]))
        if rep.violation("a run that reaches a halt prints the interpreter's stack trace (fintWhere) on STANDARD OUTPUT; the "
                      "executable prints nothing there: stdout of the two routes differs (%d runs in this sample)" % len(trace_seen),
                      {"how_to_replay": "./check C03 --replay <this file>", "src": jb[1]["src"], "level": jb[3], "lib": jb[2],
                       "name": jb[1].get("name", "p"), "observed": brief(res)}, key=KEY_TRACE):
            viol["concrete"] += 1

    # shrink generated programs that disagree
    for seed in [s for s, (p, q, res, det) in bad_mini.items()
                 if signature_key(res, q) and rep.finding_key_known(signature_key(res, q))]:
        p, q, res, det = bad_mini.pop(seed)            # a listed finding met again: reported (once) without shrinking
        report("generated program (seed %d size %d) at -Q%d: %s" % (p["seed"], p["size"], q, det),
               {"seed": p["seed"], "size": p["size"], "level": q, "lib": "aldor", "src": p["src"], "observed": brief(res)},
               key=signature_key(res, q))
    for seed, (p, q, res, det) in list(bad_mini.items())[:2]:
        def still_fails(cand, q=q):
            d = "%s/shr-%d" % (base, next(_uniq))
            try:
                r = run_routes(exe, rt, cand["src"], "aldor", q, d)
                return compare(r, {"out": cand["expect_out"], "status": cand["expect_status"]})[0] == "disagree"
            finally:
                shutil.rmtree(d, ignore_errors=True)
        path, small = mini.shrink(p["seed"], p["size"], still_fails, budget_s=(60 if quick else 240))
        d = "%s/fin-%d" % (base, next(_uniq))
        r2 = run_routes(exe, rt, small["src"], "aldor", q, d)
        v2, det2 = compare(r2, {"out": small["expect_out"], "status": small["expect_status"]})
        if v2 != "disagree":
            small, path, r2, det2 = p, [], res, det
        report("generated program (seed %d size %d, shrunk to %s nodes) at -Q%d: %s"
               % (p["seed"], p["size"], small.get("nodes"), q, det2),
               {"how_to_replay": "./check C03 --replay <this file>", "seed": p["seed"], "size": p["size"], "path": path,
                "level": q, "lib": "aldor", "src": small["src"],
                "oracle": {"out": small["expect_out"], "status": small["expect_status"]}, "observed": brief(r2)},
               key=signature_key(r2, q))
    for seed, (p, q, res, det) in list(bad_mini.items())[2:]:
        report("generated program (seed %d size %d, not shrunk) at -Q%d: %s" % (p["seed"], p["size"], q, det),
               {"seed": p["seed"], "size": p["size"], "level": q, "lib": "aldor", "src": p["src"],
                "oracle": p["oracle"], "observed": brief(res)}, key=signature_key(res, q))

    # ---- 3. evidence --------------------------------------------------------------------------------
    n_cmp = sum(verdicts.values())
    rep.add_cov(evaluations=3 * n_cmp + n_model,
                distinct_nontrivial=len({j[1]["src"] for j in jobs}),
                traces_validated_against_impl=n_model,
                rule="per (program, level): stdout and status class of -ginterp p.as, -ginterp p.ao and the linked "
                     "executable are pairwise equal and equal to the oracle's (where there is one)",
                samples=[{"tag": j[0], "level": j[3], "verdict": v} for j, r, v, d in results[:12]],
                input_distribution={
                    "levels": LEVELS, "kept_programs": len(kept), "mini_programs": len(progs), "ending_programs": len(ends),
                    "hand_programs": len(hands),
                    "corpus_programs": len(corp), "corpus_total": n_corpus_total,
                    "triples": n_cmp, "verdicts": dict(verdicts),
                    "verdicts_per_family": {k: dict(v) for k, v in per_family.items()},
                    "ending_kinds": dict(collections.Counter(p["kind"] for p in ends)),
                    "ending_contexts": dict(collections.Counter(p["ctx"] for p in ends)),
                    "feature_mix(programs containing)": dict(feat.most_common()),
                    "incomparable": incomparable[:40], "disagreements_per_group": dict(seen_groups),
                    "model_predictions_checked": n_model, "model_mismatches": stats["model_mismatch"],
                    "known_bad_halt_codes": known_bad, "trace_finding_listed": trace_known,
                },
                timings_s={"build+generate+proof": round(t_proof, 1), "routes": round(t_run, 1)})
    rep.assume(
        "exit status compared as a class (0 = ok, anything else = fail); the interpreter ends failing runs with 1, the C run time with 2",
        "compiler warnings are switched off (-Mno-warnings) so that stdout of `aldor -ginterp` is the program's output",
        "the Aldor-language libraries (libaldor / libaxllib .al and .a) are the pre-built ones of /repo; libfoam.a, the compiler "
        "and the generated C are built from the current tree on every run",
        "a corpus program that no route can build at a level, or that exceeds the time limit on some route, is counted as "
        "incomparable (number in input_distribution.verdicts), never as agreeing",
        "what the compiler DRIVER prints on stdout about a run it hosts - `Program fault (..).#1 (Error) Program fault (..).' (with the "
        "hard-assertion line before it) when the interpreted program crashes, and `Internal Warning: ..' lines of the compilation - is "
        "not program output: pairs that differ only there are counted as `host-report-only' (the status classes must still be equal); "
        "likewise when the interpreted run CRASHED (the driver reports a program fault), the executable was killed by a signal and "
        "its stdout is a prefix of the interpreter's (stdio buffers are lost with a crashing process); an orderly failing end - uncaught "
        "exception, halt - gets no such allowance: every route's stdout is captured through a pipe and must be complete",
        "stack-trace lines of the interpreter (fintWhere) are removed before stdout is compared ONLY to tell the keyed finding "
        "`%s' from other disagreements; the raw difference is reported under that key" % KEY_TRACE,
        "hand family (props/c12.py:family_program): integer, boolean, string, list, record, closure programs whose values are tracked "
        "by the generator; programs that update a record through an alias are run below -Q3 only (keyed finding of C12, an optimiser defect)",
        "ending family: the Python oracle encodes the User Guide's try/catch/finally, assert, never, error and union-branch rules "
        "(aldorug/langtry.tex) for 13 kinds of ending x 4 contexts",
        "translator tools/exitclasses_gen.py: statements it does not know become AOpaque and make the theorems fail "
        "(endings_defined); what it ignores is listed in IGNORABLE_CALLS")
    if verdicts["incomparable"] * 2 > n_cmp:
        rep.violation("more than half of the sampled (program, level) pairs were incomparable", dict(verdicts), no_input=True)


def signature_key(res, q=None):
    """A disagreement whose interpreter output names the place in fint.c that gave up (`Bug: fintStmt: Char (..) unimplemented',
    `Bug: fintEval: RRFmt ..', `Bug: fintEval: undeclared PCall ..') gets a key naming that place, so that the same defect met
    through another program is the same finding."""
    for r in ("interp", "ao"):
        m = re.search(r"Bug: (fint\w+): ([A-Za-z]+(?: [A-Za-z]+)?)", res.get(r, {}).get("out", ""))
        if m:
            return "interp:%s-%s" % (m.group(1), m.group(2).replace(" ", "-"))
    return None


def _route_sig(res):
    return "/".join("%s=%s" % (r, res[r]["status"]) for r in ("interp", "ao", "c") if r in res)


def _end_key(p):
    if p["kind"] == "halt" and p.get("halt") is not None:
        return "halt:%d:routes-disagree" % p["halt"]
    return None


def replay(path):
    obj = json.load(open(path))
    rp = obj.get("replay", obj)
    exe = C.build_compiler()
    rt = C.build_runtime()
    lib = rp.get("lib", "aldor")
    if rp.get("corpus"):
        l, n = rp["corpus"].split("/")
        src, name, lib = open("%s/lib/%s/test/%s/%s.as" % (C.R, l, n, n), errors="replace").read(), n, l
    elif "src" in rp:
        src, name = rp["src"], rp.get("name", "p")
    else:
        print("replay: no program in %s" % path)
        return 2
    q = rp.get("level", 1)
    res = run_routes(exe, rt, src, lib, q, C.scratch("c03r"), name=name)
    v, det = compare(res, rp.get("oracle"))
    print(src if len(src) < 6000 else src[:6000] + "...")
    print("--- level -Q%d: %s %s" % (q, v, det))
    for r in brief(res):
        print("--- %s: %s rc=%s\n%s%s" % (r["route"], r["status"], r["rc"], r["out"], ("[stderr] " + r["err"]) if r["err"] else ""))
    return 1 if v in ("disagree", "trace-only") else 0
