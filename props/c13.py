"""C13 -- Interactive evaluation equals batch evaluation.

Model + theorems: coq/Session (Model.v, Growth.v, Facts.v, Bridge.v), Props/Properties_C13.v.
Decision: the compiler built from /repo's CURRENT sources, three ways on the same program
  * `aldor -gloop` fed the top-level forms one after another on stdin,
  * `aldor -ginterp file.as` on the whole file,
  * the oracle's expected output (per form: `mini forms`),
must print the same program text in the same order; then interleavings: forms that are
ill-typed in every reachable state (a mutant's bad_form from the C06 catalogue) are inserted
at random positions / at every position, and the output of the good forms must be unchanged
and the session must go on.

Separating the program's output from the loop's chatter (axlcomp.c:compGLoopEval):
  * the session starts with `#int timing off` (and `#int verbose off` in the quiet mode): after
    the banner and the echo of these commands, a session of accepted forms prints NOTHING but
    the program's output in the quiet mode -- compared exactly, no filtering;
  * verbose / history modes (fintWrap is exercised): every form may be followed by ONE echo
    line `<value> @ <Type>` / `Defined f @ ...` -- matched form by form against the oracle;
  * diagnostics are requested with -Mname: every message has a header line starting with
    `{ALDOR_`; a message block is that line, the caret line `....^` right before it and the
    lines up to the next empty line.  Removing the blocks from an interleaved session must
    leave exactly the transcript of the good forms alone.
The loop cuts its input into forms with scan.c:scanIsContinued; a port of that function is run
on every form fed, so that each form is known to be read as one step.
"""
import collections, concurrent.futures, itertools, json, os, re, shutil, time
from vlib import common as C
from props import mini

ID = "C13"
LEVEL = "translation_validation"
MANIFEST = {
    "level_text": "Machine-checked theorems (Coq 8.16.1, closed under the global context) about a MODEL of the interactive "
                  "loop built on the MiniAldor reference semantics: for ALL lists of forms, function tables and fuels, a session "
                  "(fold of loop_step; a form that does not type-check after the forms accepted so far leaves the state unchanged "
                  "and prints nothing) prints exactly the text of the batch evaluation of the file, in order "
                  "(session_eq_batch, session_transcript_in_order, batch_forms_session), and for ALL interleavings with forms "
                  "rejected in every reachable state the session ends in the state / with the transcript of the good forms "
                  "alone, form by form (rejected_is_noop, rejected_outputs, rejected_transcript, rejected_then_continue).  The "
                  "real loop is tied to the model by differential runs only: aldor -gloop vs aldor -ginterp vs the oracle.",
    "level_note": "NOT modelled: the undo machinery (scobind.c:scoSetUndoState / stab), fintWrap, the interpreter's persistent "
                  "state, the incremental growth of the function table (the model resolves calls in one table F, any F), the "
                  "loop's chatter, scanIsContinued (a python port is checked against every form fed).  `accepts` is the "
                  "reference checker on `accepted ++ [form]`, standing for 'the front end reports no error'.  Sessions in which "
                  "a form ends by an exception are outside the theorems (the loop goes on, batch stops) and are not fed.  "
                  "ambiguous-overload mutants are not used as erroneous forms (their second definition is legal Aldor and is "
                  "accepted).  Trusted: Coq kernel, extraction (ExtrOcamlBasic), OCaml, Print.v renderer, pre-built libaldor.",
    "technique": "Coq proof on a session model + three-way differential (aldor -gloop on forms / aldor -ginterp on the file / "
                 "extracted oracle), interleavings with catalogue faults, text-level shrinking",
    "design_ref": "DESIGN.md section 4 / C13",
}

# every session starts quietly (the header's own echo -- `Defined Ex0 @ ...` over several lines -- is of no
# interest); the verbose mode switches the value / type echo on after the header (AFTER_HEADER)
MODES = {"quiet": "#int verbose off\n#int timing off\n", "verbose": "#int verbose off\n#int timing off\n"}
MODE_ECHO = {"quiet": "verbose is off.\ntiming is off.\n", "verbose": "verbose is off.\ntiming is off.\n"}
AFTER_HEADER = {"quiet": [], "verbose": [("#int verbose on\n", "verbose is on.\n", False)]}
BANNER_END = 'Type "#int help" for more details.\n'
ECHO = r"(?:[^\n]* @ [^\n]*\n)?"
ANCHOR = re.compile(r"^\{ALDOR_[A-Za-z0-9_]+\} ")
CONTEXT_PARA = re.compile(r"^  The context requires an expression of type [^\n]*\.$")
FOREIGN = re.compile(r'^"[^"\n]+", line \d+: ?$')
CARET = re.compile(r"^[.^]*\^$")
MSG_POS = re.compile(r"^\{ALDOR_[A-Za-z0-9_]+\} \[L(\d+) C(\d+)\] #\d+ \(((?:Fatal )?Error|Warning|Note|Remark)\)")
CRASH = re.compile(r"Program fault|Compiler bug|segmentation violation|Storage allocation error")
SIZES_QUICK = [4, 8, 12, 18]
SIZES_THOROUGH = [4, 8, 12, 18, 25]
DEF_RE = re.compile(r"^(g\d+):|^(f\d+)\(")
NAME_RE = re.compile(r"\b([gf]\d+)\b")
USABLE_KINDS = ("wrong-argument-type", "wrong-arity", "undefined-name", "wrong-return-type", "assign-to-constant")
_uniq = itertools.count()


# ------------------------------------------------------------------ scan.c:scanIsContinued (port)

class Continued:
    """Port of scan.c:scanIsContinued (l.38-148), static variables as attributes.  The
    interactive-prompt branch is dropped (stdin is not a terminal)."""

    def __init__(self):
        self.unmatched = 0
        self.defining = False
        self.top = True
        self.in_str = False
        self.esc = False

    def __call__(self, line):
        found_semi = False
        deq_last = False
        if line[:1] == "#" and self.unmatched == 0:
            return False
        if line[:1] == "\n":
            return True
        if line[:1] not in (" ", "\n", "\t"):
            self.defining = False
        n = len(line)
        for i, ch in enumerate(line):
            if self.esc:
                self.esc = False
            elif self.in_str:
                if ch == "_":
                    self.esc = True
                elif ch == '"':
                    if not self.esc:
                        self.in_str = False
            else:
                if ch == "_":
                    self.esc = True
                elif ch == '"':
                    self.in_str = True
                    deq_last = False
                elif ch in "({":
                    self.unmatched += 1
                elif ch in ")}":
                    self.unmatched -= 1
                elif ch == ";":
                    found_semi = True
                elif ch == "=":
                    if i + 1 < n and line[i + 1] == "=":
                        deq_last = True
                elif ch in " \n":
                    pass
                else:
                    deq_last = False
        if self.unmatched < 0:
            self.unmatched = 0
            return False
        if self.top and deq_last:
            self.defining = True
        if self.defining:
            return True
        if self.unmatched > 0 or self.in_str:
            return True
        if found_semi:
            return False
        if self.defining:
            self.defining = False
            return False
        self.top = True
        return False


def cut_ok(forms):
    """Every form (text of >= 1 complete lines) is read by the loop as exactly one step."""
    c = Continued()
    for f in forms:
        lines = f.splitlines(True)
        if not lines or not f.endswith("\n"):
            return False
        for i, ln in enumerate(lines):
            cont = c(ln)
            if cont != (i < len(lines) - 1):
                return False
    return True


# ------------------------------------------------------------------ running

def header_forms(header):
    """The header as the list of steps the loop will make of it (by the port above)."""
    c = Continued()
    forms, cur = [], ""
    for ln in header.splitlines(True):
        cur += ln
        if not c(ln):
            forms.append(cur)
            cur = ""
    if cur:
        forms.append(cur)
    return forms


def run_loop(aldor, text, base, timeout=75, retry=True):
    """One session (well under 1 s on an idle machine).  A timeout is retried once with twice the time (the
    machine may be oversubscribed; a real hang hangs again)."""
    for attempt in ((0, 1) if retry else (0,)):
        d = "%s/l%d" % (base, next(_uniq))
        os.makedirs(d)
        try:
            rc, out, err = C.run(C.aldor_base_args(aldor) + ["-gloop", "-Mname"], cwd=d, env=C.aldor_env(), input=text,
                                 timeout=timeout * (attempt + 1))
        finally:
            shutil.rmtree(d, ignore_errors=True)
        if rc != 124:
            break
    return rc, out, err


def run_batch(aldor, src, base):
    d = "%s/b%d" % (base, next(_uniq))
    try:
        return mini.run_interp(aldor, src, d)
    finally:
        shutil.rmtree(d, ignore_errors=True)


def body_of(out, mode):
    """The transcript after the banner and the echo of the session's own `#int` commands."""
    i = out.find(BANNER_END)
    if i < 0:
        return None
    rest = out[i + len(BANNER_END):]
    if not rest.startswith(MODE_ECHO[mode]):
        return None
    return rest[len(MODE_ECHO[mode]):]


def strip_messages(body):
    """(text without message blocks, list of (line, col, severity, header line) of the messages)."""
    lines = body.splitlines(True)
    keep = [True] * len(lines)
    msgs = []
    i = 0
    while i < len(lines):
        if ANCHOR.match(lines[i]):
            m = MSG_POS.match(lines[i])
            foreign = False
            msgs.append((int(m.group(1)), int(m.group(2)), m.group(3), lines[i]) if m else (0, 0, "?", lines[i]))
            if i > 0 and keep[i - 1] and CARET.match(lines[i - 1].rstrip("\n")):
                keep[i - 1] = False
                # a message about text of ANOTHER file (an included header, a macro's body) is preceded by
                # `"<file>", line N: ` and the echo of that line: not a position of this session
                if i > 2 and FOREIGN.match(lines[i - 3]) and keep[i - 3] and keep[i - 2]:
                    keep[i - 3] = keep[i - 2] = False
                    foreign = True
            if foreign:
                msgs[-1] = (0, 0, msgs[-1][2], msgs[-1][3])
            j = i
            while j < len(lines) and lines[j].strip("\n") != "":
                keep[j] = False
                j += 1
            if j < len(lines):
                keep[j] = False          # the empty line that ends the block
            # terror.c:bputContextType writes "\n  The context requires an expression of type T." -- after the
            # set! message (terrorImplicitSetBang) that leaves an EMPTY line inside the block: the paragraph after it
            # still belongs to the message
            if j + 1 < len(lines) and CONTEXT_PARA.match(lines[j + 1]):
                j += 1
                while j < len(lines) and lines[j].strip("\n") != "":
                    keep[j] = False
                    j += 1
                if j < len(lines):
                    keep[j] = False
            i = j + 1
        else:
            i += 1
    return "".join(l for l, k in zip(lines, keep) if k), msgs


def good_regex(steps, mode):
    """Transcript of a session of accepted steps: each step's expected text, then (verbose mode)
    at most one echo line."""
    if mode == "quiet":
        return re.compile("".join(re.escape(o) for o in steps) + r"\Z", re.S)
    return re.compile("".join(re.escape(o) + ("" if o.startswith("verbose is") else ECHO) for o in steps) + r"\Z", re.S)


def session_text(mode, steps):
    return MODES[mode] + "".join(steps)


# ------------------------------------------------------------------ erroneous forms

CONST_ASSIGN = re.compile(r"^(g\d+) :=")


def insert_positions(x, forms):
    """Positions (0..n: before form i / at the end) where the erroneous form is ill-typed whatever
    has been accepted so far.  In-place faults (literal or name substituted inside a form) are
    ill-typed wherever the form stands: with fewer definitions visible a name has fewer meanings,
    never more.  `g := literal` for a constant g is an error only once g is defined (before that
    it would DECLARE g, langenvs.tex:323-326): positions after g's definition."""
    n = len(forms)
    if "try {" in x["bad_form"]:
        # a REJECTED form that contains a try/catch (a loop, an if, a function) followed immediately by a top-level
        # `for` loop that contains a try/catch makes the loop segfault (probe `try-loop-after-rejected-try`): not entered
        return []
    if "Union(" in x["bad_form"]:
        # an erroneous form holding a Union literal can kill the loop while the error is reported (probe
        # `union-literal-error-in-if-condition`): not entered; the batch side (C06) still plants these
        return []
    if x["kind"] == "assign-to-constant":
        m = CONST_ASSIGN.match(x["bad_form"])
        if not m:
            return []
        for i, f in enumerate(forms):
            if f["src"].startswith(m.group(1) + ":"):
                return list(range(i + 1, n + 1))
        return []
    m = re.match(r"(f\d+)\(", x["bad_form"])
    if m and any("Record(" in f["src"] or "Union(" in f["src"] for f in forms):
        # ANY rejected function definition makes the next accepted form that declares a parameter / local / loop
        # variable of a Record(..) or Union(..) type segfault, deterministically (probe
        # `rejected-function-then-record-local`): no erroneous function definitions in programs that use these types
        return []
    if m:
        # a function definition: entered only before ANY definition of that name.  Re-entering a definition that
        # was accepted makes the loop hang, and a REJECTED overload of a name that already has a definition breaks
        # the existing one (segfault at its next call): findings, probes `redefinition` and `rejected-overload`
        first = min([i for i, f in enumerate(forms) if f["src"].startswith(m.group(1) + "(")] + [x["fault_form"]])
        # ... and only after the definitions of the globals it declares `free`: a definition rejected by the SCOPE
        # binder ("Cannot find scope in which free variable `g3' is bound") leaves the function's name damaged -- a
        # segfault, or the good definition refused as "library or archive constant" (same finding family)
        lo = 0
        for g in re.findall(r"^\s+free (g\d+);", x["bad_form"], re.M):
            ds = [i for i, f in enumerate(forms) if f["src"].startswith(g + ":")]
            lo = max(lo, (ds[0] + 1) if ds else n + 1)
        return list(range(lo, min(n, first) + 1))
    if re.match(r"g\d+: [^\n]*? == ", x["bad_form"]):
        # a constant definition: only before the original (re-entering it makes the loop hang, probe `redefinition`)
        return list(range(0, min(n, x["fault_form"]) + 1))
    return list(range(0, n + 1))


def build_interleaving(hsteps, forms, inserts, mode="quiet"):
    """inserts: list of (position, bad_form_text).  Returns (steps, flags, line ranges of bad steps)
    where steps/flags cover header steps + forms + inserted bad forms in session order."""
    by_pos = collections.defaultdict(list)
    for pos, b in inserts:
        by_pos[pos].append(b)
    steps = [(h, "", False) for h in hsteps] + AFTER_HEADER[mode]
    for i, f in enumerate(forms):
        steps += [(b, "", True) for b in by_pos.get(i, [])]
        steps.append((f["src"], f["expect_out"], False))
    steps += [(b, "", True) for b in by_pos.get(len(forms), [])]
    return steps


# ------------------------------------------------------------------ layout of the forms over input lines
# The property speaks of forms fed one after another; how they are spread over input LINES is layout.  The loop reads
# one step = the lines up to the first one scanIsContinued calls complete, so several forms on one line are ONE step
# (a sequence), and a form broken inside parentheses is still one step.
LAYOUTS = ("one-form-per-line", "packed", "split", "packed+split")
ONE_LINE = re.compile(r"^[^\n]*;\n\Z")


def form_class(src):
    if re.match(r"g\d+: ", src):
        return "definition"
    if re.match(r"g\d+(?:\.[^ ]*)? := ", src):
        return "assignment"
    if src.startswith("stdout <<"):
        return "output"
    return "other"


def split_points(line):
    """Where a one-line form may be broken in the loop.  The loop reads its input in `#pile` layout (linear.c:909 puts a
    KW_StartPile in front of every step), so a line break is NOT plain white space: a line ending in `then` / `else` /
    `if` opens a sub-pile and `(if c then\n    a else b)` is a syntax error there although the batch compiler (no
    `#pile`) takes it.  Two break points are safe under the piling rules and were checked by hand: after a comma
    inside parentheses, and before a `then` / `else` (a line that starts with a follower is joined to the previous
    one).  Returns the indices of such spaces (outside strings)."""
    pts, depth, in_str, esc = [], 0, False, False
    for i, ch in enumerate(line):
        if esc:
            esc = False
        elif ch == "_":
            esc = True
        elif in_str:
            if ch == '"':
                in_str = False
        elif ch == '"':
            in_str = True
        elif ch in "({[":
            depth += 1
        elif ch in ")}]":
            depth -= 1
        elif ch == " " and depth > 0:
            if line[i - 1] == "," or line.startswith(("then ", "else "), i + 1):
                pts.append(i)
    return pts


def apply_layout(steps, nh, layout, lrng, stats=None, last_must_be_output=False):
    """steps[nh:] re-laid out.  Only accepted one-line forms `...;` are packed (2-3 consecutive ones on one line,
    separated by their own `;`) -- an erroneous form stays alone on its line(s), because the loop rejects a LINE
    as a whole.  Splitting breaks a one-line form at 1-2 spaces inside parentheses (the loop asks for more input
    while a parenthesis is open).  Every result is checked with the port of scanIsContinued."""
    if layout == "one-form-per-line":
        return list(steps)
    out = list(steps[:nh])
    body = list(steps[nh:])
    i = 0
    while i < len(body):
        src, exp, bad = body[i]
        group = [body[i]]
        if "packed" in layout and not bad and ONE_LINE.match(src) and not src.startswith("#"):
            k = lrng.choice([1, 2, 2, 3])
            while len(group) < k and i + len(group) < len(body):
                s2, e2, b2 = body[i + len(group)]
                if b2 or not ONE_LINE.match(s2) or s2.startswith("#"):
                    break
                group.append(body[i + len(group)])
        if len(group) > 1:
            # verbose mode echoes the value and type of the LINE (its last statement); after a definition that is a
            # multi-line category dump: there only lines that end with an output statement are packed
            while last_must_be_output and len(group) > 1 and form_class(group[-1][0]) != "output":
                group.pop()
        if len(group) > 1:
            cand = (" ".join(g[0].rstrip("\n") for g in group) + "\n", "".join(g[1] for g in group), False)
            if cut_ok([cand[0]]):
                out.append(cand)
                if stats is not None:
                    stats["packed:" + "+".join(form_class(g[0]) for g in group)] += 1
                i += len(group)
                continue
            group = group[:1]
        if "split" in layout and not bad and ONE_LINE.match(src) and len(src) > 50 and not src.startswith("#") \
                and "+->" not in src:       # a break inside a lambda body draws "Suspicious juxtaposition" under the piling rules
            pts = split_points(src)
            if pts:
                cut = sorted(set(lrng.sample(pts, min(len(pts), lrng.choice([1, 1, 2])))))
                pieces, last = [], 0
                for c in cut:
                    pieces.append(src[last:c])
                    last = c + 1
                pieces.append(src[last:])
                cand = "\n    ".join(pieces)
                if all(pc.strip() for pc in pieces) and cut_ok([cand]):
                    out.append((cand, exp, False))
                    if stats is not None:
                        stats["split:%s-into-%d-lines" % (form_class(src), len(pieces))] += 1
                    i += 1
                    continue
        out.append(body[i])
        i += 1
    return out


def bad_ranges(mode, steps):
    line = MODES[mode].count("\n")
    rs = []
    for src, _, bad in steps:
        n = src.count("\n")
        if bad:
            rs.append((line + 1, line + n))
        line += n
    return rs


# ------------------------------------------------------------------ judging one session

def judge_good(mode, steps, rc, out):
    """steps: (src, expected output, False).  None or the violation class."""
    if rc == 124:
        return "timeout"
    body = body_of(out, mode)
    if body is None:
        return "loop-did-not-start"
    if rc != 0 or CRASH.search(out):
        return "loop-crashed"
    if ANCHOR.search(body) or re.search(r"^\{ALDOR_", body, re.M):
        return "accepted-form-rejected-by-loop"
    if "Unhandled Exception!" in body:
        return "unhandled-exception-in-loop"
    if not good_regex([o for _, o, _ in steps], mode).match(body):
        return "session-output-differs"
    return None


def judge_mixed(mode, steps, rc, out, good_body):
    if rc == 124:
        return "timeout"
    body = body_of(out, mode)
    if body is None:
        return "loop-did-not-start"
    if rc != 0 or CRASH.search(out):
        return "loop-crashed"
    text, msgs = strip_messages(body)
    rs = bad_ranges(mode, steps)
    first_form = MODES[mode].count("\n") + 1
    for src, _, bad in steps:
        if bad or DEF_RE.match(src) or src.startswith(("stdout", "for ", "while ", "if ", "try ")):
            break
        first_form += src.count("\n")
    errs = [(l, c, t) for l, c, sev, t in msgs if "Error" in sev]
    # errors that do not point into the form they belong to: "(After Macro Expansion)" points at the macro's
    # body in the header; the embedded-satisfaction message points at a type expression elsewhere (C06 finding)
    floating = [e for e in errs if e[0] < first_form or "The interpretation of the type expression" in e[2]]   # line 0 = other file
    for lo, hi in rs:
        if any(lo <= l <= hi for l, c, t in errs):
            continue
        if floating:
            floating.pop()
            continue
        return "erroneous-form-not-rejected"
    for e in errs:
        if not any(lo <= e[0] <= hi for lo, hi in rs) and not (e[0] < first_form or "The interpretation of the type expression" in e[2]):
            return "good-form-rejected-after-erroneous-form"
    if "Unhandled Exception!" in text:
        return "unhandled-exception-in-loop"
    if mode == "quiet":
        if text != good_body:
            return "good-forms-output-changed"
    elif not good_regex([o for _, o, bad in steps if not bad], mode).match(text):
        return "good-forms-output-changed"
    return None


# ------------------------------------------------------------------ probes of confirmed loop defects
_H = [('#include "aldor"\n', "", False), ('#include "aldorio"\n', "", False), ("import from MachineInteger;\n", "", False)]
PROBES = [
    {"name": "history-mode", "key": "C13 gloop:history-mode:first-value-segfaults", "what": "good", "mode": "verbose",
     "steps": _H + AFTER_HEADER["verbose"] + [("#int history on\n", "", False), ("g0: MachineInteger := 3;\n", "", False),
                                              ("stdout << g0 << newline;\n", "3\n", False)]},
    {"name": "redefinition", "key": "C13 gloop:re-entering-a-constant-definition-hangs", "what": "mixed", "mode": "quiet",
     "steps": _H + [("g1: MachineInteger := 0;\n", "", False),
                    ("f1(p0: MachineInteger): MachineInteger == p0 + 1;\n", "", False),
                    ("stdout << f1(g1) << newline;\n", "1\n", False),
                    ('f1(p0: MachineInteger): MachineInteger == "s";\n', "", True),
                    ("stdout << g1 << newline;\n", "0\n", False)]},
    {"name": "try-conditional-throw", "key": "C13 gloop:toplevel-try-with-throw-under-if:bad-foam-reference", "what": "good",
     "mode": "quiet",
     "steps": _H + [("define Ex0Type: Category == with;\n", "", False), ("Ex0: Ex0Type == add;\n", "", False),
                    ('stdout << "a" << newline;\n', "a\n", False),
                    ('try {\n    if (false = false) then {\n        throw Ex0;\n    };\n    true\n} catch E in {\n'
                     '    E has Ex0Type => {\n        stdout << "caught" << newline;\n        true\n    };\n'
                     '    true => throw E;\n    never;\n};\n', "caught\n", False),
                    ('stdout << "b" << newline;\n', "b\n", False)]},
    {"name": "rejected-overload", "key": "C13 gloop:rejected-overload-of-a-defined-function-breaks-the-existing-definition",
     "what": "mixed", "mode": "quiet",
     "steps": _H + [("f3(p0: MachineInteger): Boolean == p0 > 0;\n", "", False),
                    ("stdout << f3(2) << newline;\n", "T\n", False),
                    ("f3(p0: Boolean, p1: MachineInteger): MachineInteger == g4999;\n", "", True),
                    ('stdout << "next" << newline;\n', "next\n", False),
                    ("stdout << f3(2) << newline;\n", "T\n", False)]},
    {"name": "undefined-name-in-nested-if", "key": "C13 gloop:undefined-name-in-nested-if-condition:segfault-while-reporting",
     "what": "mixed", "mode": "quiet",
     "steps": _H + [("import from Integer;\n", "", False), ("g2: MachineInteger := 1@MachineInteger;\n", "", False),
                    ("f3(): MachineInteger == {\n    (if (if g4999 then true else false) then g2 else g2)\n}\n", "", True),
                    ("stdout << g2 << newline;\n", "1\n", False)]},
    {"name": "rejected-function-then-record-local", "key": "C13 gloop:many-rejected-function-definitions:later-segfault",
     "what": "mixed", "mode": "quiet",
     "steps": _H + [("import from Integer;\n", "", False), ("import from Record(f0: Integer, f1: MachineInteger);\n", "", False),
                    ("f1(p0: MachineInteger): Integer == p0;\n", "", True),
                    ("f2(p0: MachineInteger): Integer == {\n    l3: Record(f0: Integer, f1: MachineInteger) := [10, p0];\n    (10@Integer)\n}\n", "", False),
                    ("stdout << f2(1) << newline;\n", "10\n", False)]},
    {"name": "union-literal-error-in-if-condition",
     "key": "C13 gloop:undefined-name-in-union-literal-in-if-condition:segfault-while-reporting", "what": "mixed", "mode": "quiet",
     "steps": _H + [("import from Integer;\n", "", False), ("MI ==> MachineInteger;\n", "", False), ("mi(x: MI): MI == x;\n", "", False),
                    ("import from Union(f0: MI, f1: MI, f2: MI);\n", "", False),
                    ("g1 := (if (([f1 == g4999]@Union(f0: MI, f1: MI, f2: MI)) case f0) then (([f1 == g1]@Union(f0: MI, f1: MI, f2: MI)).f0) else mi(5));\n", "", True),
                    ("g1: MI := mi(3);\n", "", False),
                    ("g1 := (if (([f1 == g4999]@Union(f0: MI, f1: MI, f2: MI)) case f0) then (([f1 == g1]@Union(f0: MI, f1: MI, f2: MI)).f0) else mi(5));\n", "", True),
                    ("stdout << g1 << newline;\n", "3\n", False)]},
    {"name": "try-loop-after-rejected-try", "key": "C13 gloop:try-inside-toplevel-loop:crash", "what": "mixed", "mode": "quiet",
     "steps": [('#include "aldor"\n', "", False), ('#include "aldorio"\n', "", False), ("import from List(String);\n", "", False),
               ("import from Array(Boolean);\n", "", False), ("define Ex0Type: Category == with;\n", "", False),
               ("f4(): Array(Boolean) == ([false, true]@Array(Boolean));\n", "", False),
               ('for l0: String in (["a", "b"]@List(String)) repeat {\n    stdout << f4(true) << newline;\n    try {\n        true\n'
                '    } catch E in {\n        E has Ex0Type => {\n            true\n        };\n        true => throw E;\n        never;\n    };\n};\n',
                "", True),
               ('for l0: String in (["a", "b"]@List(String)) repeat {\n    stdout << f4() << newline;\n    try {\n        true\n'
                '    } catch E in {\n        E has Ex0Type => {\n            true\n        };\n        true => throw E;\n        never;\n    };\n};\n',
                "[F,T]\n[F,T]\n", False)]},
    {"name": "verbose-if-else", "key": "C13 gloop:verbose-mode:toplevel-if-else-with-branches-of-different-types-rejected",
     "what": "good", "mode": "verbose",
     "steps": _H + AFTER_HEADER["verbose"] + [("g0: MachineInteger := 3;\n", "", False),
                                              ('if g0 > 2 then {\n    g0 := 1;\n} else {\n    stdout << "small" << newline;\n};\n', "", False),
                                              ("stdout << g0 << newline;\n", "1\n", False)]},
]


TRY_THROW = re.compile(r"^try \{\n(?:(?!\} catch ).*\n)*?.*\bthrow\b", re.M)
IF_ELSE = re.compile(r"^if .*\n(?:[ }].*\n)*?\} else \{", re.M)


def known_defect_shapes(forms):
    """Shapes of top-level forms that hit confirmed loop defects (each has a probe in PROBES): which modes to skip."""
    skip = set()
    for f in forms:
        src = f["src"]
        if src.startswith("try {"):
            # a top-level try/catch in the loop: "Bad foam reference" / fint.c:1493, 3616 assertions / segfault as soon as
            # its body holds a throw, an error, a loop or an exit (probes try-conditional-throw, verbose-try)
            skip.add("verbose")
            skip.add("quiet")
        if not DEF_RE.match(src) and "} else {" in src:
            skip.add("verbose")                   # if/else used as a value (also inside a loop body): branches of different types
    return skip


def class_key(cls, steps, out):
    """Confirmed loop defects with many instances get one key each."""
    if "Have determined 0 possible types for the expression" in out and "verbose is on." in out and \
            cls in ("accepted-form-rejected-by-loop", "good-form-rejected-after-erroneous-form"):
        return "C13 gloop:verbose-mode:toplevel-if-else-with-branches-of-different-types-rejected"
    if cls == "loop-crashed" and any(s.startswith(("for ", "while ", "if ")) and "try {" in s for s, _, b in steps):
        # the family of the probe `try-loop-after-rejected-try`: one key by site / shape, whatever the loop's text
        return "C13 gloop:try-inside-toplevel-loop:crash"
    if any(s.startswith("try {") for s, _, b in steps if not b) and cls in ("loop-crashed", "session-differs-from-batch"):
        return PROBES[2]["key"]
    if cls == "loop-crashed" and "(Error)" in out and \
            any(re.search(r"\bif\b.*\(if\b", s, re.S) for s, _, b in steps if b):
        # any type error (undefined name, wrong argument, wrong arity) in the condition of an if-expression that is
        # itself (part of) an if-condition: the message is printed, then the reporter segfaults
        return "C13 gloop:undefined-name-in-nested-if-condition:segfault-while-reporting"
    if (cls == "loop-crashed" or "{ALDOR_E_ScoLibrary}" in out) and any(re.match(r"f\d+\(", s) for s, _, b in steps if b):
        # one or more rejected FUNCTION definitions: sporadic segfault later in the session (heap-layout dependent:
        # the same session may pass with a compiler built from slightly different sources)
        return "C13 gloop:many-rejected-function-definitions:later-segfault"
    if cls == "loop-crashed" and any(b and s.startswith(("for ", "while ")) for s, _, b in steps):
        # a REJECTED top-level loop (e.g. an undefined name in its generator) followed by an accepted top-level loop:
        # the accepted loop starts running and the session dies (deterministic; replay recorded with the finding)
        return "C13 gloop:toplevel-loop-after-rejected-toplevel-loop:crash"
    return None


# ------------------------------------------------------------------ the run

def run(rep, tier):
    t0 = time.time()
    C.proof_stage(rep, ID, ["Props/Properties_C13.vo", "Mini/Extract.vo"], "Props/Properties_C13.v", None, defer=True)
    aldor = C.build_compiler()
    mini.build(rebuild_coq=False)
    base = C.scratch("c13")
    quick = tier == "quick"
    rng = C.rng("c13")
    t_build = time.time() - t0
    st = collections.Counter()
    viol = []
    samples = []

    # ---- corpus first
    cdir = os.path.join(C.VERIF, "corpus", ID)
    for fn in sorted(os.listdir(cdir)) if os.path.isdir(cdir) else []:
        if fn.endswith(".json"):
            o = json.load(open(os.path.join(cdir, fn)))
            st["corpus"] += 1
            cls, obs = _judge_obj(aldor, o, base)
            if cls:
                viol.append(("corpus %s: %s" % (fn, cls), dict(o, observed=obs, corpus=fn), o.get("key")))

    for pr in PROBES:
        st["probes"] += 1
        cls, out = _judge_steps(aldor, base, pr["what"], pr["mode"], pr["steps"], timeout=20, retry=False)
        if cls:
            viol.append(("probe %s: %s" % (pr["name"], cls),
                         {"how_to_replay": "./check C13 --replay <this file>", "what": pr["what"], "mode": pr["mode"],
                          "steps": [list(x) for x in pr["steps"]],
                          "session_input": session_text(pr["mode"], [x[0] for x in pr["steps"]]),
                          "observed_transcript": out[-3000:]}, pr["key"]))

    n_prog = 128 if quick else 100000
    budget = 120 if quick else 17 * 60
    sizes = SIZES_QUICK if quick else SIZES_THOROUGH
    t_start = time.time()
    done = 0
    size_hist = collections.Counter()
    nforms = []
    kinds_used = collections.Counter()
    positions_covered = 0
    failures = []
    layout_stats, layout_sessions = collections.Counter(), collections.Counter()
    while done < n_prog and time.time() - t_start < budget and \
            sum(1 for fl in failures if class_key(fl[0], fl[4], fl[6]) is None) < 12:
        jobs = [(rng.randrange(1, 2 ** 40), rng.choice(sizes)) for _ in range(16 if quick else 32)]
        fs = mini.batch(["forms %d %d" % j for j in jobs])
        ms = mini.batch(["mutants %d %d %d" % (s, z, 3 if quick else 6) for s, z in jobs])
        work = []
        for f, m in zip(fs, ms):
            done += 1
            if f.get("expect_status") != "ok" or not f.get("forms") or f.get("result") != "done":
                st["skipped:program-ends-by-exception"] += 1
                continue
            hsteps = header_forms(f["header"])
            if not cut_ok(hsteps + [x["src"] for x in f["forms"]]) or f["header"] + "".join(x["src"] for x in f["forms"]) != f["src"]:
                st["skipped:forms-not-cut-as-steps"] += 1
                viol.append(("harness: a rendered form is not read as one step by the port of scanIsContinued",
                             {"seed": f["seed"], "size": f["size"], "src": f["src"]}, None, True))
                continue
            skip_modes = known_defect_shapes(f["forms"])
            if "quiet" in skip_modes:
                st["skipped:toplevel-try(known defects, probes)"] += 1
                continue
            if "verbose" in skip_modes:
                st["verbose-skipped:toplevel-try-or-if-else(known defects, probes)"] += 1
            size_hist[f["size"]] += 1
            nforms.append(len(f["forms"]))
            good_steps = build_interleaving(hsteps, f["forms"], [])
            good_steps_v = build_interleaving(hsteps, f["forms"], [], "verbose")
            bads = [x for x in m["mutants"] if x["kind"] in USABLE_KINDS and cut_ok([x["bad_form"]])]
            prog = {"f": f, "hsteps": hsteps, "good_steps": good_steps, "bads": bads}
            modes = ["quiet", "verbose"] if "verbose" not in skip_modes else ["quiet"]
            nh_q, nh_v = len(hsteps) + len(AFTER_HEADER["quiet"]), len(hsteps) + len(AFTER_HEADER["verbose"])
            prog["nh"] = {"quiet": nh_q, "verbose": nh_v}
            work.append(("good", "quiet", prog, good_steps, None, "one-form-per-line"))       # the reference transcript
            for lay in ("packed", "split", "packed+split"):
                ls = apply_layout(good_steps, nh_q, lay, C.rng("c13-layout/%d/%s" % (f["seed"], lay)), layout_stats)
                if ls != good_steps:
                    work.append(("good", "quiet", prog, ls, None, lay))
            if "verbose" in modes:
                lay = rng.choice(LAYOUTS)
                work.append(("good", "verbose", prog,
                             apply_layout(good_steps_v, nh_v, lay, C.rng("c13-layout/%d/v" % f["seed"]), layout_stats, True), None, lay))
            work.append(("batch", None, prog, None, None, None))
            # interleavings
            plans = []
            for x in bads:
                ps = insert_positions(x, f["forms"])
                if ps:
                    plans.append((x, ps))
            rng.shuffle(plans)
            if plans:
                # random: a few erroneous forms at random positions in one session
                for _ in range(2 if quick else 4):
                    k = rng.randrange(1, min(4, len(plans)) + 1)
                    ins = [(rng.choice(ps), x) for x, ps in rng.sample(plans, k)]
                    work.append(("mixed", rng.choice(["quiet", "quiet"] + [m for m in modes if m == "verbose"]), prog, None, ins,
                                 rng.choice(LAYOUTS)))
                # every position: one erroneous form entered before every form and at the end (a rejected FUNCTION
                # definition at most twice per session: many of them corrupt the loop's state, finding `many-rejected-functions`)
                for x, ps in plans[:(1 if quick else 4)]:
                    if re.match(r"f\d+\(", x["bad_form"]):
                        ps = rng.sample(ps, min(2, len(ps)))
                    work.append(("mixed", "quiet", prog, None, [(p, x) for p in ps], rng.choice(LAYOUTS)))
                if not quick:
                    # every position, one session per position, for one erroneous form
                    x, ps = plans[0]
                    for p in ps:
                        work.append(("mixed", "quiet", prog, None, [(p, x)], rng.choice(LAYOUTS)))
            else:
                st["programs-without-usable-erroneous-form"] += 1

        def one(w):
            what, md, prog, steps, ins, lay = w
            if what == "batch":
                return w, None, run_batch(aldor, prog["f"]["src"], base)
            if what == "mixed":
                steps = build_interleaving(prog["hsteps"], prog["f"]["forms"], [(p, x["bad_form"]) for p, x in ins], md)
                steps = apply_layout(steps, prog["nh"][md], lay,
                                     C.rng("c13-layout/%d/m/%s" % (prog["f"]["seed"], [p for p, _ in ins])), None, md == "verbose")
            rc, out, err = run_loop(aldor, session_text(md, [s for s, _, _ in steps]), base)
            return w, steps, (rc, out + err)
        results = []
        with concurrent.futures.ThreadPoolExecutor(C.NCPU) as ex:
            results = list(ex.map(one, work))
        # good sessions and batch first: they give the reference transcript of each program
        ref = {}
        for (what, md, prog, _, ins, lay), steps, r in results:
            if what == "batch":
                st["batch-runs"] += 1
                ref.setdefault((prog["f"]["seed"], prog["f"]["size"]), {})["batch"] = r
        for (what, md, prog, _, ins, lay), steps, r in results:
            f = prog["f"]
            k = (f["seed"], f["size"])
            if what == "good":
                rc, out = r
                cls = judge_good(md, steps, rc, out)
                b = ref.get(k, {}).get("batch")
                if cls and b is not None and b["status"] != "ok" and "(Error)" in (b["out"] + b["err"]):
                    # the BATCH compiler rejects the program too: oracle / generator versus compiler is C01's
                    # question, not a difference between the loop and batch
                    st["good-session/%s/not-judged:batch-rejects-the-program-too(C01)" % md] += 1
                    continue
                st["good-session/%s/%s" % (md, cls or "ok")] += 1
                layout_sessions["good/%s/%s" % (md, lay)] += 1
                if md == "quiet" and lay == "one-form-per-line":
                    ref.setdefault(k, {})["body"] = body_of(out, md)
                if cls:
                    failures.append((cls, "good", md, prog, steps, None, out))
        for (what, md, prog, _, ins, lay), steps, r in results:
            f = prog["f"]
            k = (f["seed"], f["size"])
            if what == "good" and md == "quiet" and lay == "one-form-per-line":
                b = ref[k].get("batch")
                body = ref[k].get("body")
                if b is not None and body is not None:
                    if b["out"] != f["expect_out"] or b["status"] != "ok":
                        st["batch-differs-from-oracle(C01)"] += 1
                    if b["status"] == "ok" and body != b["out"]:
                        st["session-differs-from-batch"] += 1
                        if not any(fl[3] is prog and fl[1] == "good" and fl[2] == "quiet" for fl in failures):
                            failures.append(("session-differs-from-batch", "good", md, prog, steps, None, r[1]))
                    elif b["status"] == "ok":
                        st["session=batch=oracle" if b["out"] == f["expect_out"] else "session=batch"] += 1
            if what == "mixed":
                rc, out = r
                good_body = ref.get(k, {}).get("body")
                if good_body is None or good_regex([o for _, o, _ in prog["good_steps"]], "quiet").match(good_body) is None:
                    st["mixed-skipped:no-reference"] += 1
                    continue
                cls = judge_mixed(md, steps, rc, out, good_body)
                st["interleaved-session/%s/%s" % (md, cls or "ok")] += 1
                layout_sessions["interleaved/%s/%s" % (md, lay)] += 1
                positions_covered += len(ins)
                for p, x in ins:
                    kinds_used[x["kind"]] += 1
                if cls:
                    failures.append((cls, "mixed", md, prog, steps, ins, out))
        for (what, md, prog, _, ins, lay), steps, r in results[:40]:
            if what == "mixed" and len(samples) < 12:
                samples.append({"seed": prog["f"]["seed"], "size": prog["f"]["size"], "mode": md, "forms": len(prog["f"]["forms"]),
                                "erroneous_forms": [(p, x["kind"]) for p, x in ins][:6]})
    t_run = time.time() - t_start

    # ---- shrink (first few) and report
    shrunk = 0
    for cls, what, md, prog, steps, ins, out in failures:
        f = prog["f"]
        ck = class_key(cls, steps, out)
        st["failures-by-key/%s/%s" % (cls, ck or "unkeyed")] += 1
        if shrunk < 3 and cls != "timeout" and not (ck and rep.finding_key_known(ck)):
            shrunk += 1
            steps = shrink_session(aldor, base, cls, what, md, prog, steps, budget_s=40 if quick else 240)
            rc, o2, e2 = run_loop(aldor, session_text(md, [s for s, _, _ in steps]), base)
            out = o2 + e2
        obj = _replay_obj(what, md, steps, f, out)
        viol.append(("%s session (%s mode) of generated program seed %d size %d: %s"
                     % ("interleaved" if what == "mixed" else "good-forms", md, f["seed"], f["size"], cls),
                     obj, class_key(cls, steps, out) or "C13 %s %s %s" % (what, cls, _shape(steps))))
    for v in viol:
        rep.violation(v[0], v[1], key=v[2], no_input=(len(v) > 3))

    n_sessions = sum(v for k, v in st.items() if k.startswith(("good-session", "interleaved-session")))
    rep.add_cov(evaluations=n_sessions + st["batch-runs"],
                distinct_nontrivial=sum(v for k, v in st.items() if k.startswith("interleaved-session")),
                traces_validated_against_impl=sum(v for k, v in st.items() if k.endswith("/ok")) + st["session=batch=oracle"],
                rule="quiet mode: transcript after banner == concat of the oracle's per-form outputs == stdout of -ginterp; verbose / "
                     "history: per form expected text + at most one echo line; interleaved: message blocks removed == transcript "
                     "of the good forms alone, every erroneous form has >= 1 (Error) in its own input lines, no error elsewhere",
                samples=samples,
                input_distribution={"programs": done, "requested_size": dict(sorted(size_hist.items())),
                                    "forms_per_program": {"min": min(nforms or [0]), "max": max(nforms or [0]),
                                                          "mean": round(sum(nforms) / max(1, len(nforms)), 1)},
                                    "outcomes": dict(sorted(st.items())),
                                    "erroneous_forms_entered": positions_covered, "erroneous_kinds": dict(kinds_used),
                                    "sessions_per_layout": dict(sorted(layout_sessions.items())),
                                    "packings_and_splits_of_good_sessions": dict(sorted(layout_stats.items()))},
                timings_s={"proof+build": round(t_build, 1), "sessions": round(t_run, 1)})
    rep.assume(
        "the real loop (compGLoopEval, fintWrap, scoSetUndoState, interpreter state) is tied to the Coq model only by these runs",
        "an erroneous form is `bad_form` of a C06 mutant (kinds %s); that it is ill-typed at every position used rests on: a "
        "substituted literal / name stays ill-typed when fewer definitions are visible; `g := lit` on a constant is only entered "
        "after the constant's definition" % ", ".join(USABLE_KINDS),
        "programs whose run ends by an exception / error (expect_status fail) are not fed: the loop goes on after the failing form "
        "while the batch run stops, so the two legitimately differ",
        "message blocks are recognised by the -Mname header `{ALDOR_...}`; program output never starts a line with `{ALDOR_`",
        "sessions start with `#int timing off` (and `#int verbose off` in the quiet mode); forms are cut by the loop itself "
        "(scanIsContinued), a python port of which is asserted on every form fed",
        "layout: besides one form per input line, sessions pack 2-3 consecutive accepted one-line forms on ONE line (one loop step: "
        "definition+output, assignment+output, output+output, definition+definition, ...) and split one-line forms over 2-3 "
        "lines inside parentheses; an erroneous form always stays alone on its lines (the loop rejects a line as a whole); the "
        "Coq theorems are about the list of forms and do not see the layout",
        "Coq extraction (ExtrOcamlBasic only), OCaml, Print.v (renderer) are trusted; libaldor is the pre-built one of /repo",
    )


def _shape(steps):
    bad = [s for s, _, b in steps if b]
    s = bad[0] if bad else (steps[-1][0] if steps else "")
    s = re.sub(r'"(?:[^"_]|_.)*"', "S", s)
    s = re.sub(r"\b\d+\b", "N", s)
    s = re.sub(r"\b([gfpl])\d+\b", r"\1", s)
    return re.sub(r"\s+", " ", s).strip()[:140]


def _replay_obj(what, md, steps, f, out):
    return {"how_to_replay": "./check C13 --replay <this file>   (feeds `session_input` to `aldor -gloop -Mname` built from the "
                             "current tree and judges the transcript; steps = [source, expected program output, erroneous?])",
            "what": what, "mode": md, "steps": [list(s) for s in steps], "seed": f.get("seed"), "size": f.get("size"),
            "session_input": session_text(md, [s for s, _, _ in steps]),
            "batch_program": "".join(s for s, _, b in steps if not b),
            "observed_transcript": out[-6000:]}


def _judge_steps(aldor, base, what, md, steps, timeout=75, retry=True):
    steps = [tuple(s) for s in steps]
    rc, out, err = run_loop(aldor, session_text(md, [s for s, _, _ in steps]), base, timeout, retry)
    out += err
    if what == "good":
        cls = judge_good(md, steps, rc, out)
        if cls is None and md == "quiet":
            b = run_batch(aldor, "".join(s for s, _, _ in steps), base)
            if b["status"] == "ok" and body_of(out, md) != b["out"]:
                cls = "session-differs-from-batch"
        return cls, out
    goods = [s for s in steps if not s[2]]
    rc2, out2, err2 = run_loop(aldor, session_text("quiet", [s for s, _, _ in goods]), base)
    gb = body_of(out2 + err2, "quiet")
    if gb is None or judge_good("quiet", goods, rc2, out2 + err2):
        return "good-forms-alone-fail: " + str(judge_good("quiet", goods, rc2, out2 + err2)), out2 + err2
    return judge_mixed(md, steps, rc, out, gb), out


def _judge_obj(aldor, o, base):
    return _judge_steps(aldor, base, o["what"], o["mode"], o["steps"])


def impure_names(steps):
    """Names of functions that (transitively) assign a global or print: textual fixpoint."""
    bodies = collections.defaultdict(str)
    for src, _, bad in steps:
        m = DEF_RE.match(src)
        if m and m.group(2) and not bad:
            bodies[m.group(2)] += src
    imp = {n for n, b in bodies.items() if re.search(r"\bfree\b|stdout|\bg\d+ :=", b)}
    changed = True
    while changed:
        changed = False
        for n, b in bodies.items():
            if n not in imp and any(x in imp for x in NAME_RE.findall(b)):
                imp.add(n)
                changed = True
    return imp


def shrink_session(aldor, base, cls, what, md, prog, steps, budget_s=60):
    """Delete steps (never header steps) while the same violation class persists.  Only deletions that
    cannot change what the remaining good forms print are tried, so the recorded expected outputs stay
    valid: an erroneous form; a function definition whose name no remaining step mentions; a global
    definition whose name no remaining step mentions and whose initial value neither assigns nor calls
    an impure function; a print statement with the same restriction."""
    t0 = time.time()
    nh = len(prog["hsteps"])
    cur = list(steps)
    imp = impure_names(cur)
    changed = True
    while changed and time.time() - t0 < budget_s:
        changed = False
        for i in range(len(cur) - 1, nh - 1, -1):
            if time.time() - t0 > budget_s:
                break
            src, exp, bad = cur[i]
            rest = cur[:i] + cur[i + 1:]
            if not bad and (re.search(r"; \S", src) or (ONE_LINE.match(src.replace("\n", " ", src.count("\n") - 1)) and src.count("\n") > 1)):
                continue                                  # a packed or split line: kept as it is
            if not bad:
                m = DEF_RE.match(src)
                d = (m.group(1) or m.group(2)) if m else None
                if d is not None and any(d in NAME_RE.findall(s) for s, _, _ in rest[nh:]):
                    continue
                effect = src.count(":=") > (1 if (m and m.group(1) and ":= " in src.split("\n")[0]) else 0) \
                    or any(x in imp for x in NAME_RE.findall(src))
                if m and m.group(2):
                    pass                                  # a function definition has no effect of its own
                elif m and m.group(1):
                    if effect:
                        continue
                elif src.startswith("stdout <<"):
                    if effect:
                        continue
                else:
                    continue
            if what == "mixed" and not any(b for _, _, b in rest):
                continue
            c2, _ = _judge_steps(aldor, base, what, md, rest, timeout=30, retry=False)
            if c2 == cls:
                cur = rest
                changed = True
    return cur


def replay(path):
    obj = json.load(open(path))
    o = obj.get("replay", obj)
    aldor = C.build_compiler()
    cls, out = _judge_obj(aldor, o, C.scratch("c13r"))
    print(o.get("session_input") or session_text(o["mode"], [s[0] for s in o["steps"]]))
    print("--- transcript\n%s" % out[-4000:])
    print("--- verdict: %s" % (cls or "as the property demands"))
    return 1 if cls else 0
