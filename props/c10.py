"""C10 -- The storage manager never hands out or reclaims live memory.

Stages (see tools/BUILDER_CONTRACT.md):
  1. generate coq/Gen/StoreParams.v from the CURRENT store.c (tables parsed from the
     source text, struct sizes / macro behaviour from a compiled probe that #includes store.c)
  2. proof stage: Props/Properties_C10.v (+ the abstract collector theorems
     Props/Properties_C09_model.v) re-checked by coqc
  3. correspondence: harness/store/h.c (#include "store.c" of the current tree) against the
     extracted model on the same operation histories; the independent property oracle
     (alignment, size, disjointness, byte patterns, prefix on resize, survival of rooted
     blocks, stoAudit after every step) runs on the raw addresses of EVERY harness result
  4. evidence
"""
import bisect, json, os, re, sys, time, concurrent.futures
from vlib import common as C

ID = "C10"
LEVEL = "proof"
MANIFEST = {
    "level_text": "Coq proof, for every operation history, that the allocator model keeps its invariant "
                  "(pieces tile their sections, free index = free pieces, busy blocks disjoint) and that "
                  "alloc/free/resize/recode/gc are sound on it; the model is tied to the current store.c by "
                  "regenerated size tables (Gen/StoreParams.v) and by running the extracted model against "
                  "store.c itself (placement, sizes, codes, freed sets compared step by step).",
    "level_note": "Trusted: Coq kernel, extraction (ExtrOcamlBasic), the C harness, gcc; btree.c is replaced in "
                  "the model by an abstract ordered map; page placement (pagesGet, OS) is an input of the model; "
                  "conservative scanning of stack/registers is outside the model (C09).",
    "technique": "Coq proof of the store model + correspondence (extracted OCaml vs C harness including the "
                 "current store.c) + independent address/pattern oracle",
    "design_ref": "DESIGN.md section 4 / C10",
}

REPO_FILES = ["btree.c", "memclim.c", "opsys.c", "util.c", "timer.c", "debug.c"]
GEN_V = os.path.join(C.COQ, "Gen", "StoreParams.v")

# ---------------------------------------------------------------- 1. generator

PROBE_C = r'''
#include "store.c"
#include <stddef.h>
int _dont_assert = 0;
void _do_assert(char *s, char *f, int l) { }
void bintFree(void *x) { }
int main(void)
{
	unsigned i; long d, slack = -1;
	printf("WordSize %ld\n", (long) sizeof(Pointer));
	printf("FixedSizeCount %ld\n", (long) FixedSizeCount);
	printf("fixedSize");
	for (i = 0; i < FixedSizeCount; i++) printf(" %ld", (long) fixedSize[i]);
	printf("\nfixedSizeLog");
	for (i = 0; i < sizeof(fixedSizeLog)/sizeof(fixedSizeLog[0]); i++) printf(" %d", fixedSizeLog[i]);
	printf("\nFixedSizeMax %ld\n", (long) FixedSizeMax);
	printf("DivTableCount %ld\n", (long) (sizeof(stoDivTable)/sizeof(stoDivTable[0])));
	printf("DivTableLen %ld\n", (long) (sizeof(stoDivTable[0])/sizeof(stoDivTable[0][0])));
	printf("LgPgSize %ld\nPgSize %ld\n", (long) LgPgSize, (long) PgSize);
	printf("FixedSizePgGroup %ld\nMixedSizePgGroup %ld\n", (long) FixedSizePgGroup, (long) MixedSizePgGroup);
	printf("MixedSizeQuantum %ld\n", (long) MixedSizeQuantum);
	for (d = 0; d < 65536 && slack < 0; d++)
		if (shdSplit1(1024 + d, 1024) && shdSplit2(1024 + d, 1024)) slack = d - 1;
	printf("SplitSlack %ld\n", slack);
	printf("SplitSame %d\n", (int) (shdSplit1(1024 + slack + 1, 1024) == shdSplit2(1024 + slack + 1, 1024)
		&& !shdSplit1(1024 + slack, 1024) && !shdSplit2(1024 + slack, 1024)
		&& shdSplit1(7 * 1024 + slack + 1, 7 * 1024) && !shdSplit2(7 * 1024 + slack, 7 * 1024)));
	printf("ShdBe %d\n", (int) (shdBe1(5000, 1024) == 1024 && shdBe2(5000, 1024) == 1024));
	printf("SectionHeadSize %ld\n", (long) SectionHeadSize);
	printf("SectionInfoOff %ld\n", (long) offsetof(Section, info));
	printf("QmInfoSize %ld\n", (long) sizeof(QmInfo));
	printf("MxMemHeadSize %ld\n", (long) MxMemHeadSize);
	printf("MxMemSize %ld\n", (long) sizeof(MxMem));
	printf("MxMemDataOff %ld\n", (long) offsetof(MxMem, body));
	printf("FxMemSize %ld\n", (long) sizeof(FxMem));
	printf("AlignMost %ld\n", (long) alignof(MostAlignedType));
	printf("QmCodeMask %ld\n", (long) QmCodeMask);
	printf("PgCountMax %ld\n", (long) ((1L << (8 * sizeof(((Section *) 0)->pgCount) - 1)) - 1));
	printf("QmSizeMax %ld\n", (long) ((1L << (8 * sizeof(((Section *) 0)->qmSize) - 1)) - 1));
	printf("QmKinds %d %d %d %d %d\n", QmFollow, QmFreeFirst, QmBusyFirst, QmMarkMask, QmKindMask);
	return 0;
}
'''


def _strip_comments(txt):
    return re.sub(r"/\*.*?\*/", " ", txt, flags=re.S)


def parse_tables(src_txt, word):
    """fixedSize[] / fixedSizeLog[] initialisers and the #define'd parameters, from the text."""
    t = _strip_comments(src_txt)
    out = {}

    def define(name):
        m = re.search(r"^\s*#\s*define\s+%s\s+(.+?)\s*$" % name, t, re.M)
        return m.group(1).strip() if m else None

    def ev(e, depth=0):
        e = e.strip()
        e = re.sub(r"sizeof\s*\(\s*Pointer\s*\)", str(word), e)
        e = re.sub(r"(\d+)[lLuU]+\b", r"\1", e)
        for _ in range(6):
            names = set(re.findall(r"[A-Za-z_]\w*", e))
            if not names:
                break
            for n in names:
                d = define(n)
                if d is None or depth > 8:
                    raise ValueError("cannot evaluate %r" % e)
                e = re.sub(r"\b%s\b" % n, "(" + d + ")", e)
            e = re.sub(r"sizeof\s*\(\s*Pointer\s*\)", str(word), e)
            e = re.sub(r"(\d+)[lLuU]+\b", r"\1", e)
        if not re.fullmatch(r"[\d\s()+\-*/<]+", e):
            raise ValueError("cannot evaluate %r" % e)
        return int(eval(e.replace("/", "//"), {"__builtins__": {}}))

    m = re.search(r"fixedSize\s*\[\s*\]\s*=\s*\{(.*?)\}\s*;", t, re.S)
    out["fixedSize"] = [ev(x) for x in m.group(1).split(",") if x.strip()]
    m = re.search(r"fixedSizeLog\s*\[\s*\]\s*=\s*\{(.*?)\}\s*;", t, re.S)
    out["fixedSizeLog"] = [ev(x) for x in m.group(1).split(",") if x.strip()]
    for n in ("LgPgSize", "PgSize", "FixedSizePgGroup", "MixedSizePgGroup", "FixedSizeMax", "MixedSizeQuantum"):
        out[n] = ev(define(n))
    return out


def parse_marker(src_txt):
    """The shape of stoGcMarkRange that the concrete marker model (Store/Model.v: step_back, cmark) follows.
    Returns (interior_max, depth_max, problems): -1 = no bound in the source.  A bound that appears in the
    source is surfaced as a parameter (the theorems mark_interior / mark_closure_complete are stated for the
    unbounded marker and stop checking); any other shape is reported as not modelled."""
    t = _strip_comments(src_txt)
    m = re.search(r"\nstoGcMarkRange\(Pointer \*lo, Pointer \*hi, int check\)\s*\{(.*?)\n\}\n", t, re.S)
    if not m:
        return -1, -1, ["stoGcMarkRange not found"]
    body = re.sub(r"\s+", " ", m.group(1))
    problems = []

    def value(name):
        if re.fullmatch(r"\d+", name):
            return int(name)
        d = re.search(r"^\s*#\s*define\s+%s\s+\(?\s*(\d+)\s*\)?\s*$" % re.escape(name), t, re.M)
        return int(d.group(1)) if d else None

    interior = -1
    if "while (QmInfoKind(qmtag) == QmFollow) qmtag = sect->info[--qmno];" not in body:
        mm = re.search(r"for \((\w+) = 0; QmInfoKind\(qmtag\) == QmFollow; \1\+\+\) \{ if \(\1 == (\w+)\) break; "
                       r"qmtag = sect->info\[--qmno\]; \} if \(QmInfoKind\(qmtag\) == QmFollow\) continue;", body)
        v = value(mm.group(2)) if mm else None
        if v is None:
            problems.append("stoGcMarkRange: the loop that steps back over follow-quanta has a shape that is not modelled")
        else:
            interior = v
    depth = -1
    if "if (ptrEQ(pp, hi-1)) {" not in body:
        mm = re.search(r"if \(ptrEQ\(pp, hi-1\) \|\| (\w+) == (\w+)\) \{", body)
        v = value(mm.group(2)) if mm else None
        ok = mm and re.search(r"%s\+\+; n \+= stoGcMarkRange\(plo, phi, \(int\) 0\); %s--;" % (mm.group(1), mm.group(1)), body)
        if v is None or not ok:
            problems.append("stoGcMarkRange: the descent into a marked object has a shape that is not modelled")
        else:
            depth = v
    for must in ("for (pp = lo; ptrLT(pp, hi0); pp = (Pointer *) ptrOff((char *) pp, alignof(Pointer)))",
                 "n += stoGcMarkRange(plo, phi, (int) 0);", "lo = plo; hi = phi; goto TailRecursion;",
                 "if (QmInfoMark(qmtag)) continue;", "if (QmInfoKind(qmtag) == QmFreeFirst) {"):
        if must not in body:
            problems.append("stoGcMarkRange no longer contains `%s'" % must)
    return interior, depth, problems


def run_probe():
    d = C.scratch("c10probe")
    pc = os.path.join(d, "probe.c")
    with open(pc, "w") as f:
        f.write(PROBE_C)
    objs = C.cc_objs(REPO_FILES, d + "/obj", (C.GUARD,))
    pobj = C.cc_objs([pc], d + "/pobj", (C.GUARD,))
    exe = d + "/probe"
    rc, out, err = C.run(["gcc", "-o", exe] + pobj + objs + ["-lm"], timeout=120)
    if rc != 0:
        raise C.BuildError("store probe link failed:\n" + err[-2000:])
    rc, out, err = C.run([exe], timeout=30)
    if rc != 0:
        raise C.BuildError("store probe failed rc=%d %s" % (rc, err[-500:]))
    vals = {}
    for line in out.splitlines():
        w = line.split()
        if w:
            vals[w[0]] = [int(x) for x in w[1:]]
    return vals


def params_text(pv, notes):
    def zl(l):
        return "[" + "; ".join(("(%d)" % x) if x < 0 else str(x) for x in l) + "]"
    word = pv["WordSize"][0]
    lg = word.bit_length() - 1
    lines = ["(* GENERATED by props/c10.py from %s/store.c -- do not edit, regenerated on every run *)" % "aldor/aldor/src"]
    for n in notes:
        lines.append("(* note: %s *)" % n)
    lines += ["Require Import ZArith List.", "Import ListNotations.", "Local Open Scope Z_scope.",
              "Definition WordSize : Z := %d." % word,
              "Definition LgWordSize : Z := %d." % lg,
              "Definition fixedSize : list Z := %s." % zl(pv["fixedSize"]),
              "Definition fixedSizeLog : list Z := %s." % zl(pv["fixedSizeLog"])]
    for n in ("FixedSizeMax", "DivTableCount", "LgPgSize", "PgSize", "FixedSizePgGroup", "MixedSizePgGroup",
              "MixedSizeQuantum", "SplitSlack", "SectionHeadSize", "SectionInfoOff", "QmInfoSize",
              "MxMemHeadSize", "MxMemSize", "FxMemSize", "AlignMost", "QmCodeMask", "DivTableLen",
              "GcInteriorMax", "GcMarkDepthMax",
              "PgCountMax", "QmSizeMax"):
        v = pv[n][0]
        lines.append("Definition %s : Z := %s." % (n, ("(%d)" % v) if v < 0 else str(v)))
    return "\n".join(lines) + "\n"


_gen_cache = {}


def generate():
    """Regenerate coq/Gen/StoreParams.v from the current store.c.  Returns (params, notes)."""
    if "r" in _gen_cache:
        return _gen_cache["r"]
    pv = run_probe()
    notes = []
    src = open(os.path.join(C.SRC, "store.c"), errors="replace").read()
    try:
        pt = parse_tables(src, pv["WordSize"][0])
        for k in ("fixedSize", "fixedSizeLog"):
            if pt[k] != pv[k]:
                notes.append("parsed %s %s differs from the compiled table %s: compiled values used" % (k, pt[k], pv[k]))
        for k in ("LgPgSize", "PgSize", "FixedSizePgGroup", "MixedSizePgGroup", "FixedSizeMax", "MixedSizeQuantum"):
            if pt[k] != pv[k][0]:
                notes.append("parsed %s=%s differs from compiled %s: compiled value used" % (k, pt[k], pv[k][0]))
    except Exception as e:          # the text no longer has the shape the parser knows
        notes.append("table parser failed (%s): compiled values used" % (str(e)[:80],))
    # the split rule must have the modelled shape  has > req + SplitSlack , keep exactly req
    unmodelled = []
    if pv["SplitSame"][0] != 1 or pv["SplitSlack"][0] < 0:
        unmodelled.append("shdSplit1/shdSplit2 are not of the form nhas > nreq + constant")
    if pv["ShdBe"][0] != 1:
        unmodelled.append("shdBe1/shdBe2 no longer return nreq")
    if pv["MxMemDataOff"][0] != pv["MxMemHeadSize"][0]:
        unmodelled.append("MxMem body offset differs from MxMemHeadSize")
    if pv["QmKinds"] != [0x00, 0x40, 0x80, 0x20, 0xC0]:
        unmodelled.append("QmInfo bit layout changed")
    gi, gd, probs = parse_marker(src)
    pv["GcInteriorMax"], pv["GcMarkDepthMax"] = [gi], [gd]
    unmodelled += probs
    if gi >= 0:
        notes.append("stoGcMarkRange gives up stepping back after %d quanta (parameter GcInteriorMax)" % gi)
    if gd >= 0:
        notes.append("stoGcMarkRange bounds the nesting of its calls at %d (parameter GcMarkDepthMax)" % gd)
    C.write_if_changed(GEN_V, params_text(pv, notes))
    _gen_cache["r"] = (pv, notes, unmodelled)
    return _gen_cache["r"]


# ---------------------------------------------------------------- scripts

def leaf_off(mode, j, tsz):
    """offset of the pointer the harness stores for leaf j (same rule as leafOff in harness/store/h.c)"""
    if mode == 0 or tsz == 0:
        return 0
    if mode == 1:
        return (j * 7) % tsz
    return tsz - 1


def pat_bytes(bid, gen, n):
    return [1 + ((i + bid * 7 + gen * 13) % 251) for i in range(n)]


def script_text(ops):
    return "".join(" ".join(str(x) for x in o) + "\n" for o in ops) + "q\n"


class GenState:
    """Bookkeeping of the script generator / sanitiser: which ids may still be referenced."""

    def __init__(self):
        self.live = {}          # id -> [req, version]
        self.ptrs = {}          # id -> {slot: (tid, tversion)}
        self.roots = {}         # slot -> (tid, tversion)
        self.stack = []
        self.ver = 0            # versions are never reused (an id may be)
        self.zombie = set()     # ids dropped by a collection: possibly still allocated, never reused

    def copy(self):
        g = GenState()
        g.live = {k: list(v) for k, v in self.live.items()}
        g.ptrs = {k: dict(v) for k, v in self.ptrs.items()}
        g.roots = dict(self.roots)
        g.ver = self.ver
        g.zombie = set(self.zombie)
        return g

    def reach(self):
        seen, work = set(), [t for (t, v) in self.roots.values() if t in self.live and self.live[t][1] == v]
        while work:
            b = work.pop()
            if b in seen:
                continue
            seen.add(b)
            for (t, v) in self.ptrs.get(b, {}).values():
                if t in self.live and self.live[t][1] == v and t not in seen:
                    work.append(t)
        return seen

    def apply(self, o, params):
        """Apply op o if it is valid in this state; return True when it may be sent."""
        k = o[0]
        if k == "a":
            if o[1] in self.live or o[1] in self.zombie or o[2] <= 0:
                return False
            self.ver += 1
            self.live[o[1]] = [o[2], self.ver]
            self.ptrs[o[1]] = {}
            return True
        if k == "f":
            if o[1] not in self.live:
                return False
            del self.live[o[1]]
            self.ptrs.pop(o[1], None)
            return True
        if k == "r":
            if o[1] not in self.live or o[2] <= 0:
                return False
            old = self.live[o[1]][0]
            keep = min(o[2], true_size(old, params))
            self.ver += 1
            self.live[o[1]] = [o[2], self.ver]
            self.ptrs[o[1]] = {s: v for s, v in self.ptrs[o[1]].items() if (s + 1) * 8 <= keep}
            return True
        if k == "c":
            return o[1] in self.live
        if k == "p":
            bid, slot, tid, off = o[1], o[2], o[3], o[4]
            if bid not in self.live:
                return False
            ts = true_size(self.live[bid][0], params)
            if slot < 2 or (slot + 1) * 8 > ts:
                return False
            if tid < 0:
                self.ptrs[bid].pop(slot, None)
                return True
            if tid not in self.live:
                return False
            if slot not in self.ptrs[bid] and len(self.ptrs[bid]) >= 4:
                return False
            tts = true_size(self.live[tid][0], params)
            if not (-(params["MxMemHeadSize"][0] if tts > params["FixedSizeMax"][0] else 0) <= off < tts):
                return False
            if 0 <= off:
                self.ptrs[bid][slot] = (tid, self.live[tid][1])
            else:
                self.ptrs[bid][slot] = (-2, 0)      # header pointer: retention allowed, not required
            return True
        if k == "R":
            slot, tid, off = o[1], o[2], o[3]
            if not (0 <= slot < 64):
                return False
            if tid < 0:
                self.roots.pop(slot, None)
                return True
            if tid not in self.live:
                return False
            tts = true_size(self.live[tid][0], params)
            if not (0 <= off < tts):
                return False
            self.roots[slot] = (tid, self.live[tid][1])
            return True
        if k == "g":
            r = self.reach()
            for b in list(self.live):
                if b not in r:
                    del self.live[b]
                    self.ptrs.pop(b, None)
                    self.zombie.add(b)
            return True
        if k == "(":
            self.stack.append(self.copy())
            return True
        if k == ")":
            if not self.stack:
                return False
            s = self.stack.pop()
            self.live, self.ptrs, self.roots, self.zombie = s.live, s.ptrs, s.roots, s.zombie
            return True
        return False


def true_size(n, params):
    fmax = params["FixedSizeMax"][0]
    if n <= fmax:
        for c in params["fixedSize"]:
            if n <= c:
                return c
        return fmax
    q, h = params["MixedSizeQuantum"][0], params["MxMemHeadSize"][0]
    return -(-(n + h) // q) * q - h


def sanitize(ops, params):
    g = GenState()
    out = []
    depth = 0
    for o in ops:
        if g.apply(o, params):
            out.append(o)
    # close unbalanced brackets
    depth = sum(1 for o in out if o[0] == "(") - sum(1 for o in out if o[0] == ")")
    out += [(")",)] * max(depth, 0)
    return out


def boundary_sizes(params):
    cls = params["fixedSize"]
    q, h, pg = params["MixedSizeQuantum"][0], params["MxMemHeadSize"][0], params["PgSize"][0]
    s = set()
    for c in cls:
        s |= {c - 1, c, c + 1}
    s |= {1, 2, 255, 256, 257}
    for k in (2, 3, 4, 8, 15, 16, 17, 31, 32, 33):
        s |= {k * q - h - 1, k * q - h, k * q - h + 1}
    s |= {pg - 1, pg, pg + 1, 2 * pg, 2 * pg + 1, 5 * pg - h, 16 * pg, 65536 - h, 65536}
    return sorted(x for x in s if x > 0)


def gen_random(rng, nsteps, params, gc_rate=0.03, big=True, maxlive=40):
    """Random valid history; sizes aimed at the class boundaries and the fixed/mixed boundary."""
    bs = boundary_sizes(params)
    small = [x for x in bs if x <= params["FixedSizeMax"][0] + 1]
    g = GenState()
    ops = []
    next_id = 0
    free_ids = []
    livebytes = 0
    while len(ops) < nsteps:
        r = rng.random()
        ids = list(g.live)
        o = None
        if r < 0.36 or not ids:
            if len(ids) >= maxlive:
                continue
            u = rng.random()
            if u < 0.45:
                n = rng.choice(small)
            elif u < 0.80:
                n = rng.choice(bs)
            elif u < 0.97:
                n = rng.randint(1, 6000)
            else:
                n = (1 << 20) if (big and rng.random() < 0.3) else rng.randint(6000, 70000)
            if n > 65536 and sum(1 for b in ids if g.live[b][0] > 65536) >= 1:
                n = rng.choice(small)
            if free_ids and rng.random() < 0.7:
                bid = free_ids.pop(rng.randrange(len(free_ids)))
            else:
                bid = next_id
                next_id += 1
            if bid >= 32000:
                break
            o = ("a", bid, n, rng.randint(0, 40))
        elif r < 0.60:
            bid = rng.choice(ids)
            o = ("f", bid)
        elif r < 0.72:
            bid = rng.choice(ids)
            u = rng.random()
            old = g.live[bid][0]
            if u < 0.3:
                n = rng.choice(bs)
            elif u < 0.6:
                n = max(1, old + rng.choice([-1, 1, -8, 8, -256, 256, 1, 0]))
            else:
                n = rng.randint(1, 3000)
            o = ("r", bid, n)
        elif r < 0.76:
            o = ("c", rng.choice(ids), rng.randint(0, 70))
        elif r < 0.86:
            bid = rng.choice(ids)
            ts = true_size(g.live[bid][0], params)
            if ts < 24:
                continue
            slot = rng.randint(2, min(ts // 8 - 1, 9))
            if rng.random() < 0.15:
                o = ("p", bid, slot, -1, 0)
            else:
                tid = rng.choice(ids)
                tts = true_size(g.live[tid][0], params)
                u = rng.random()
                if u < 0.5:
                    off = 0
                elif u < 0.9:
                    off = rng.randrange(tts)
                elif tts > params["FixedSizeMax"][0]:
                    off = -rng.randint(1, params["MxMemHeadSize"][0])
                else:
                    off = tts - 1
                o = ("p", bid, slot, tid, off)
        elif r < 0.97 - gc_rate:
            slot = rng.randrange(12)
            if rng.random() < 0.25:
                o = ("R", slot, -1, 0)
            else:
                tid = rng.choice(ids)
                tts = true_size(g.live[tid][0], params)
                u = rng.random()
                off = 0 if u < 0.5 else (tts - 1 if u < 0.6 else rng.randrange(tts))
                o = ("R", slot, tid, off)
        elif r < 1.0 - gc_rate:
            continue
        else:
            o = ("g",)
        if o is None:
            continue
        before = set(g.live)
        if g.apply(o, params):
            ops.append(o)
            if o[0] == "f":
                free_ids.append(o[1])
    return ops


def gen_auto_garbage(rng, sizes, k, nalloc, ring=512):
    """Automatic collection level with garbage: allocate blocks of the given sizes, keep 1 in k referenced from
    the root table (a ring of `ring` slots: the block pushed out of the ring becomes garbage too), drop the
    others without freeing them.  The allocator has to collect by itself, inside stoAlloc."""
    ops = [("L", 2)]
    slots = {}                  # slot -> id
    free_ids = list(range(ring + 8, -1, -1))
    nkept = 0
    for i in range(nalloc):
        bid = free_ids.pop()
        n = rng.choice(sizes)
        ops.append(("a", bid, n, rng.randint(0, 31)))
        if i % k == 0:
            slot = nkept % ring
            nkept += 1
            ts = n      # the offset stays inside the requested size
            off = 0 if rng.random() < 0.5 else rng.randrange(ts)
            ops.append(("R", slot, bid, off))
            old = slots.get(slot)
            slots[slot] = bid
            if old is not None:
                ops.append(("d", old))
                free_ids.append(old)
        else:
            ops.append(("d", bid))
            free_ids.append(bid)
    return ops


def sanitize_auto(ops):
    """Validity filter for the automatic-level streams (used while shrinking)."""
    live, roots, out = set(), {}, []
    for o in ops:
        k = o[0]
        if k == "L":
            out.append(o)
        elif k == "a":
            if o[1] in live:
                continue
            live.add(o[1]); out.append(o)
        elif k in ("d", "f"):
            if o[1] in live and o[1] not in roots.values():
                live.discard(o[1]); out.append(o)
        elif k == "R":
            if o[2] < 0:
                roots.pop(o[1], None); out.append(o)
            elif o[2] in live:
                roots[o[1]] = o[2]; out.append(o)
        elif k == "r":
            if o[1] in live:
                out.append(o)
        elif k == "K":
            live.update(range(o[1], o[1] + 2 * o[2])); out.append(o)
        elif k == "W":
            live.update(range(o[4], o[4] + o[2])); live.add(o[1]); out.append(o)
        elif k in ("g", "c"):
            out.append(o)
    return out


def split_excursions(ops, levels):
    """ops = sibling excursions '( op ... )'; returns chains '( op ( op ... ) )' that each follow one path
    for the first `levels` steps and contain the complete subtree below."""
    sibs, cur, d = [], [], 0
    for o in ops:
        cur.append(o)
        if o[0] == "(":
            d += 1
        elif o[0] == ")":
            d -= 1
            if d == 0:
                sibs.append(cur)
                cur = []
    if levels <= 1:
        return sibs
    res = []
    for t in sibs:
        head, inner, tail = t[:2], t[2:-1], t[-1:]
        if not inner:
            res.append(t)
            continue
        for c in split_excursions(inner, levels - 1):
            res.append(head + c + tail)
    return res


def gen_exhaustive(alphabet, depth, with_gc=True):
    """DFS over all histories of length <= depth with steps: alloc(one of the alphabet), free the oldest
    live block, free the newest live block, collect with nothing rooted.  Brackets = excursions."""
    ops = []
    count = [0]

    def rec(d, live, next_id):
        if d == depth:
            count[0] += 1
            return
        choices = [("a", next_id, n, 1) for n in alphabet]
        if live:
            choices.append(("f", live[0]))
            if len(live) > 1:
                choices.append(("f", live[-1]))
        if with_gc and live:
            choices.append(("g",))
        for c in choices:
            ops.append(("(",))
            ops.append(c)
            if c[0] == "a":
                rec(d + 1, live + [c[1]], next_id + 1)
            elif c[0] == "f":
                rec(d + 1, [x for x in live if x != c[1]], next_id)
            else:
                rec(d + 1, [], next_id)
            ops.append((")",))
    rec(0, [], 0)
    return ops, count[0]


# ---------------------------------------------------------------- running

class Tools:
    def __init__(self):
        self.harness = C.build_harness("store", "store/h.c", REPO_FILES, extra_cflags=("-D_GNU_SOURCE",))
        ml = os.path.join(C.COQ, "Store", "extracted", "store_model.ml")
        self.model = C.build_ocaml("store_drv", [ml + "i", ml], os.path.join(C.COQ, "Store", "driver.ml"))


def run_harness(tools, ops, timeout=600):
    rc, out, err = C.run(["/bin/sh", "-c", "ulimit -s unlimited 2>/dev/null; exec %s" % tools.harness],
                         input=script_text(ops), timeout=timeout)
    return rc, out.splitlines(), err


def run_model(tools, lines, timeout=600):
    env = dict(os.environ)
    rc, out, err = C.run(["/bin/sh", "-c", "ulimit -s unlimited 2>/dev/null; exec %s" % tools.model],
                         input="\n".join(lines) + "\n", timeout=timeout, env=env)
    return rc, out.splitlines(), err


KV = re.compile(r"(\w+)=(\S*)")


class Oracle:
    """Independent property oracle on the raw addresses returned by the implementation, and builder of the
    model's input (the script plus what the model takes as given: base pages of fresh sections, the
    canonical form of stored pointer values, blocks kept alive by the conservative scan)."""

    def __init__(self, params, use_model=True):
        self.p = params
        self.align = params["AlignMost"][0]
        self.blocks = {}        # id -> dict(raw, req, tsz, gen, canon=(s,o), ptrs={slot: rawval})
        self.starts = []        # sorted raw starts of live blocks
        self.by_start = {}      # raw -> id
        self.roots = {}         # slot -> (rawval, canon)
        self.viol = []          # (what, step)
        self.known = []         # (what, step, key): failures of a kind that has a stable key
        self.gclevel = None
        self.model_in = []      # model driver input lines
        self.expect = []        # expected canonical model output per model input line (None = ignore)
        self.stack = []
        self.stats = {"steps": 0, "alloc": 0, "free": 0, "resize": 0, "resize_moved": 0, "recode": 0,
                      "gc": 0, "gc_freed": 0, "gc_false_retained": 0, "sections": 0, "released": 0,
                      "setptr": 0, "setroot": 0, "fixed_alloc": 0, "mixed_alloc": 0, "branches": 0}
        self.sizes_seen = set()
        self.use_model = use_model
        self.bgc = None
        self.allocs_since_gc = 0
        self.intervals = []
        self.track_capacity = False
        self.origin = None      # raw address of the first page of the first section
        self.base_of = {}       # section ordinal -> base page

    # -- helpers
    def bad(self, what, step):
        if len(self.viol) < 50:
            self.viol.append((what, step))

    def overlap(self, raw, size, ignore=()):
        i = bisect.bisect_right(self.starts, raw)
        for j in (i - 1, i):
            if 0 <= j < len(self.starts):
                s = self.starts[j]
                bid = self.by_start[s]
                if bid in ignore:
                    continue
                b = self.blocks[bid]
                if s < raw + size and raw < s + max(b["tsz"], b["req"]):
                    return bid
        return None

    def add_block(self, bid, raw, req, tsz, canon, gen=0, ptrs=None):
        if self.origin is None and canon != (0, 0):
            self.origin = raw - canon[1] - self.base_of.get(canon[0], 0) * self.p["PgSize"][0]
        self.blocks[bid] = {"raw": raw, "req": req, "tsz": tsz, "gen": gen, "canon": canon,
                            "abs": raw - (self.origin or 0), "ptrs": ptrs or {}}
        bisect.insort(self.starts, raw)
        self.by_start[raw] = bid

    def del_block(self, bid):
        b = self.blocks.pop(bid)
        i = bisect.bisect_left(self.starts, b["raw"])
        if i < len(self.starts) and self.starts[i] == b["raw"]:
            self.starts.pop(i)
        self.by_start.pop(b["raw"], None)

    def block_of(self, v):
        i = bisect.bisect_right(self.starts, v) - 1
        if i >= 0:
            s = self.starts[i]
            b = self.blocks[self.by_start[s]]
            if s <= v < s + b["tsz"]:
                return self.by_start[s]
        return None

    def reach(self):
        seen = set()
        work = [v for (v, c) in self.roots.values()]
        while work:
            v = work.pop()
            bid = self.block_of(v)
            if bid is None or bid in seen:
                continue
            seen.add(bid)
            work.extend(self.blocks[bid]["ptrs"].values())
        return seen

    def common(self, kv, step, line):
        if kv.get("au") != "1":
            if self.gclevel == 0:
                # tagging is off after stoCtl(StoCtl_GcLevel, StoCtl_GcLevel_Never): the audit reads tags
                # that are no longer written
                if len(self.known) < 5:
                    self.known.append(("stoAudit fails once stoCtl(StoCtl_GcLevel, StoCtl_GcLevel_Never) has switched "
                                       "tagging off (%s)" % kv.get("auditmsg", "?"), step,
                                       "C10:audit-fails-with-gclevel-never"))
            else:
                self.bad("stoAudit failed after step (%s)" % kv.get("auditmsg", "?"), step)
        if kv.get("pat") != "1":
            self.bad("contents of live block changed: pat=%s" % kv.get("pat"), step)
        if kv.get("lost", "-1") != "-1":
            self.bad("live block %s is no longer allocated" % kv.get("lost"), step)
        # collections (explicit or run by the allocator itself) show as an increase of stoBytesGc
        bgc = kv.get("bgc")
        if bgc is not None:
            if self.bgc is not None and bgc != self.bgc:
                self.stats["collections_seen"] = self.stats.get("collections_seen", 0) + 1
                if self.track_capacity:
                    self.intervals.append(self.allocs_since_gc)
                    big = max(self.intervals[:-1] or [0])
                    if big >= 256 and self.allocs_since_gc * 16 < big:
                        self.bad("only %d allocations served between two collections run by the allocator "
                                 "(earlier: %d): free pieces are being lost" % (self.allocs_since_gc, big), step)
                self.allocs_since_gc = 0
            self.bgc = bgc

    def new_sections(self, canon_part):
        res = []
        for m in re.finditer(r"ns=(\d+):([FM]):(\d+):(\d+)@(-?\d+)", canon_part):
            res.append((int(m.group(1)), m.group(2), int(m.group(3)), int(m.group(4)), int(m.group(5))))
        return res

    # -- one harness line
    def feed(self, op, line, step):
        st = self.stats
        if line.startswith("X") or line.startswith("?"):
            self.bad("implementation failed: %s" % line[:200], step)
            return False
        if op[0] == "(":
            self.stack.append(({k: dict(v, ptrs=dict(v["ptrs"])) for k, v in self.blocks.items()},
                               list(self.starts), dict(self.by_start), dict(self.roots)))
            self.model_in.append("(")
            self.expect.append("(")
            st["branches"] += 1
            return True
        if op[0] == ")":
            self.blocks, self.starts, self.by_start, self.roots = self.stack.pop()
            self.model_in.append(")")
            self.expect.append(")")
            return True
        st["steps"] += 1
        canon, _, rawpart = line.partition(" | ")
        kv = dict(KV.findall(rawpart))
        ckv = dict(KV.findall(canon))
        self.common(kv, step, line)
        canon_cmp = re.sub(r"@-?\d+", "", canon).strip()
        ns = self.new_sections(canon)
        st["sections"] += len(ns)
        base = ns[0][4] if ns else 0
        for x in ns:
            self.base_of[x[0]] = x[4]
        k = op[0]
        if k == "a":
            st["alloc"] += 1
            self.allocs_since_gc += 1
            bid, n = op[1], op[2]
            self.sizes_seen.add(n)
            if " null" in canon:
                self.bad("stoAlloc(%d) returned NULL" % n, step)
                return False
            raw, tsz = int(kv["raw"], 16), int(ckv["z"])
            st["fixed_alloc" if n <= self.p["FixedSizeMax"][0] else "mixed_alloc"] += 1
            if raw % self.align:
                self.bad("block %#x for request %d is not %d-aligned" % (raw, n, self.align), step)
            if tsz < n:
                self.bad("block of %d bytes handed out for a request of %d" % (tsz, n), step)
            ov = self.overlap(raw, max(tsz, n))
            if ov is not None:
                self.bad("new block [%#x,+%d) overlaps live block %d" % (raw, max(tsz, n), ov), step)
            self.add_block(bid, raw, n, tsz, (int(ckv["s"]), int(ckv["o"])))
            self.model_in.append("a %d %d %d %d" % (bid, n, op[3], base))
            self.expect.append(canon_cmp)
            self.model_in.append("w %d %s" % (bid, " ".join(map(str, pat_bytes(bid, 0, min(16, tsz))))))
            self.expect.append(None)
        elif k == "f":
            st["free"] += 1
            self.del_block(op[1])
            self.model_in.append("f %d" % op[1])
            self.expect.append(canon_cmp)
        elif k == "r":
            st["resize"] += 1
            bid, n = op[1], op[2]
            self.sizes_seen.add(n)
            b = self.blocks[bid]
            if " null" in canon:
                self.bad("stoResize(%d) returned NULL" % n, step)
                return False
            raw, tsz = int(kv["raw"], 16), int(ckv["z"])
            keep = min(n, b["tsz"])
            if kv.get("prefix") != "-1":
                self.bad("resize %d -> %d lost the common prefix at byte %s" % (b["req"], n, kv.get("prefix")), step)
            if raw % self.align:
                self.bad("resized block %#x not aligned" % raw, step)
            if tsz < n:
                self.bad("resize handed out %d bytes for a request of %d" % (tsz, n), step)
            if raw != b["raw"]:
                st["resize_moved"] += 1
                ov = self.overlap(raw, max(tsz, n))       # old block still counts: alloc precedes free
                if ov is not None:
                    self.bad("resized block [%#x,+%d) overlaps live block %d" % (raw, max(tsz, n), ov), step)
            else:
                ov = self.overlap(raw, max(tsz, n), ignore=(bid,))
                if ov is not None:
                    self.bad("block resized in place overlaps live block %d" % ov, step)
            ptrs = {s: v for s, v in b["ptrs"].items() if (s + 1) * 8 <= keep}
            gen = b["gen"] + 1
            self.del_block(bid)
            self.add_block(bid, raw, n, tsz, (int(ckv["s"]), int(ckv["o"])), gen, ptrs)
            self.model_in.append("r %d %d %d" % (bid, n, base))
            self.expect.append(canon_cmp)
            if raw == b["raw"]:
                # resized in place: the harness (as owner) rewrites the block and drops the pointer words
                # beyond the new size; tell the model
                for sl in sorted(b["ptrs"]):
                    if sl not in ptrs:
                        self.model_in.append("p %d %d -" % (bid, sl))
                        self.expect.append("P %d %d" % (bid, sl))
            self.model_in.append("w %d %s" % (bid, " ".join(map(str, pat_bytes(bid, gen, min(16, tsz))))))
            self.expect.append(None)
        elif k == "c":
            st["recode"] += 1
            b = self.blocks[op[1]]
            if ckv.get("same") != "1" or int(ckv["z"]) != b["tsz"]:
                self.bad("recode changed more than the code: %s" % canon, step)
            if self.gclevel != 0 and int(ckv["c"]) != op[2] % (self.p["QmCodeMask"][0] + 1):
                self.bad("recode to %d reads back as %s" % (op[2], ckv["c"]), step)
            self.model_in.append("c %d %d" % (op[1], op[2]))
            self.expect.append(canon_cmp)
        elif k == "p":
            st["setptr"] += 1
            b = self.blocks[op[1]]
            if " skip" in canon:
                return True
            if " clear" in canon:
                b["ptrs"].pop(op[2], None)
                self.model_in.append("p %d %d -" % (op[1], op[2]))
            else:
                b["ptrs"][op[2]] = int(kv["raw"], 16)
                self.model_in.append("p %d %d %s" % (op[1], op[2], ckv["v"]))
            self.expect.append("P %d %d" % (op[1], op[2]))
        elif k == "R":
            st["setroot"] += 1
            if " clear" in canon:
                self.roots.pop(op[1], None)
            else:
                self.roots[op[1]] = (int(kv["raw"], 16), int(ckv["v"]))
        elif k == "g":
            st["gc"] += 1
            freed = [int(x) for x in ckv.get("freed", "").split(",") if x]
            rel = [x for x in ckv.get("rel", "").split(",") if x]
            st["gc_freed"] += len(freed)
            st["released"] += len(rel)
            r = self.reach()
            for bid in freed:
                if bid in r:
                    self.bad("collection freed block %d which is reachable from the registered roots" % bid, step)
            surv = [bid for bid in self.blocks if bid not in freed]
            false_ret = [bid for bid in surv if bid not in r]
            st["gc_false_retained"] += len(false_ret)
            roots = [c for (v, c) in self.roots.values()] + [self.blocks[b]["abs"] for b in false_ret]
            for bid in freed:
                if bid in self.blocks:
                    self.del_block(bid)
            self.model_in.append("g " + " ".join("%d" % c for c in roots))
            self.expect.append(canon_cmp)
        elif k == "d":
            if op[1] in self.blocks:
                self.del_block(op[1])
        elif k == "L":
            self.gclevel = op[1]
        elif k == "K":
            first, n, cellsz, leafsz, nslot, lslot, noff, lmode = op[1:9]
            if " null" in canon:
                self.bad("stoAlloc returned NULL while building a chain", step)
                return False
            bl = [(int(a, 16), int(z)) for a, z in (x.split(":") for x in kv["blocks"].split(";"))]
            for i in range(2 * n):
                raw, tsz = bl[i]
                req = cellsz if i < n else leafsz
                self.check_new(first + i, raw, req, tsz, step)
                self.add_block(first + i, raw, req, tsz, (0, 0))
            for i in range(n):
                lraw, ltsz = bl[n + i]
                pt = {lslot: lraw + leaf_off(lmode, i, ltsz)}
                if i + 1 < n:
                    pt[nslot] = bl[i + 1][0] + noff
                self.blocks[first + i]["ptrs"] = pt
            st["alloc"] += 2 * n
        elif k == "W":
            bid, n, leafsz, first, lmode = op[1:6]
            if " null" in canon:
                self.bad("stoAlloc returned NULL while building a fan-out", step)
                return False
            lv = [(int(a, 16), int(z)) for a, z in (x.split(":") for x in kv["leaves"].split(";"))]
            for i, (raw, tsz) in enumerate(lv):
                self.check_new(first + i, raw, leafsz, tsz, step)
                self.add_block(first + i, raw, leafsz, tsz, (0, 0))
            raw, tsz = [(int(a, 16), int(z)) for a, z in (x.split(":") for x in kv["blocks"].split(";"))][0]
            self.check_new(bid, raw, 8 * (n + 2), tsz, step)
            self.add_block(bid, raw, 8 * (n + 2), tsz, (0, 0),
                           ptrs={2 + j: lv[j][0] + leaf_off(lmode, j, lv[j][1]) for j in range(n)})
            st["alloc"] += n + 1
        return True

    def check_new(self, bid, raw, req, tsz, step):
        if raw % self.align:
            self.bad("block %#x for request %d is not %d-aligned" % (raw, req, self.align), step)
        if tsz < req:
            self.bad("block of %d bytes handed out for a request of %d" % (tsz, req), step)
        ov = self.overlap(raw, max(tsz, req))
        if ov is not None:
            self.bad("new block [%#x,+%d) overlaps live block %d" % (raw, max(tsz, req), ov), step)


def check_history(tools, params, ops, use_model=True, timeout=900, capacity=False):
    """Run one history through implementation, oracle and model.
    Returns dict(viol=[(what, step)], mismatch=None|(index, expected, got), stats, ...)."""
    rc, hl, err = run_harness(tools, ops, timeout)
    hl = [l for l in hl if l.strip() != ""]
    orc = Oracle(params, use_model)
    orc.track_capacity = capacity
    li, i, n = 0, 0, len(ops)
    aborted = False
    while i < n:
        o = ops[i]
        if li >= len(hl):
            orc.bad("implementation stopped after %d of %d steps (rc=%d %s)" % (i, n, rc, err[-200:]), i)
            aborted = True
            break
        line = hl[li]
        if line.startswith("X") or line.startswith("?"):
            orc.bad("implementation failed: %s" % line[:200], i)
            if not orc.stack:
                aborted = True
                break
            # a child died inside an excursion: skip to the end of that excursion
            depth = 0
            while i < n:
                if ops[i][0] == "(":
                    depth += 1
                elif ops[i][0] == ")":
                    if depth == 0:
                        break
                    depth -= 1
                i += 1
            while li < len(hl) and hl[li].strip() != ")":
                li += 1
            continue
        li += 1
        try:
            ok = orc.feed(o, line, i)
        except Exception as e:          # the transcript stopped making sense (after an earlier failure)
            if not orc.viol:
                orc.bad("implementation output cannot be interpreted at %r: %s" % (line[:120], repr(e)[:80]), i)
            ok = False
        if not ok:
            aborted = True
            break
        i += 1
    res = {"viol": orc.viol, "known": orc.known, "mismatch": None, "stats": orc.stats, "sizes": orc.sizes_seen,
           "hl": hl, "model_lines": 0, "intervals": orc.intervals}
    if use_model and not orc.viol:
        rc2, ml, err2 = run_model(tools, orc.model_in, timeout)
        res["model_lines"] = len(ml)
        if rc2 != 0:
            res["mismatch"] = (-1, "model driver rc=0", "rc=%d %s" % (rc2, err2[-300:]), "")
        else:
            for k, e in enumerate(orc.expect):
                got = ml[k].strip() if k < len(ml) else "<missing>"
                if e is None:
                    if "ERR" in got:
                        res["mismatch"] = (k, "W ok", got, orc.model_in[k])
                        break
                    continue
                if got != e:
                    res["mismatch"] = (k, e, got, orc.model_in[k])
                    break
    return res


def _san(ops, params, auto):
    return sanitize_auto(ops) if auto else sanitize(ops, params)


def failing(tools, params, ops, want, auto=False):
    """Does the (sanitised) history still show a failure of kind `want` ('viol' or 'mismatch')?"""
    ops = _san(ops, params, auto)
    if not ops:
        return False
    r = check_history(tools, params, ops, use_model=(want == "mismatch"), capacity=auto)
    if want == "known":
        return bool(r["known"])
    return bool(r["viol"]) if want == "viol" else (r["mismatch"] is not None and not r["viol"])


def shrink(tools, params, ops, want, budget=400, auto=False):
    """ddmin-like reduction of a failing history (ops referencing vanished blocks are dropped by the
    sanitiser), then size reduction."""
    ops = [o for o in _san(ops, params, auto)]
    # cut after the failing step first
    r = check_history(tools, params, ops, use_model=(want == "mismatch"), capacity=auto)
    if want == "viol" and r["viol"]:
        last = max(0, min(s for (_, s) in r["viol"]))
        ops = ops[:last + 1]
    if want == "known" and r["known"]:
        ops = ops[:min(x[1] for x in r["known"]) + 1]
    n = 2
    calls = 0
    while len(ops) >= 2 and calls < budget:
        chunk = max(1, len(ops) // n)
        reduced = False
        for i in range(0, len(ops), chunk):
            cand = ops[:i] + ops[i + chunk:]
            calls += 1
            if cand and failing(tools, params, cand, want, auto):
                ops = _san(cand, params, auto)
                n = max(n - 1, 2)
                reduced = True
                break
            if calls >= budget:
                break
        if not reduced:
            if chunk == 1:
                break
            n = min(len(ops), n * 2)
    return _san(ops, params, auto)


# ---------------------------------------------------------------- searcher for a broken proof

def searcher_factory(rep, state):
    def searcher(log):
        """The proof no longer checks (e.g. a regenerated size table breaks fixed_for_spec): look for a
        concrete history on which the property statement fails on the real code."""
        try:
            tools = state.get("tools") or Tools()
            state["tools"] = tools
        except C.BuildError as e:
            return
        params = state["params"]
        rng = C.rng("c10-searcher")
        targeted = []
        # every request size up to past the fixed/mixed boundary, twice (fresh + reused pieces)
        ops = []
        bid = 0
        for n in list(range(1, params["FixedSizeMax"][0] + 3)):
            ops.append(("a", bid, n, 1))
            ops.append(("a", bid + 1, n, 1))
            bid += 2
        targeted.append(ops)
        # interior pointers as only roots
        ops = []
        bid = 0
        for n in boundary_sizes(params):
            if n > 70000:
                continue
            ops.append(("a", bid, n, 1))
            ts = true_size(n, params)
            ops.append(("R", bid % 60, bid, ts - 1))
            bid += 1
            if bid % 50 == 0:
                ops.append(("g",))
        ops.append(("g",))
        targeted.append(ops)
        for i in range(6):
            targeted.append(gen_random(rng, 1500, params, gc_rate=0.05, big=False))
        targeted = [sanitize(o, params) for o in targeted]
        # the marker: interior pointers at the offsets of its constants, deep and wide structures
        targeted = [sanitize(o, params) for (nm, o) in targeted_histories(params) if nm in ("interior-far", "interior-offsets")] \
            + [o for (nm, o) in deep_histories(params, True)] + targeted
        for ops in targeted:
            r = check_history(tools, params, ops, use_model=False)
            if r["viol"]:
                deep = any(o[0] in ("K", "W") for o in ops)
                small = shrink(tools, params, ops, "viol", budget=(20 if deep else 150), auto=deep)
                r2 = check_history(tools, params, small, use_model=False)
                v = r2["viol"] or r["viol"]
                rep.violation("%s (found by the searcher after a proof obligation failed)" % v[0][0],
                              {"history": [list(o) for o in small], "what": v[0][0], "step": v[0][1],
                               "transcript": r2["hl"][-12:]},
                              key="C10:" + re.sub(r"0x[0-9a-f]+|\d+", "N", v[0][0])[:80])
                return
    return searcher


# ---------------------------------------------------------------- run

def report_known(rep, tools, params, ops, r, tag):
    """Failures of a kind that carries a stable key (a defect of the unchanged tree that is recorded or fixed
    by the lead): minimal history, reported under that key."""
    small = shrink(tools, params, ops, "known", budget=60, auto=True)
    r2 = check_history(tools, params, small, use_model=False)
    kn = r2["known"] or r["known"]
    rep.violation(kn[0][0], {"history": [list(o) for o in small], "what": kn[0][0], "step": kn[0][1],
                             "stream": tag, "transcript": r2["hl"][-6:]}, key=kn[0][2])


def report_failure(rep, tools, params, ops, r, tag):
    auto = tag.startswith("auto") or tag.startswith("deep") or tag.startswith("ctl")
    if r["viol"]:
        small = shrink(tools, params, ops, "viol", budget=(40 if auto else 400), auto=auto)
        r2 = check_history(tools, params, small, use_model=False, capacity=auto)
        v = r2["viol"] or r["viol"]
        if not r2["viol"]:
            small = ops[:max(s for (_, s) in r["viol"]) + 1]
        rep.violation(v[0][0], {"history": [list(o) for o in small], "what": v[0][0], "step": v[0][1],
                                "all": [w for (w, _) in v][:8], "stream": tag,
                                "transcript": (r2["hl"] if r2["viol"] else r["hl"])[-12:]},
                      key="C10:" + re.sub(r"0x[0-9a-f]+|\d+", "N", v[0][0])[:80])
        save_corpus(small, v[0][0])
        return
    if r["mismatch"]:
        small = shrink(tools, params, ops, "mismatch", budget=200)
        r2 = check_history(tools, params, small, use_model=True)
        mm = r2["mismatch"] or r["mismatch"]
        # searcher: the implementation still satisfies the property statement on this history (the oracle ran on
        # every step and found nothing), try harder around it before calling it model drift
        rng = C.rng("c10-mm")
        for i in range(10):
            ext = sanitize(list(small) + gen_random(rng, 400, params, gc_rate=0.06, big=False), params)
            r3 = check_history(tools, params, ext, use_model=False)
            if r3["viol"]:
                report_failure(rep, tools, params, ext, r3, tag + "+searcher")
                return
        rep.violation("correspondence store model no longer checks: expected %r, model says %r" % (mm[1], mm[2]),
                      {"history": [list(o) for o in small], "model_line": mm[0], "implementation": mm[1],
                       "model": mm[2], "stream": tag}, no_input=True)


def save_corpus(ops, what):
    d = os.path.join(C.VERIF, "corpus", ID)
    # corpus is written only by developers (VERIF_SAVE_CORPUS=1), never during a normal run
    if os.environ.get("VERIF_SAVE_CORPUS") != "1":
        return
    os.makedirs(d, exist_ok=True)
    import hashlib
    h = hashlib.sha1(json.dumps(ops).encode()).hexdigest()[:10]
    with open(os.path.join(d, h + ".json"), "w") as f:
        json.dump({"what": what, "history": [list(o) for o in ops]}, f)


def corpus_histories():
    d = os.path.join(C.VERIF, "corpus", ID)
    res = []
    if os.path.isdir(d):
        for fn in sorted(os.listdir(d)):
            if fn.endswith(".json"):
                try:
                    res.append((fn, [tuple(o) for o in json.load(open(os.path.join(d, fn)))["history"]]))
                except Exception:
                    pass
    return res


def targeted_histories(params):
    """Deterministic histories aimed at the case splits of the proofs."""
    hs = []
    fmax = params["FixedSizeMax"][0]
    # 1. every size 1..FixedSizeMax+2: class boundaries n-1, n, n+1 all included; then free all, allocate again
    ops, bid = [], 0
    for n in range(1, fmax + 3):
        ops.append(("a", bid, n, n % 32)); bid += 1
    for b in range(0, bid, 2):
        ops.append(("f", b))
    for n in range(1, fmax + 3, 3):
        ops.append(("a", bid, n, 7)); bid += 1
    ops.append(("g",))
    hs.append(("all-small-sizes", ops))
    # 2. boundary sizes incl. multi-page and 2^20, with resize between neighbours
    ops, bid = [], 0
    bs = boundary_sizes(params) + [1 << 20]
    for n in bs:
        ops.append(("a", bid, n, 3))
        ops.append(("R", bid % 60, bid, true_size(n, params) - 1))       # interior pointer is the only root
        bid += 1
        if bid % 40 == 0:
            ops.append(("g",))
    for i, n in enumerate(bs[:-1]):
        ops.append(("r", i, bs[i + 1] if bs[i + 1] < 70000 else 100))
    ops.append(("g",))
    for s in range(60):
        ops.append(("R", s, -1, 0))
    ops.append(("g",))
    hs.append(("boundary-sizes", ops))
    # 3. mixed pieces: split, merge with predecessor / successor / both, re-split
    ops, bid = [], 0
    for rep_ in range(3):
        first = bid
        for n in (300, 700, 300, 1200, 300, 257, 2000, 300):
            ops.append(("a", bid, n, 2)); bid += 1
        ops += [("f", first + 1), ("f", first + 3), ("f", first + 2),      # middle merges with both neighbours
                ("a", bid, 2100, 2)]; bid += 1
        ops += [("f", first + 5), ("f", first + 4), ("a", bid, 500, 2)]; bid += 1
        ops += [("f", first), ("a", bid, 260, 2)]; bid += 1
    ops.append(("g",))
    hs.append(("mixed-merge", ops))
    # 4. a block whose ONLY reference is an interior pointer at an offset aimed at the marker's constants
    #    (quantum, fixed-class limit, page size, 256 quanta = 64 KiB, ...), once from the root table and once
    #    from a word of another heap block
    q, pg, h = params["MixedSizeQuantum"][0], params["PgSize"][0], params["MxMemHeadSize"][0]
    ops, bid = [("a", 0, 64, 1), ("R", 1, 0, 0)], 1          # block 0: the holder, rooted in slot 1
    for n in [8, 24, 48, fmax, fmax + 1, 700, 3 * q - h, pg, 5000, 2 * pg + 1, 65536 - h, 70000, 300000]:
        ts = true_size(n, params)
        offs = {0, 1, 7, 8, ts // 2, ts - 8, ts - 1}
        for c in (q, fmax, pg, 2 * pg, 255 * q, 256 * q, 257 * q, 65536, 4 * 65536):
            offs |= {c - h - 1, c - h, c - h + 1, c - 1, c, c + 1}
        ops.append(("a", bid, n, 2))
        for off in sorted(o for o in offs if 0 <= o < ts):
            ops += [("R", 0, bid, off), ("g",)]                       # only the root table refers to it
            ops += [("R", 0, -1, 0), ("p", 0, 2, bid, off), ("g",)]     # only a word of block 0 refers to it
            ops.append(("p", 0, 2, -1, 0))
        ops += [("g",)]                                               # now nothing does: it goes
        bid += 1
    hs.append(("interior-offsets", ops))
    # 4b. the same for addresses far inside big pieces (more than 256 quanta from the piece header), with blocks
    #     that start on a fresh run of pages so that nothing else happens to point into them
    ops = [("a", 0, 64, 1), ("R", 1, 0, 0), ("a", 1, 57000, 2), ("R", 2, 1, 0), ("a", 2, 70000, 2), ("R", 3, 2, 0)]
    bid = 3
    for n in (300000, 140000, 1 << 20, 66000):
        ts = true_size(n, params)
        ops.append(("a", bid, n, 2))
        for off in sorted({257 * q - h, 257 * q - h + 1, 65536, 65793, 100000, 131072, 262144, 262145, ts // 2, ts - 1}):
            if 0 <= off < ts:
                ops += [("R", 0, bid, off), ("g",), ("R", 0, -1, 0), ("p", 0, 2, bid, off), ("g",), ("p", 0, 2, -1, 0)]
        ops.append(("g",))
        bid += 1
    hs.append(("interior-far", ops))
    # 5. a short chain built from single operations (compared with the model): next pointer in word 2,
    #    leaf pointer in a later word
    ops, n = [], 150
    for i in range(n):
        ops += [("a", i, 48, 3), ("a", n + i, 16, 4)]
    for i in range(n):
        if i + 1 < n:
            ops.append(("p", i, 2, i + 1, (i * 5) % 48))
        ops.append(("p", i, 4, n + i, (i * 3) % 16))
    ops += [("R", 0, 0, 0), ("g",), ("R", 0, 75, 0), ("g",), ("R", 0, -1, 0), ("g",)]
    hs.append(("small-chain", ops))
    return hs


def deep_histories(params, quick):
    """Oracle-checked histories with DEEP and WIDE reachability (built by the harness' macro operations):
    the marker has to follow every pointer of every object however deep it is."""
    hs = []
    n = 20000 if quick else 40000
    #        K first n cellsz leafsz nslot lslot noff lmode
    tail = [("R", 0, 0, 0), ("g",), ("a", 130000, 100, 1), ("g",), ("R", 0, -1, 0), ("g",)]
    hs.append(("chain-next-first", [("K", 0, n, 48, 16, 2, 4, 0, 1)] + tail))
    hs.append(("chain-leaf-first", [("K", 0, n, 48, 24, 3, 2, 5, 2)] + tail))
    hs.append(("chain-mixed-cells", [("K", 0, (18000 if quick else 30000), 300, 8, 2, 30, 0, 0)] + tail))
    if not quick:
        hs.append(("chain-big-leaves", [("K", 0, 17000, 32, 700, 2, 3, 31, 1)] + tail))
    #        W id n leafsz first lmode
    hs.append(("fan-out", [("W", 0, 100000 if quick else 120000, 16, 1, 1)] + tail))
    hs.append(("fan-out-mixed-leaves", [("W", 0, 20000, 300, 1, 2)] + tail))
    return hs


def never_history(rng, params, nsteps):
    """stoCtl(StoCtl_GcLevel, StoCtl_GcLevel_Never) is part of the interface: allocation, free, resize and
    recode with tagging switched off (no collections)."""
    ops = [("L", 0)]
    for o in gen_random(rng, nsteps, params, gc_rate=0.0, big=False, maxlive=30):
        if o[0] in ("a", "f", "r", "c"):
            ops.append(o)
    return ops


_W = None


def _work(item):
    tools, pv = _W
    tag, ops, use_model = item
    auto = tag.startswith("auto") or tag.startswith("deep") or tag.startswith("ctl")
    if auto:
        ops2 = ops           # already valid; the sanitiser's rules are for the explicit-collection streams
    else:
        ops2 = sanitize(ops, pv)
    t0 = time.time()
    r = check_history(tools, pv, ops2, use_model=use_model, capacity=tag.startswith("auto"))
    r = dict(r)
    r["elapsed"] = round(time.time() - t0, 1)
    r["hl"] = r["hl"][-15:]
    return tag, ops2, r


def run(rep, tier):
    t0 = time.time()
    pv, notes, unmodelled = generate()
    for n in notes:
        rep.notes.append("generator: " + n)
    state = {"params": pv}
    if unmodelled:
        rep.violation("store.c no longer has the shape the model covers: %s" % "; ".join(unmodelled),
                      {"unmodelled": unmodelled}, no_input=True)
    ok = C.proof_stage(rep, ID, ["Props/Properties_C10.vo", "Props/Properties_C09_model.vo", "Store/Extract.vo", "Store/Examples.vo"],
                       "Props/Properties_C10.v", searcher_factory(rep, state))
    if ok:
        res = C.check_props_file("Props/Properties_C09_model.v")
        if res["ok"]:
            rep.add_obligations(len(res["theorems"]), len(res["theorems"]))
            rep.add_cov(c09_model_theorems=res["theorems"], c09_model_axioms=res["assumptions"])
        else:
            rep.violation("abstract collector theorems (Properties_C09_model.v) no longer check",
                          {"log_tail": res["log"][-2000:]}, no_input=True)
    t_proof = time.time() - t0
    if not ok:
        return
    tools = state.get("tools") or Tools()
    quick = tier == "quick"
    streams = []
    for fn, ops in corpus_histories():
        # the concrete marker model scans every word of a marked piece: histories with pieces of more than
        # 4 MiB are checked by the oracle only
        huge = any(o[0] in ("a", "r") and o[2] > (1 << 22) for o in ops)
        streams.append(("corpus:" + fn, ops, not huge))
    for name, ops in targeted_histories(pv):
        streams.append(("targeted:" + name, ops, True))
    # exhaustive short histories, split over the first step so that they run in parallel
    alphabet = [8, 24, 256, 257, 700, 3000]
    depth = 6 if quick else 7
    ex_sets = [(alphabet, depth, True)]
    if not quick:
        # length 8 over a smaller alphabet, without collections (the tree grows as 6^8)
        ex_sets.append(([24, 257, 700, 3000], 8, False))
    ex_count = 0
    nex = 0
    for (alph, dep, wgc) in ex_sets:
        ex_ops, cnt = gen_exhaustive(alph, dep, with_gc=wgc)
        ex_count += cnt
        # split the first levels of excursions into separate processes
        tops = split_excursions(ex_ops, 2 if quick else 3)
        for t in tops:
            streams.append(("exhaustive:%d" % nex, t, True))
            nex += 1
    # random histories
    nrand, steps = (3, 3400) if quick else (10, 10000)
    for i in range(nrand):
        rng = C.rng("c10-rand-%d" % i)
        streams.append(("random:%d" % i, gen_random(rng, steps, pv, gc_rate=0.02 + 0.02 * (i % 3), big=(i == 0)), True))
    # automatic collection level: every live block rooted, the collector runs when it wants to
    rng = C.rng("c10-auto")
    auto = [("L", 2)]
    g = GenState()
    ops_auto = gen_random(rng, 1500 if quick else 6000, pv, gc_rate=0.0, big=False, maxlive=30)
    slot_of = {}
    for o in ops_auto:
        if o[0] in ("R", "g"):
            continue
        auto.append(o)
        if o[0] == "a":
            free_slots = [s for s in range(60) if s not in slot_of.values()]
            if free_slots:
                slot_of[o[1]] = free_slots[0]
                auto.append(("R", free_slots[0], o[1], 0))
        elif o[0] == "r" and o[1] in slot_of:
            auto.append(("R", slot_of[o[1]], o[1], 0))
        elif o[0] == "f" and o[1] in slot_of:
            auto.append(("R", slot_of.pop(o[1]), -1, 0))
    streams.append(("auto-gc", auto, False))
    for name, ops in deep_histories(pv, quick):
        streams.append(("deep:" + name, ops, False))
    streams.append(("ctl-never", never_history(C.rng("c10-never"), pv, 600 if quick else 4000), False))
    # automatic level WITH garbage: the allocator collects by itself inside stoAlloc and reclaims
    # unreferenced, never-freed pieces from pages that also hold live ones
    cls = pv["fixedSize"]
    if quick:
        plan = [([cls[1]], 2, 20000), ([cls[1]], 8, 42000), ([cls[2]], 2, 12000), ([cls[8]], 64, 10000),
                ([cls[-1]], 8, 7000), ([700], 8, 3500), ([3000, 300], 2, 1500),
                ([cls[0], cls[1], cls[4]], 8, 30000)]
    else:
        plan = []
        for ci, c in enumerate(cls):
            per16 = 16 * ((pv["PgSize"][0] - pv["SectionHeadSize"][0]) // (c + 1))
            plan.append(([c], (2, 8, 64)[ci % 3], 12 * per16))
            plan.append(([c - 1 if c > 1 else c], (8, 64, 2)[ci % 3], 12 * per16))
        plan += [([700], 8, 5000), ([700], 2, 3000), ([3000, 300], 2, 3000), ([257, 5000, 70000], 8, 2500),
                 (list(cls[:6]), 8, 40000), (list(cls), 64, 30000)]
    for gi, (szs, k, na) in enumerate(plan):
        rng = C.rng("c10-autogarbage-%d" % gi)
        streams.append(("auto-garbage:%d:sizes=%s:keep1in%d" % (gi, ",".join(map(str, szs)), k),
                        gen_auto_garbage(rng, szs, k, na), False))

    totals = {}
    slow = []
    knowns = {}
    auto_intervals = {}
    sizes = set()
    failures = []
    model_lines = 0
    nhist = 0

    global _W
    _W = (tools, pv)
    import multiprocessing
    ctx = multiprocessing.get_context("fork")
    with concurrent.futures.ProcessPoolExecutor(max(2, 2 * C.NCPU), mp_context=ctx) as ex:
        for tag, ops2, r in ex.map(_work, streams, chunksize=1):
            nhist += 1
            for k, v in r["stats"].items():
                totals[k] = totals.get(k, 0) + v
            sizes |= r["sizes"]
            model_lines += r["model_lines"]
            slow.append((r.get("elapsed", 0), tag))
            if tag.startswith("auto-garbage"):
                auto_intervals[tag] = r.get("intervals", [])[:12]
            if r["viol"] or r["mismatch"]:
                failures.append((tag, ops2, r))
            elif r.get("known"):
                knowns.setdefault(r["known"][0][2], (tag, ops2, r))
    for key_, (tag, ops2, r) in knowns.items():
        report_known(rep, tools, pv, ops2, r, tag)
    for tag, ops2, r in failures[:3]:
        report_failure(rep, tools, pv, ops2, r, tag)
    for tag, ops2, r in failures[3:]:
        rep.notes.append("further failing stream %s: %s" % (tag, (r["viol"] or [r["mismatch"]])[0]))

    cls = pv["fixedSize"]
    covered_bounds = sum(1 for c in cls if {c - 1, c, c + 1} <= sizes or (c == 1))
    rep.add_cov(evaluations=totals.get("steps", 0),
                distinct_nontrivial=len(sizes),
                rule="distinct request sizes exercised; evaluations = implementation steps each followed by stoAudit, "
                     "pattern verification of every live block and the address oracle",
                traces_validated_against_impl=model_lines,
                histories=nhist, exhaustive_histories=ex_count, exhaustive_depth=depth,
                exhaustive_alphabet=alphabet,
                class_boundaries_covered="%d/%d" % (covered_bounds, len(cls)),
                input_distribution=totals,
                samples=[script_text(sanitize(streams[len(corpus_histories())][1], pv)[:6]).replace("\n", "; ")],
                allocations_between_implicit_collections=auto_intervals,
                slowest_streams=sorted(slow, reverse=True)[:6],
                proof_stage_s=round(t_proof, 1))
    rep.assume(
        "extraction: ExtrOcamlBasic only; Z, positive and nat are the extracted inductive types",
        "harness/store/h.c (C, includes the current store.c) and its byte-pattern verifier are trusted; gcc -O0",
        "btree.c is not modelled: the free-piece index is an abstract ordered map size -> list (btree.c itself: C20)",
        "page placement (pagesGet/pagesFind/pagesAdd, osAlloc) is an input of the model: the harness reports the base "
        "page of every fresh section; only the order of bases is used",
        "collections are run at level StoCtl_GcLevel_Demand with a static root array; blocks kept alive only by "
        "the conservative scan of stack/static data (%d in this run) are passed to the model as additional roots; "
        "the conservative scan itself, blacklisting, census, STO_USER_CAN_TRACE tracers and pointer-free object "
        "codes are not modelled" % totals.get("gc_false_retained", 0),
        "QmInfo tags and nbytesPrev/isFirst/isLast flags are checked by stoAudit in the harness; in the model the tag "
        "array is the piece list itself",
    )


def replay(path):
    obj = json.load(open(path))
    rp = obj.get("replay", obj)
    hist = rp.get("history")
    if hist is None:
        print("replay file has no history (proof/tie failure: %s)" % obj.get("what"))
        return 1
    pv, notes, unmodelled = generate()
    tools = Tools()
    ops = [tuple(o) for o in hist]
    r = check_history(tools, pv, ops, use_model=False)
    for l in r["hl"][-15:]:
        print(l)
    for (w, s) in r["viol"]:
        print("VIOLATION at step %d: %s" % (s, w))
    return 1 if r["viol"] else 0
