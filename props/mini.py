"""Python side of the MiniAldor tool (tools/MINI_TOOL.md): the verified reference
semantics of the Aldor subset, used as the oracle by C01, C02, C03, C06, C09, C12, C13.

    exe = mini.build()                    # make + extract + ocamlopt (cached per process)
    progs = mini.gen(range(100), 12)      # list of dicts: seed,size,tries,typed,features,literals,
                                          #   nodes,src,result,expect_out,expect_status
    r = mini.run_interp(aldor, src, dir)  # (status_class, stdout, stderr, rc) via -ginterp
    r = mini.run_c(aldor, src, dir)       # same through the C back end + gcc + pre-built runtime
"""
import concurrent.futures, json, os, re, subprocess
from vlib import common as C

BACKTRACE = re.compile(r"#0 (?:0x)?[0-9a-f]+ in <[^>\n]*> at unit \[")
MINI_VO = ["Mini/Extract.vo"]
_exe = None


def build(rebuild_coq=True):
    """Build the tool from the extraction.  Returns the executable path."""
    global _exe
    if _exe:
        return _exe
    if rebuild_coq:
        ok, log = C.coq_make(MINI_VO)
        if not ok:
            raise C.BuildError("coq make of Mini/Extract.vo failed:\n" + log[-3000:])
    ex = C.COQ + "/Mini/extracted"
    _exe = C.build_ocaml("mini", [ex + "/mini.mli", ex + "/mini.ml"], C.COQ + "/Mini/driver.ml")
    return _exe


def batch(lines, chunk=None, timeout=900):
    """Run tool commands (one per line) in parallel worker processes; results in order."""
    exe = build()
    lines = list(lines)
    if not lines:
        return []
    n = min(C.NCPU, len(lines))
    chunks = [lines[i::n] for i in range(n)]

    def one(ls):
        rc, out, err = C.run([exe], input="\n".join(ls) + "\n", timeout=timeout)
        if rc != 0:
            raise RuntimeError("mini tool failed rc=%d: %s" % (rc, err[-500:]))
        return [json.loads(l) for l in out.splitlines() if l.strip()]
    with concurrent.futures.ThreadPoolExecutor(n) as ex:
        res = list(ex.map(one, chunks))
    out = [None] * len(lines)
    for i, r in enumerate(res):
        if len(r) != len(chunks[i]):
            raise RuntimeError("mini tool: %d answers for %d commands" % (len(r), len(chunks[i])))
        for j, x in enumerate(r):
            out[i + j * n] = x
    return out


def gen(seeds, size):
    """gen(seeds, size) -> list of dicts (one per seed, same order)."""
    return batch(["gen %d %d" % (s, size) for s in seeds])


# ------------------------------------------------------------------ running programs

def status_class(rc):
    """Exit status class: the language definition only distinguishes normal termination
    from termination by an error."""
    return "ok" if rc == 0 else "fail"


def _write(d, name, src):
    os.makedirs(d, exist_ok=True)
    p = os.path.join(d, name + ".as")
    with open(p, "w") as f:
        f.write(src)
    return p


def run_interp(aldor, src, d, name="p", extra=(), timeout=60):
    """Compile + interpret with the compiler built from the current tree."""
    _write(d, name, src)
    rc, out, err = C.run(C.aldor_base_args(aldor) + list(extra) + ["-ginterp", name + ".as"],
                         cwd=d, env=C.aldor_env(), timeout=timeout)
    if rc != 0:
        # the interpreter appends its own call-stack dump to stdout when a program ends by an
        # unhandled exception ("#0 0x.. in <error> at unit [sal_string]" ...): not program output
        out = BACKTRACE.split(out)[0]
    return {"route": "interp", "rc": rc, "status": status_class(rc), "out": out, "err": err}


def c_route_args(aldor, name, extra=()):
    """DESIGN section 10: C back end, gcc through unicl, link against the runtime.  The
    quick tier links the PRE-BUILT libaldor.a / libfoam.a of /repo (C.RB)."""
    RB = C.RB
    return C.aldor_base_args(aldor) + list(extra) + [
        "-Ccc=%s/aldor/subcmd/unitools/unicl" % RB, "-Y%s/aldor/lib/libfoam" % RB, "-laldor",
        "-Cargs=-Wconfig=%s/aldor/src/aldor.conf -I%s/aldor/src" % (RB, RB),
        "-fc", "-fx=%s.exe" % name, name + ".as"]


def run_c(aldor, src, d, name="p", extra=(), timeout=120):
    _write(d, name, src)
    rc, out, err = C.run(c_route_args(aldor, name, extra), cwd=d, env=C.aldor_env(), timeout=timeout)
    if rc != 0 or not os.path.exists(os.path.join(d, name + ".exe")):
        return {"route": "c", "rc": rc, "status": "compile-error", "out": out, "err": err}
    rc, out2, err2 = C.run([os.path.join(d, name + ".exe")], cwd=d, env=C.aldor_env(), timeout=timeout)
    return {"route": "c", "rc": rc, "status": status_class(rc), "out": out2, "err": err2,
            "compile_out": out}


# ------------------------------------------------------------------ shrinking

def shrink_query(seed, size, paths):
    """Programs reached from gen(seed,size) along candidate-index paths (lists of ints)."""
    return batch(["shrink %d %d %s" % (seed, size, ",".join(map(str, p)) if p else "-") for p in paths])


def shrink(seed, size, still_fails, max_steps=400, log=None, budget_s=600, start_path=()):
    """Greedy model-level shrinking.  `still_fails(prog_dict) -> bool` runs the real
    implementation.  Candidates are produced by the Coq function Shrink.cands; only
    candidates the model accepts (typecheck = true, result = done) are tried.
    Returns (path, prog_dict) of the smallest failing program found."""
    import time
    t0 = time.time()
    path = list(start_path)
    cur = shrink_query(seed, size, [path])[0]
    start = 0
    for step in range(max_steps):
        n = cur.get("ncands", 0)
        found = None
        CH = 4 * C.NCPU
        # candidates are scanned from the position of the last success (the list of the new
        # program is the old one minus the reduced part), wrapping around
        order = list(range(min(start, n), n)) + list(range(0, min(start, n)))
        for lo in range(0, n, CH):
            if time.time() - t0 > budget_s:
                break
            idx = order[lo:lo + CH]
            qs = shrink_query(seed, size, [path + [j] for j in idx])
            ok = [(j, q) for j, q in zip(idx, qs)
                  if q.get("typed") is True and q.get("result") == "done"]
            if not ok:
                continue
            with concurrent.futures.ThreadPoolExecutor(C.NCPU) as ex:
                flags = list(ex.map(lambda jq: still_fails(jq[1]), ok))
            for (j, q), f in zip(ok, flags):
                if f:
                    found = (j, q)
                    break
            if found:
                break
        if not found:
            break
        path.append(found[0])
        start = found[0]
        cur = found[1]
        if log:
            log("shrink step %d: nodes=%s path=%s" % (step, cur.get("nodes"), path))
    return path, cur


# ------------------------------------------------------------------ mutants (C06) and forms (C13)

def mutants(seeds, size, max_per_kind=5):
    """For each seed: dict with the well-typed base program (fields as gen()), `sites`
    ({kind: {candidates, eligible}}) and `mutants`: list of dicts kind, site, src (whole
    ill-typed program), fault_form (index of the top-level form holding the fault),
    line_lo/line_hi (its 1-based line range in src), bad_form (its text alone).
    Kinds: wrong-argument-type, wrong-arity, undefined-name, ambiguous-overload,
    assign-to-constant, wrong-return-type.  Every mutant is ill-typed by the model's rules
    (Coq: mutant_ill_typed)."""
    return batch(["mutants %d %d %d" % (s, size, max_per_kind) for s in seeds])


def forms(seeds, size):
    """For each seed: dict with `header` (the #include/import lines), `forms`: list of
    {src, expect_out} (top-level forms in file order with the text each prints), plus the
    fields of gen() for the whole program (src == header + concatenation of the forms)."""
    return batch(["forms %d %d" % (s, size) for s in seeds])


def compile_only(aldor, src, d, name="p", extra=("-fao",), timeout=60):
    """Run the compiler without executing (for accept / reject decisions).  Returns rc, out,
    err and the list of output files left behind."""
    _write(d, name, src)
    rc, out, err = C.run(C.aldor_base_args(aldor) + list(extra) + [name + ".as"],
                         cwd=d, env=C.aldor_env(), timeout=timeout)
    left = sorted(f for f in os.listdir(d) if f.startswith(name + ".") and not f.endswith(".as"))
    return {"rc": rc, "out": out, "err": err, "files": left}
