"""C15 - Diagnostics point at the right file, line and column.

Model: coq/SrcPos/Model.v (srcpos.c packing + global line table + the call
sequence of include.c).  Theorems: coq/Props/Properties_C15.v.
Tie: (1) constants regenerated from srcpos.c on every run; (2) correspondence of
the extracted model with /repo's current srcpos.c on op scripts; (3) end-to-end
runs of the compiler built from the current tree, which are also the property's
own oracle (inserted lines, included file, #line, long lines).
"""
import json, os, re, subprocess
from vlib import common as C

LEVEL = "proof"
MANIFEST = {
    "level_text": "Coq theorems over the model of srcpos.c/include.c line accounting: for EVERY source structure "
                  "(any nesting of #include, #line, skipped lines; any number of lines below 2^48) the position logged "
                  "for a line resolves to that line's true file and line number, inserting k lines shifts later lines "
                  "of the same file by exactly k and nothing else, packed positions keep line/column/macro bit apart "
                  "for every 64-bit word and every offset (column saturates at 16383). The model is tied to the code "
                  "by regenerated bit-width constants, by running the extracted model against the current srcpos.c on "
                  "boundary-aimed scripts, and by end-to-end diagnostics of the rebuilt compiler compared with the "
                  "independent line/column oracle.",
    "level_note": "Trusted: Coq kernel; extraction (ExtrOcamlBasic only) + driver.ml; harness/srcpos/h.c; the python "
                  "oracle that numbers lines of generated sources. Modelled not verified: srcpos.c, the sposNew/"
                  "sposGrowGloLineTbl call sequence of include.c. Not modelled: which token the type checker blames, "
                  "source excerpt printing, comsg sorting. Theorem hypotheses exclude a file that includes itself, a "
                  "#line naming a file further up the include stack and an included file consisting only of skipped "
                  "lines (searched by runs only).",
    "technique": "Coq proof (invariant over include/#line histories, refinement to an independent line-numbering spec) "
                 "+ regenerated constants + extracted-model-vs-C correspondence + end-to-end diagnostic oracle",
}

PROPS = "Props/Properties_C15.v"
TARGETS = ["Props/Properties_C15.vo", "SrcPos/Extract.vo"]


# ------------------------------------------------------------------ translator
def generate():
    src = open(C.SRC + "/srcpos.c").read()
    vals = {}
    for name in ("STK", "MAC", "CNO"):
        m = re.search(r"#\s*define\s+SPOS_%s_NBITS\s*\(\s*(\d+)\s*\)" % name, src)
        if not m:
            raise C.BuildError("srcpos.c: SPOS_%s_NBITS not found / not a literal" % name)
        vals[name] = int(m.group(1))
    m = re.search(r"#\s*define\s+SPOS_LNO_NBITS\s*\\\s*\n\s*\(bitsizeof\(ULong\) - SPOS_CNO_NBITS - SPOS_MAC_NBITS - SPOS_STK_NBITS\)", src)
    if not m:
        raise C.BuildError("srcpos.c: SPOS_LNO_NBITS is no longer word - cno - mac - stk")
    # ULong width from a probe compiled against the current headers
    d = C.scratch("c15probe")
    open(d + "/p.c", "w").write('#include "axlgen.h"\n#include <stdio.h>\nint main(){printf("%d\\n",(int)(sizeof(ULong)*8));return 0;}\n')
    rc, out, err = C.run(["gcc", "-w", "-std=c99"] + C.DEFS + ["-I", C.SRC, d + "/p.c", "-o", d + "/p"])
    if rc != 0:
        raise C.BuildError("probe: " + err[-500:])
    word = int(C.run([d + "/p"])[1])
    txt = ("(* GENERATED from %s/srcpos.c on every run - do not edit *)\nFrom Coq Require Import ZArith.\n"
           "Definition word_nbits : Z := %d%%Z.\nDefinition stk_nbits : Z := %d%%Z.\n"
           "Definition mac_nbits : Z := %d%%Z.\nDefinition cno_nbits : Z := %d%%Z.\n"
           % ("<repo>/aldor/aldor/src", word, vals["STK"], vals["MAC"], vals["CNO"]))
    C.write_if_changed(C.COQ + "/Gen/SrcPosParams.v", txt)
    return dict(word=word, **vals)


# ------------------------------------------------------------------ helpers
def b(n):
    return ("-" if n < 0 else "") + bin(abs(n))[2:]


def run_both(cexe, mexe, ops):
    """ops: list of (name, ints...). Returns (c_results, m_results) as lists of str/int."""
    ctext = "\n".join(" ".join([o[0]] + [str(x) for x in o[1:]]) for o in ops) + "\n"
    mtext = "\n".join(" ".join([o[0]] + [b(x) for x in o[1:]]) for o in ops) + "\n"
    rc1, out1, err1 = C.run([cexe], input=ctext, timeout=120)
    rc2, out2, err2 = C.run([mexe], input=mtext, timeout=120)
    cres = out1.split()
    mres = [x if x in ("ok", "?") else str(int(x, 2)) for x in out2.split()]
    return rc1, cres, rc2, mres


def boundary_words(rnd, P):
    cno, word = P["CNO"], P["word"]
    lsh = 1 + cno
    ws = set()
    for l in (0, 1, 2, 3, 100, 65535, 65536, 70000, 2 ** 31, 2 ** (word - lsh - 1) - 1, 2 ** (word - lsh - 1) - 2):
        for c in (0, 1, 2, 100, 2 ** cno - 2, 2 ** cno - 1):
            for m in (0, 1):
                ws.add((l << lsh) | (c << 1) | m)
    for _ in range(60):
        ws.add(rnd.getrandbits(word))
        ws.add(rnd.getrandbits(word - 1))
    return sorted(ws)


# ------------------------------------------------------------------ table histories
def gen_items(rnd, depth, stack, clash=False):
    """Random source structure (clash=True: file names drawn from one tiny pool, so the
    hypotheses of the theorem - no self-include, no #line naming an outer file - are
    often violated; such histories are only compared model-vs-C, not against the oracle); returns list of items. item = ('L',) | ('S',) | ('H', n, fn) | ('I', fn, body)."""
    n = rnd.choice([0, 1, 2, 3, 5, 8, 13])
    items = []
    for _ in range(n):
        r = rnd.random()
        if r < 0.55:
            items.append(("L",))
        elif r < 0.65 and items and items[-1][0] != "S":
            items.append(("S",))
        elif r < 0.65:
            items.append(("L",))
        elif r < 0.8:
            fn = 0 if rnd.random() < 0.5 else (rnd.randrange(1, 5) if clash else rnd.randrange(100 + 40 * depth, 120 + 40 * depth))
            items.append(("H", rnd.choice([1, 2, 7, 100, 5000, 70000]), fn))
        elif depth < 3:
            fn = rnd.randrange(1, 5) if clash else rnd.randrange(10 + 10 * depth, 20 + 10 * depth)
            while fn in stack and not clash:
                fn += 1000
            body = gen_items(rnd, depth + 1, stack + [fn], clash)
            if body and all(i[0] == "S" for i in body) and not clash:
                body.append(("L",))
            items.append(("I", fn, body))
        else:
            items.append(("L",))
    return items


def items_to_ops(items, f0):
    """Replays what include.c does (do_line/do_skip/do_hashline/enter/leave of the
    model) as raw sposNew / grow calls, and computes INDEPENDENTLY the true
    (file, line) of every logged line (simple physical numbering)."""
    ops, truth = [], []          # truth[i] = (index of the 'new' op, file, line)
    st = {"serial": 0}

    def walk(items, cur, ln):
        for it in items:
            if it[0] == "L":
                ln += 1
                st["serial"] += 1
                ops.append(("new", cur, ln, st["serial"], 1))
                truth.append((len(ops) - 1, cur, ln))
            elif it[0] == "S":
                ln += 1
                st["serial"] += 1
            elif it[0] == "H":
                st["serial"] += 1
                if it[2]:
                    cur = it[2]
                ln = it[1] - 1
                ops.append(("grow", cur, ln, st["serial"]))
            else:
                ln += 1
                st["serial"] += 1
                ops.append(("new", cur, ln, st["serial"], 1))
                truth.append((len(ops) - 1, cur, ln))
                walk(it[2], it[1], 0)
        return cur, ln
    walk(items, f0, 0)
    return ops, truth


# ------------------------------------------------------------------ end to end
HEAD = '#include "aldor"\n'


def parse_diags(text):
    """-> list of (file, line, L, C, msg)"""
    res = []
    cur = None
    for ln in text.split("\n"):
        m = re.match(r'^"([^"]+)", line (\d+): ', ln)
        if m:
            cur = (m.group(1), int(m.group(2)))
            continue
        m = re.match(r"^\[L(\d+) C(\d+)\] #\d+ \((Error|Warning|Fatal Error)\) (.*)$", ln)
        if m and m.group(3) != "Warning":
            L = int(m.group(1))
            hdr = cur if (cur and cur[1] == L) else None     # the excerpt header is only printed when the line can be read
            res.append((hdr[0] if hdr else None, L, L, int(m.group(2)), m.group(4)))
    return res


def e2e_case(rnd, k, mode, col, where):
    """Builds a source with 3 undefined names; the k filler lines go before the
    second one.  Returns (files dict, expected list of (file, line, col, ident))."""
    fill_kind = rnd.choice(["blank", "comment", "spaces", "mixed"])

    def filler(i):
        if fill_kind == "blank":
            return ""
        if fill_kind == "comment":
            return "-- filler %d" % i
        if fill_kind == "spaces":
            return "   "
        return ["", "-- c", "\t", "  -- x"][i % 4]
    pad = " " * col
    body = ["a0: MachineInteger := 1;", "%sa1: MachineInteger := undefOne;" % "  "]
    body += [filler(i) for i in range(k)]
    body += ["%sa2: MachineInteger := undefTwo;" % pad, "a3: MachineInteger := undefThree;"]
    exp = []

    def cols(line, ident):
        return line.index(ident) + 1
    files = {}
    if mode == "same":
        lines = [HEAD.strip()] + body
        files["main.as"] = "\n".join(lines) + "\n"
        for i, l in enumerate(lines):
            for ident in ("undefOne", "undefTwo", "undefThree"):
                if ident in l:
                    exp.append(("main.as", i + 1, cols(l, ident), ident))
    elif mode == "include":
        pre = rnd.randrange(0, 4)
        lines = [HEAD.strip()] + ["-- pre %d" % i for i in range(pre)] + ['#include "inc.as"', "z9: MachineInteger := undefAfter;"]
        files["main.as"] = "\n".join(lines) + "\n"
        files["inc.as"] = "\n".join(body) + "\n"
        for i, l in enumerate(body):
            for ident in ("undefOne", "undefTwo", "undefThree"):
                if ident in l:
                    exp.append(("inc.as", i + 1, cols(l, ident), ident))
        exp.append(("main.as", len(lines), cols(lines[-1], "undefAfter"), "undefAfter"))
    elif mode == "cond":
        # conditional directives: text in a skipped branch (junk, directives, nested conditionals) must not disturb the
        # positions reported inside the branch that IS taken (#if / #elseif / #else) nor after the #endif
        j = rnd.choice([1, 2, 5, 40])
        junk = lambda n: [rnd.choice(["skipped ) junk (", "", '#include "nonexistent.as"', "#line 7", "-- skipped note",
                                      "#if NeverInner", "#endif"][:5]) for _ in range(n)]
        nested = ["#if NeverInner", "inner junk", "#else", "more junk", "#endif"] if rnd.random() < 0.5 else []
        taken = rnd.choice(["elseif", "else", "if", "elseif-last"])
        lines = [HEAD.strip(), "#assert Yes", body[0]]
        if taken == "elseif":
            lines += ["#if NeverA"] + junk(j) + nested + ["#elseif Yes", body[1], "#else"] + junk(2) + ["#endif"]
        elif taken == "elseif-last":
            lines += ["#if NeverA"] + junk(j) + ["#elseif NeverB"] + junk(j) + nested + ["#elseif Yes", body[1], "#endif"]
        elif taken == "else":
            lines += ["#if NeverA"] + junk(j) + nested + ["#else", body[1], "#endif"]
        else:
            lines += ["#if Yes", body[1], "#else"] + junk(j) + nested + ["#endif"]
        lines += body[2:2 + k] + [body[2 + k]]
        lines += ["#if NeverC"] + junk(j) + ["#elseif Yes", body[3 + k], "#endif"]
        files["main.as"] = "\n".join(lines) + "\n"
        for i, l in enumerate(lines):
            for ident in ("undefOne", "undefTwo", "undefThree"):
                if ident in l:
                    exp.append(("main.as", i + 1, cols(l, ident), ident))
    else:  # #line renumbering, with or without a file name
        base = rnd.choice([10, 500, 40000])
        named = mode == "hashline-file"
        lines = [HEAD.strip(), body[0], '#line %d%s' % (base, ' "virt.as"' if named else "")] + body[1:]
        files["main.as"] = "\n".join(lines) + "\n"
        if named:   # the compiler re-reads the named file to print the excerpt
            files["virt.as"] = "\n".join("-- virt %d" % i for i in range(1, base + len(body) + 5)) + "\n"
        for i, l in enumerate(body[1:]):
            for ident in ("undefOne", "undefTwo", "undefThree"):
                if ident in l:
                    exp.append(("virt.as" if named else "main.as", base + i, cols(l, ident), ident))
    return files, exp


def run_e2e(rep, tier, P):
    exe = C.build_compiler()
    rnd = C.rng("c15-e2e")
    CNO_MAX = 2 ** P["CNO"] - 1
    ks = [0, 1, 2, 100, 16383, 16384] + ([70000] if tier == "thorough" else [20000])
    modes = ["same", "include", "hashline", "hashline-file", "cond"]
    cases = []
    for mode in modes:
        for k in ks:
            cases.append((k, mode, rnd.choice([0, 3, 40])))
    for _ in range(12 if tier == "quick" else 60):      # every taken-branch variant several times
        cases.append((rnd.choice([0, 1, 3]), "cond", rnd.choice([0, 3])))
    for col in (100, 16000, 16381, 16382, 16383, 16384, 17045, 19990):
        cases.append((rnd.choice([0, 3]), "same", col))
        if tier == "thorough":
            cases.append((rnd.choice([0, 3]), "include", col))
    if tier == "thorough":
        for _ in range(60):
            cases.append((rnd.choice([0, 1, 5, 1000, 65535, 65536, 70000]), rnd.choice(modes), rnd.choice([0, 7, 200, 16390])))
    work = C.scratch("c15e2e")
    jobs = []
    for i, (k, mode, col) in enumerate(cases):
        d = "%s/c%d" % (work, i)
        os.makedirs(d)
        files, exp = e2e_case(rnd, k, mode, col, None)
        for fn, tx in files.items():
            open(d + "/" + fn, "w").write(tx)
        jobs.append((d, k, mode, col, exp))

    def one(j):
        d = j[0]
        rc, out, err = C.run(C.aldor_base_args(exe) + ["-Mno-emax", "main.as"], cwd=d, env=C.aldor_env(), timeout=120)
        return j, rc, out + err
    import concurrent.futures
    n_ok = 0
    samples = []
    with concurrent.futures.ThreadPoolExecutor(C.NCPU) as ex:
        for (d, k, mode, col, exp), rc, text in ex.map(one, jobs):
            got = parse_diags(text)
            got_by_ident = {}
            for g in got:
                m = re.search(r"identifier `(\w+)'", g[4])
                if m:
                    got_by_ident[m.group(1)] = g
            desc = {"k": k, "mode": mode, "col": col}
            bad = None
            if rc == 0:
                bad = "exit status 0 although errors were expected"
            for (f, line, c, ident) in exp:
                g = got_by_ident.get(ident)
                if g is None:
                    bad = "no diagnostic for %s" % ident
                    break
                want_c = min(c, CNO_MAX)
                if g[2] != line or (g[0] is not None and g[0] != f):
                    bad = "%s reported at %s:%s [L%s] expected %s:%s" % (ident, g[0], g[1], g[2], f, line)
                    break
                if g[3] != want_c:
                    bad = "%s reported column C%s expected C%s" % (ident, g[3], want_c)
                    break
                if c > CNO_MAX:
                    rep.violation("column %d reported as %d (column field saturates)" % (c, g[3]),
                                  dict(desc, ident=ident), key="srcpos:column-saturates-at-16383")
            if bad:
                files = {fn: (open(d + "/" + fn).read() if os.path.getsize(d + "/" + fn) < 4000 else "<%d bytes>" % os.path.getsize(d + "/" + fn)) for fn in os.listdir(d) if fn.endswith(".as")}
                rep.violation("diagnostic position wrong: " + bad,
                              dict(desc, expected=exp, got=got[:6], files=files, cmd="aldor -Mno-emax main.as"),
                              key="e2e:%s" % bad.split(" reported")[0] if False else None)
            else:
                n_ok += 1
            if len(samples) < 4:
                samples.append(dict(desc, expected=exp[:2], got=[list(g[:4]) for g in got[:2]]))
    rep.add_cov(e2e_cases=len(jobs), e2e_ok=n_ok, e2e_samples=samples)
    sweep_line_lengths(rep, tier, exe, work)
    return len(jobs)


def sweep_line_lengths(rep, tier, exe, work):
    """Every physical line length in a dense range (and around every power of two up to 2^16): a comment line of
    exactly that length stands before an erroneous line; a reader that mishandles one particular length (buffer
    boundaries) glues or splits lines and every later line number is off."""
    import concurrent.futures
    dense = 4300 if tier == "quick" else 12000
    special = sorted({v for k in range(9, 17) for v in (2 ** k - 2, 2 ** k - 1, 2 ** k, 2 ** k + 1)} | {20000, 69999})
    chunks = [list(range(a, min(a + 430, dense))) for a in range(0, dense, 430)] + [special]
    jobs = []
    for ci, lens in enumerate(chunks):
        d = "%s/len%d" % (work, ci)
        os.makedirs(d)
        lines = [HEAD.strip()]
        exp = []
        for j, L in enumerate(lens):
            # a comment line of exactly L characters (L < 2: blank / single blank), then an erroneous line
            lines.append("" if L == 0 else (" " if L == 1 else "--" + "x" * (L - 2)))
            lines.append("q%d: MachineInteger := undefLen%d;" % (j, L))
            exp.append((len(lines), "undefLen%d" % L, L))
        open(d + "/main.as", "w").write("\n".join(lines) + "\n")
        jobs.append((d, exp))

    def one(j):
        d, exp = j
        rc, out, err = C.run(C.aldor_base_args(exe) + ["-Mno-emax", "main.as"], cwd=d, env=C.aldor_env(), timeout=300)
        return j, rc, out + err
    n = 0
    with concurrent.futures.ThreadPoolExecutor(C.NCPU) as ex:
        for (d, exp), rc, text in ex.map(one, jobs):
            got = {}
            for g in parse_diags(text):
                m = re.search(r"identifier `(\w+)'", g[4])
                if m:
                    got[m.group(1)] = g
            for line, ident, L in exp:
                n += 1
                g = got.get(ident)
                if g is None or g[2] != line:
                    rep.violation("after a physical line of exactly %d characters the next line's diagnostic is %s, expected line %d"
                                  % (L, ("reported at line %d column %d" % (g[2], g[3])) if g else "missing", line),
                                  {"line_length": L, "expected_line": line, "got": list(g[:4]) if g else None,
                                   "how": "comment line of that length directly before `qN: MachineInteger := undefLen<L>;`",
                                   "cmd": "aldor -Mno-emax main.as"})
                    break
    rep.add_cov(line_lengths_swept=n)


# ------------------------------------------------------------------ the real call sequence of include.c
def gen_src(rnd, depth, stack, counter):
    """source structure with render text: ('L', text) | ('S', text) | ('H', n, fn) | ('I', fn, body)"""
    items = []
    for _ in range(rnd.choice([1, 2, 3, 5, 8])):
        r = rnd.random()
        counter[0] += 1
        if r < 0.45:
            items.append(("L", rnd.choice(["v%d: MachineInteger := %d;" % (counter[0], counter[0]), "", "-- note", "   ",
                                           "#assert Prop%d" % counter[0], "\tw%d := 0;" % counter[0]])))
        elif r < 0.6:
            items.append(("L", "#if NeverAsserted%d" % counter[0]))
            for _ in range(rnd.choice([1, 2, 4])):
                items.append(("S", rnd.choice(["skipped junk ) (", "", "#include \"nonexistent.as\"", "#line 5"])))
            if rnd.random() < 0.4:
                items.append(("L", "#else"))
                items.append(("L", "e%d: MachineInteger := 0;" % counter[0]))
            items.append(("L", "#endif"))
        elif r < 0.75:
            fn = 0 if rnd.random() < 0.5 else rnd.randrange(100 + 40 * depth, 120 + 40 * depth)
            items.append(("H", rnd.choice([1, 2, 7, 100, 5000, 70000]), fn))
        elif depth < 3:
            fn = rnd.randrange(10 + 10 * depth, 20 + 10 * depth)
            while fn in stack or fn in counter[1]:
                fn += 1000
            counter[1].add(fn)
            items.append(("I", fn, gen_src(rnd, depth + 1, stack + [fn], counter)))
        else:
            items.append(("L", ""))
    return items


def render_src(items, d, fid):
    lines = []
    for it in items:
        if it[0] in ("L", "S"):
            lines.append(it[1])
        elif it[0] == "H":
            lines.append('#line %d "f%d.as"' % (it[1], it[2]) if it[2] else "#line %d" % it[1])
        else:
            lines.append('#include "f%d.as"' % it[1])
            render_src(it[2], d, it[1])
    open("%s/f%d.as" % (d, fid), "w").write("\n".join(lines) + "\n")


def run_calls(rep, tier, P):
    """Tie for the include.c half of the model: the calls the REAL compiler makes into the line table
    (sposNew / sposGrowGloLineTbl, observed through a linker --wrap hook) on rendered sources with
    #include / #line / #if structure must be exactly the calls the model's run makes."""
    import concurrent.futures
    exe = C.build_wrapped_compiler("srcpos/hook.c", ["sposNew", "sposGrowGloLineTbl"])
    rnd = C.rng("c15-calls")
    work = C.scratch("c15calls")
    n = 40 if tier == "quick" else 600
    jobs = []
    for i in range(n):
        items = gen_src(rnd, 0, [1], [0, set()])
        d = "%s/s%d" % (work, i)
        os.makedirs(d)
        render_src(items, d, 1)
        jobs.append((i, d, items))

    def one(j):
        i, d, items = j
        env = C.aldor_env()
        env["VERIF_SPOS_LOG"] = d + "/log"
        rc, o, e = C.run(C.aldor_base_args(exe) + ["-Fap", "f1.as"], cwd=d, env=env, timeout=120)
        try:
            log = open(d + "/log").read().split("\n")
        except OSError:
            log = []
        return j, rc, log, (o + e)
    nops = 0
    bad = 0
    with concurrent.futures.ThreadPoolExecutor(C.NCPU) as ex:
        for (i, d, items), rc, log, text in ex.map(one, jobs):
            plain = [(it[0],) if it[0] in ("L", "S") else it for it in strip_text(items)]
            want, _truth = items_to_ops(plain, 1)
            got = []
            for l in log:
                w = l.split()
                if not w:
                    continue
                fid = int(w[1][1:]) if w[1].startswith("f") and w[1][1:].isdigit() else -1
                if w[0] == "new":
                    got.append(("new", fid, int(w[2]), int(w[3]), int(w[4])))
                else:
                    got.append(("grow", fid, int(w[2]), int(w[3])))
            nops += len(got)
            if got != want:
                bad += 1
                k = next((x for x in range(min(len(got), len(want))) if got[x] != want[x]), min(len(got), len(want)))
                files = {f: open(d + "/" + f).read() for f in sorted(os.listdir(d)) if f.endswith(".as")}
                rep.violation("correspondence include.c -> line table no longer checks: call %d is %s in the compiler, %s in the model"
                              % (k, got[k] if k < len(got) else None, want[k] if k < len(want) else None),
                              {"files": files, "compiler_calls": got[:60], "model_calls": want[:60], "rc": rc,
                               "cmd": "aldor(-Wl,--wrap=sposNew,...) -Fap f1.as"}, no_input=True)
                if bad >= 3:
                    break
    rep.add_cov(call_sequences_compared=len(jobs), calls_compared=nops)
    rep.add_cov(traces_validated_against_impl=len(jobs))


def strip_text(items):
    out = []
    for it in items:
        if it[0] in ("L", "S"):
            out.append((it[0],))
        elif it[0] == "H":
            out.append(it)
        else:
            out.append(("I", it[1], strip_text(it[2])))
    return out


# ------------------------------------------------------------------ metamorphic: any diagnostics shift with inserted lines
FAULTY = [
    # (name, lines)  - several error kinds: undefined name, argument type, arity, syntax; piled and braced
    ("types", ['#include "aldor"', 'import from MachineInteger, String;', 'a0: MachineInteger := 1;',
               '  a1: MachineInteger := a0 + "str";', 'f(x: MachineInteger): MachineInteger == x;',
               '   a2: MachineInteger := f(a0, a0);', 'a3: MachineInteger := nowhere;', 'g(s: String): String == s;',
               '\ta4: String := g(a0);']),
    ("syntax", ['#include "aldor"', 'import from MachineInteger;', 'b0: MachineInteger := 1;', '', '-- a comment',
                'b1: MachineInteger := (b0 + ;', 'b2: MachineInteger := 3;']),
    ("pile", ['#include "aldor"', '#pile', 'import from MachineInteger', 'h(x: MachineInteger): MachineInteger ==',
              '    y := x + undefinedA', '    z := y * undefinedB', '    z', 'c0: MachineInteger := h(1, 2)']),
    ("func", ['#include "aldor"', 'import from MachineInteger, Boolean;', 'k(x: MachineInteger): Boolean == {',
              '   x > 0 => x;', '   missing(x);', '   false', '}', 'c1: Boolean := k(true);']),
]


def run_meta(rep, tier, P):
    """For arbitrary diagnostics (whatever token the compiler blames): inserting k code-free lines at line p
    moves exactly the diagnostics at lines >= p by k and changes nothing else."""
    import concurrent.futures
    exe = C.build_compiler()
    rnd = C.rng("c15-meta")
    work = C.scratch("c15meta")
    ks = [1, 3, 100, 16383, 16384, 65535, 65536] + ([70000] if tier == "thorough" else [])
    jobs = []
    for name, lines in FAULTY:
        pts = list(range(1, len(lines) + 1))          # insert BEFORE line index pt (1-based), never before the #include/#pile header
        pts = [q for q in pts if q >= (3 if lines[1].startswith("#pile") else 2)]
        chosen = pts if tier == "thorough" else rnd.sample(pts, min(3, len(pts)))
        jobs.append((name, lines, 0, 0, ""))
        for q in chosen:
            for k in (ks if tier == "thorough" else rnd.sample(ks, 3)):
                fill = rnd.choice(["", "-- filler", "   ", "\t-- x"])
                if lines[1].startswith("#pile") and fill.strip() == "":
                    fill = ""                          # blank lines are fine in a pile
                jobs.append((name, lines, q, k, fill))

    def one(j):
        name, lines, q, k, fill = j
        d = "%s/%s_%d_%d" % (work, name, q, k)
        os.makedirs(d, exist_ok=True)
        out = lines[:q - 1] + [fill] * k + lines[q - 1:] if k else lines
        open(d + "/m.as", "w").write("\n".join(out) + "\n")
        rc, o, e = C.run(C.aldor_base_args(exe) + ["-Mno-emax", "m.as"], cwd=d, env=C.aldor_env(), timeout=300)
        diags = [(g[2], g[3], g[4]) for g in parse_diags(o + e)]
        return j, rc, diags
    base = {}
    res = []
    with concurrent.futures.ThreadPoolExecutor(C.NCPU) as ex:
        for j, rc, diags in ex.map(one, jobs):
            if j[3] == 0:
                base[j[0]] = (rc, diags)
            else:
                res.append((j, rc, diags))
    n_ok = 0
    CNO_MAX = 2 ** P["CNO"] - 1
    for (name, lines, q, k, fill), rc, diags in res:
        brc, bd = base[name]
        want = [((L + k) if L >= q else L, c, m) for (L, c, m) in bd]
        if not bd:
            rep.notes.append("metamorphic template %s printed no diagnostics" % name)
            continue
        if diags != want or (rc == 0) != (brc == 0):
            rep.violation("inserting %d code-free lines before line %d of template '%s' changed the diagnostics other than by "
                          "shifting line numbers: expected %s got %s" % (k, q, name, want[:4], diags[:4]),
                          {"template": name, "lines": lines, "insert_before_line": q, "k": k, "filler": fill,
                           "base": bd, "expected": want, "got": diags, "cmd": "aldor -Mno-emax m.as"})
        else:
            n_ok += 1
    rep.add_cov(meta_cases=len(res), meta_ok=n_ok,
                meta_templates={n: len(base[n][1]) for n in base})
    return len(res)


# ------------------------------------------------------------------ main
def run(rep, tier):
    P = generate()
    rep.add_cov(generated_params=P)

    def searcher(log):
        # a broken obligation: look for a packed word / offset on which the implementation
        # mixes line and column (the property's statement on positions)
        try:
            corr(rep, tier, P, only_oracle=True)
        except Exception as e:       # searcher must not hide the failure
            rep.notes.append("searcher error: %r" % e)
    ok = C.proof_stage(rep, "C15", TARGETS, PROPS, searcher)
    if ok:
        corr(rep, tier, P)
    run_e2e(rep, tier, P)
    run_meta(rep, tier, P)
    run_calls(rep, tier, P)
    rep.assume("harness/srcpos/hook.c (linker --wrap) reports the compiler's calls into srcpos.c faithfully","extraction: ExtrOcamlBasic only; driver.ml converts binary strings to Z by constructors only",
               "harness/srcpos/h.c links the current srcpos.c with libgen/libport sources of the current tree",
               "python numbering oracle for generated sources (physical line counting, #line arithmetic)",
               "not modelled: token blame choice, excerpt printing, message sorting")


def corr(rep, tier, P, only_oracle=False):
    rnd = C.rng("c15-corr")
    files = C.makefile_am_sources("libgen_a_SOURCES") + C.makefile_am_sources("libport_a_SOURCES")
    cexe = C.build_harness("srcpos", "srcpos/h.c", files)
    mexe = None
    if not only_oracle:
        mexe = C.build_ocaml("srcposm", [C.COQ + "/SrcPos/extracted/srcpos.mli", C.COQ + "/SrcPos/extracted/srcpos.ml"],
                             C.COQ + "/SrcPos/driver.ml")
    cno, word = P["CNO"], P["word"]
    lsh = 1 + cno
    LNO_MASK = (2 ** (word - lsh - 1) - 1)
    # ---- (a) packing ops
    ws = boundary_words(rnd, P)
    offs = [0, 1, 2, -1, -2, 5, 100, 2 ** cno - 2, 2 ** cno - 1, 2 ** cno, 2 ** cno + 1, 17045, 20000, -20000,
            2 ** 31 - 1, -2 ** 31]
    ops = []
    for w in ws:
        ops += [("char", w), ("gline", w), ("mac", w), ("setmac", w)]
        for c in offs:
            ops.append(("offset", w, c))
    for _ in range(300):
        ops.append(("cmp", rnd.choice(ws), rnd.choice(ws)))
    n_eval = len(ops)
    rc1, cres, rc2, mres = run_both(cexe, mexe or cexe, ops) if mexe else (0, C.run([cexe], input="\n".join(" ".join(str(x) for x in o) for o in ops) + "\n")[1].split(), 0, None)
    # property oracle on the implementation (independent of the model)
    for o, r in zip(ops, cres):
        if o[0] == "offset":
            w, c = o[1], o[2]
            r = int(r)
            line_in, line_out = (w >> lsh) & LNO_MASK, (r >> lsh) & LNO_MASK
            col_in, col_out = (w >> 1) & (2 ** cno - 1), (r >> 1) & (2 ** cno - 1)
            want = max(0, min(2 ** cno - 1, col_in + c))
            if line_in != line_out or (w & 1) != (r & 1):
                rep.violation("sposOffset changes the line number or macro bit: word %d offset %d -> %d (line %d -> %d)"
                              % (w, c, r, line_in, line_out), {"op": list(o), "result": r}, key=None)
            elif col_out != want and not (col_in + c > 2 ** cno - 1):
                rep.violation("sposOffset column wrong: word %d offset %d -> column %d expected %d" % (w, c, col_out, want),
                              {"op": list(o), "result": r})
    if mexe and (cres != mres):
        for o, x, y in zip(ops, cres, mres):
            if x != y:
                rep.violation("correspondence srcpos packing no longer checks: %s C=%s model=%s" % (list(o), x, y),
                              {"op": list(o), "c": x, "model": y}, no_input=True)
                break
    # ---- (b) table histories
    nhist = 150 if tier == "quick" else 3000
    nt = 0
    samples = []
    for h in range(nhist):
        clash = (h % 4 == 3)
        items = gen_items(rnd, 0, [1], clash)
        tops, truth = items_to_ops(items, 1)
        if not truth:
            continue
        script = [("reset",)] + tops
        q = []
        # positions are only known after running: two passes - first get positions from C
        rc, out, err = C.run([cexe], input="\n".join(" ".join(str(x) for x in o) for o in script) + "\n", timeout=60)
        res = out.split()[1:]
        pos = {i: int(res[i]) for (i, f, ln) in truth}
        for (i, f, ln) in truth:
            q += [("line", pos[i]), ("file", pos[i]), ("char", pos[i])]
        full = script + q
        if mexe:
            rc1, cres, rc2, mres = run_both(cexe, mexe, full)
        else:
            cres = C.run([cexe], input="\n".join(" ".join(str(x) for x in o) for o in full) + "\n", timeout=60)[1].split()
            mres = None
        n_eval += len(full)
        nt += 1
        ans = cres[len(script):]
        for j, (i, f, ln) in enumerate(truth):
            gl, gf, gc = int(ans[3 * j]), int(ans[3 * j + 1]), int(ans[3 * j + 2])
            if (gl, gf, gc) != (ln, f, 1) and not clash:
                rep.violation("line table lookup wrong: position of line %d of file %d resolves to line %d of file %d col %d"
                              % (ln, f, gl, gf, gc), {"items": items, "ops": [list(o) for o in full][:200]})
                break
        if mexe and cres != mres:
            rep.violation("correspondence srcpos table no longer checks", {"items": items, "c": cres[:50], "model": mres[:50]},
                          no_input=True)
            break
        if len(samples) < 3:
            samples.append({"items": items, "lines_checked": len(truth)})
    rep.add_cov(evaluations=n_eval, distinct_nontrivial=len(ws) * len(offs) + nt,
                rule="packing: boundary words x boundary offsets (each distinct pair counts); table: random include/#line/skip "
                     "structures up to depth 3, each history with >= 1 logged line counts once",
                traces_validated_against_impl=nt + 1, samples=samples,
                input_distribution={"packing_words": len(ws), "offsets": len(offs), "table_histories": nt})


def replay(path):
    r = json.load(open(path))
    print(json.dumps(r, indent=1)[:4000])
    rep = C.Report("C15", "quick", LEVEL)
    run(rep, "quick")
    return 1 if rep.violations else 0
