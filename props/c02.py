"""C02 -- Optimisation settings never change program behaviour.

1. Translator (tools/c02_gen.py): optfoam.c's optControl[] / optQInlineLimit[] / the statements of
   optSetLevel, optSetOptimization and optimizeFoam, the -O/-Q cases of cmdline.c and the level
   table of the compiler's own help text -> coq/Gen/OptCtl.v, on every run.
2. Proof stage: coq/Props/Properties_C02.v (option decoding for EVERY argument sequence; the local
   rewriting passes cfold / peep on the pure expression fragment).
3. Ties: (a) option model vs `aldor -WD+optf <args>` (the compiler prints its control table and
   announces every pass it runs); (b) Fold/Peep model vs the isolated real pass (-Q0 -Qcfold,
   -Q0 -Qpeep) on generated units, unit before/after taken from -Ffm.
4. The decision of the property itself: DIFFERENTIAL RUN (level: exploration - the global passes
   inline/cprop/cse/emerge/env/flow/dassign/deadvar/hfold/cast are not modelled): programs of the
   MiniAldor family (with the verified oracle's expected output) and the deterministic programs of
   the pinned corpus lib/axllib/test, each under -Q0 and under a set of configurations; behaviour =
   stdout + exit status class of the PROGRAM (compile step and run step are separate processes:
   `aldor <cfg> -Fao=p.ao X.as`, then `aldor -l<lib> -ginterp p.ao`, which does not optimise again;
   thorough also the C executable).  A difference is shrunk to a minimal configuration (and program)
   and reported with key "corpus:<name>:<minimal config>" / "mini:<hash>:<minimal config>".
"""
import collections, concurrent.futures, glob, hashlib, itertools, json, os, re, shutil, sys, time
from vlib import common as C
from props import mini

sys.path.insert(0, os.path.join(C.VERIF, "tools"))
import c02_gen  # noqa: E402
import c02_local as LOC  # noqa: E402
import c02_flow as FLOW  # noqa: E402
import c02_float as FLT  # noqa: E402

ID = "C02"
LEVEL = "exploration"
MANIFEST = {
    "level_text": "Partial. PROVED in Coq (26 theorems, closed under the global context): (1) option decoding, for EVERY "
                  "sequence of -O/-Q arguments the compiler accepts: -Qn = column min(n,4) of optControl[] (+ the inline limit "
                  "of optQInlineLimit[] above 4), -O = -Q2, default = -Q1, -Q<p>/-Qno-<p> change exactly one entry "
                  "(inline-all: also inline), -Q0 -Q<p> enables exactly p, -Q9 -Qno-<p> disables exactly p, -Qall, "
                  "-Qinline-limit=<n>, last toggle wins, a rejected argument rejects the command line, -Q0 -Q<p> makes "
                  "optimizeFoam run exactly the steps guarded by p; the level table is the one `aldor -h Q` documents. All "
                  "over the table, decoder statements and pipeline REGENERATED from optfoam.c/cmdline.c/comsgdb.msg on every "
                  "run.  (2) the two LOCAL rewriting passes preserve value and final machine state of every FOAM expression "
                  "of the fragment (data nodes, variable reads, the specified builtins of C04, casts, opaque leaves with a "
                  "side-effect flag), of any size: C02_cfold_preserves over b-c04's generated folder table, "
                  "C02_peep_preserves over the two rule tables regenerated from of_peep.c, every rule with the side-effect "
                  "guard the C applies.  EXPLORED, not proved: the property itself.  The global passes (inline, cprop, cse, "
                  "emerge, emerge-rr, env, flow, dassign, deadvar, hfold, cast) are not modelled; they are decided only by "
                  "the differential run: generated MiniAldor programs (verified oracle) + the deterministic programs of "
                  "lib/axllib/test + generated builtin-level programs + a data-flow family aimed at the global passes "
                  "(tools/c02_flow.py: self-updates, copies, branches, bounded loops, early returns and re-used right-hand "
                  "sides, with its own direct evaluator as oracle), each at -Q0 versus levels 0-9, -O, every single pass "
                  "-Q0 -Q<p>, every complement -Q9 -Qno-<p> and seeded random subsets.",
    "level_note": "Trusted: Coq kernel; extraction (ExtrOcamlBasic) + coq/Opt/driver.ml; tools/c02_gen.py (the statement "
                  "shapes it recognises are the constructors of coq/Opt/Ctl.v; an unrecognised statement becomes StUnknown and "
                  "the theorems stop checking); tools/c02_local.py (conversion of -Ffm units to model terms); the MiniAldor "
                  "oracle (C01); b-c04's translation of of_cfold.c; pre-built libaldor/axllib of /repo.  Not compared: the "
                  "interpreter's stack-trace lines and WHICH fault message a dying run prints (class fail either way).  Not "
                  "modelled: FLOAT and big-integer operands of the peephole rules (C02_peep_float_rows_not_covered: the model "
                  "gives them no value; the fast table used with -Qffold applies x-x=0, x/x=1, x*0=0, x=x ... to floats, wrong "
                  "for NaN/inf/-0.0: decided by tools/c02_float.py and listed as peep:fast-float-table:<shape>), C atof "
                  "(only decimal numerals up to 7 digits), clustered option letters, statements and control "
                  "flow in Fold/Peep (peepIf/peepSelect/peepCCall/peepEEnsure), float and big-integer rules, the peep-pending "
                  "flag.  One out-of-bounds read of of_peep.c (peepBValOpInfo[OpNonNeg/OpNonPos/OpId].arity) is modelled by "
                  "its observed value and re-checked by the tie on every run.",
    "technique": "Coq proof of option decoding and of the local rewriting passes over regenerated tables + correspondence "
                 "(-WD+optf output; isolated passes via -Ffm before/after) + differential run with config/program shrinking",
    "design_ref": "DESIGN.md section 4 / C02",
}

PROPS = "Props/Properties_C02.v"
TARGETS = ["Props/Properties_C02.vo", "Opt/Extract.vo"]
CORPUS_DIR = C.VERIF + "/corpus/C02"
T_RUN = 30          # seconds per compile / run step
SLOW = 8.0          # corpus programs slower than this at -Q0 are left out of the sample
# corpus programs that are not deterministic programs although two -Q0 runs agree
EXCLUDE = {
    "bug1022": "prints a variable that is never assigned (`Constructing D(<n>)`): 0 at -Q0, a stale number elsewhere",
}


def generate():
    G = c02_gen.generate()
    G["peep"] = c02_gen.generate_peep()
    G["cfold_guards"] = c02_gen.generate_cfold_guards()
    # the folder table the Fold theorems are stated over is b-c04's translation of of_cfold.c:
    # regenerated here too, so that this check alone sees an edit of the folder
    from props import c04
    c04.generate()
    return G


# ====================================================================== running programs

class Ctx:
    def __init__(self, exe, base):
        self.exe, self.base, self.n = exe, base, itertools.count()
        self.runs = 0

    def newdir(self):
        d = "%s/r%d" % (self.base, next(self.n))
        os.makedirs(d)
        return d


def lib_args(exe, lib):
    if lib == "aldor":
        return C.aldor_base_args(exe)
    return [exe, "-Nfile=%s/aldor/src/aldor.conf" % C.RB, "-Y%s/aldor/lib/libfoam/al" % C.RB,
            "-I%s/lib/%s/include" % (C.RB, lib), "-Y%s/lib/%s/src" % (C.RB, lib)]


TRACE_RE = re.compile(r"^(#\d+ .* in <.*> at unit \[.*\]|\.\.\.)\n", re.M)
FAULT_RE = re.compile(r"^(Compiler bug\.\.\.Bug: .*|.*Program fault \(.*\)\.#\d+ \(Error\) Program fault.*|"
                      r"#\d+ \((Warning|Error|Fatal Error)\) .*|Warning: hard assertion failed, file .*|"
                      r"Unhandled Exception: .*|\(Aldor error\) .*)$", re.M)


def canon(out):
    """What is compared.  Not program output: the interpreter's stack trace on a failed assertion / fault
    (addresses, frame names: an aid that depends on inlining by design) and WHICH fault message the
    interpreter or the compiler driver prints when the run dies (`Program fault (...)`, `Compiler bug...`,
    `#1 (Warning) Removing file`): a run that dies is of class `fail` whatever the message; the text the
    program printed before is compared."""
    out = TRACE_RE.sub("", out)
    out = FAULT_RE.sub("<fault>", out)
    return re.sub(r"(<fault>\s*)+", "<fault>\n", out)


def behave(ctx, prog, cfg, route="interp", keep=False, timeout=None):
    """Compile `prog` under `cfg` and run the result.  prog: dict(lib, path | src).
    Returns dict(cls, out, rc, t): cls in ok | fail | timeout | compile-error."""
    d = ctx.newdir()
    ctx.runs += 1
    try:
        if prog.get("src") is not None:
            unit = "p"
            src = d + "/p.as"
            with open(src, "w") as f:
                f.write(prog["src"])
        else:
            src = prog["path"]
            unit = os.path.basename(src)[:-3]      # the saved unit is looked up by its own name
        lib = prog["lib"]
        t0 = time.time()
        T = timeout or T_RUN

        def cerr(rc, out):
            return {"cls": "timeout" if rc == 124 else "compile-error", "rc": rc, "t": time.time() - t0, "step": "compile",
                    "out": canon(out).replace(d + "/", "").replace(os.path.dirname(src) + "/", "")[-3000:],
                    "raw": TRACE_RE.sub("", out).replace(d + "/", "")[-1500:]}
        if route == "interp":
            rc, out, err = C.run(lib_args(ctx.exe, lib) + list(cfg) + ["-Fao=%s.ao" % unit, src], cwd=d, env=C.aldor_env(),
                                 timeout=T, input="")
            if rc != 0 or not os.path.exists("%s/%s.ao" % (d, unit)):
                return cerr(rc, out)
            rc, out, err = C.run(lib_args(ctx.exe, lib) + ["-l" + lib, "-ginterp", unit + ".ao"], cwd=d, env=C.aldor_env(),
                                 timeout=T, input="")
        else:
            a = lib_args(ctx.exe, lib)
            a += ["-Ccc=%s/aldor/subcmd/unitools/unicl" % C.RB, "-Y%s/aldor/lib/libfoam" % C.RB, "-l" + lib,
                  "-Cargs=-Wconfig=%s/aldor/src/aldor.conf -I%s" % (C.RB, C.eff_src()), "-fc"]
            rc, out, err = C.run(a + list(cfg) + ["-fx=p.exe", src], cwd=d, env=C.aldor_env(), timeout=180, input="")
            if rc != 0 or not os.path.exists(d + "/p.exe"):
                return cerr(rc, out + err)
            rc, out, err = C.run([d + "/p.exe"], cwd=d, env=C.aldor_env(), timeout=T_RUN, input="")
        cls = "ok" if rc == 0 else ("timeout" if rc == 124 else "fail")
        return {"cls": cls, "out": canon(out).replace(d + "/", ""), "rc": rc, "t": time.time() - t0,
                "raw": TRACE_RE.sub("", out)[-1500:]}
    finally:
        if not keep:
            shutil.rmtree(d, ignore_errors=True)


def same(a, b):
    return a["cls"] == b["cls"] and a["out"] == b["out"]


def cfg_str(cfg):
    return " ".join(cfg)


# ====================================================================== configurations

def all_configs(G, rng, n_random):
    flags = [n for n, k, v, vs in G["rows"] if k == "OPT_FLAG"]
    maxq = 9
    for s in G["stages"]:
        m = re.match(r"StLevel (\d+)", s)
        if m:
            maxq = int(m.group(1))
    levels = [["-Q%d" % i] for i in range(0, maxq + 1)] + [["-O"]]
    singles = [["-Q0", "-Q" + p] for p in flags]
    compl = [["-Q%d" % maxq, "-Qno-" + p] for p in flags]
    rnd = []
    for i in range(n_random):
        k = rng.choice([2, 3, 4, 6, 9])
        sub = sorted(rng.sample(flags, k), key=flags.index)
        if rng.random() < 0.5:
            rnd.append(["-Q0"] + ["-Q" + p for p in sub])
        else:
            rnd.append(["-Q%d" % rng.choice([2, 3, 5, maxq])] + ["-Qno-" + p for p in sub])
    return {"levels": levels, "singles": singles, "complements": compl, "random": rnd, "flags": flags, "maxq": maxq}


# ====================================================================== the option model (extracted)

class OptModel:
    def __init__(self):
        ex = C.COQ + "/Opt/extracted"
        self.exe = C.build_ocaml("optm", [ex + "/opt_model.mli", ex + "/opt_model.ml"], C.COQ + "/Opt/driver.ml")

    def query(self, seqs):
        rc, out, err = C.run([self.exe], input="".join(" ".join(["opts"] + list(s)) + "\n" for s in seqs), timeout=300)
        if rc != 0:
            raise RuntimeError("option model driver failed: " + err[-500:])
        res = []
        for line in out.splitlines():
            if line == "ERR":
                res.append(None)
                continue
            lv, tbl, tr = line.split("|")
            res.append({"lvl": int(lv[4:]), "tbl": [tuple(x.rsplit("=", 1)) for x in tbl.split(",")],
                        "trace": tr.split(";") if tr else []})
        if len(res) != len(seqs):
            raise RuntimeError("option model driver: %d answers for %d queries" % (len(res), len(seqs)))
        return res


def observe_opts(exe, d, seq):
    """What the real compiler does with the argument sequence: (rejected?, table, trace)."""
    rc, out, err = C.run([exe, "-Nfile=%s/aldor/src/aldor.conf" % C.RB, "-WD+optf"] + list(seq) + ["-Fao=t.ao", "t.as"],
                         cwd=d, env=C.aldor_env(), timeout=60, input="")
    if "Optimizations selected:" not in out:
        return {"rejected": True, "rc": rc, "msg": (out + err).strip()[:200]}
    lines = out.splitlines()
    i = lines.index("Optimizations selected:")
    tbl = []
    j = i + 1
    while j < len(lines):
        m = re.fullmatch(r"\s*(\S+) (-?\d+)", lines[j])
        if not m:
            break
        tbl.append((m.group(1), m.group(2)))
        j += 1
    tr = []
    for l in lines[j:]:
        if re.fullmatch(r"STARTING LOOP \(\d+\)", l):
            tr.append("STARTING LOOP (%d)")
        elif re.fullmatch(r"\(?Starting .*\.\.\.\)?|Optimizations finished\.", l):
            tr.append(l)
    return {"rejected": False, "rc": rc, "tbl": tbl, "trace": tr}


def opt_sequences(G, rng, n):
    """Argument sequences aimed at the case splits of the decoder: every level, every flag on / off /
    doubly negated, case variants, numeric rows with both separators, -O, all / no-all; plus a
    malformed stream (unknown names, wrong case where the C compares exactly, level out of range)."""
    flags = [r[0] for r in G["rows"] if r[1] == "OPT_FLAG"]
    floats = [r[0] for r in G["rows"] if r[1] == "OPT_FLOAT"]
    atoms = ["-Q%d" % i for i in range(10)] + ["-O", "-o", "-Qall", "-Qno-all", "-QALL", "-qNo-All"]
    atoms += ["-Q" + p for p in flags] + ["-Qno-" + p for p in flags] + ["-Qno-no-" + p for p in flags[:6]]
    atoms += ["-QNO-" + p for p in flags[:4]] + ["-q" + p for p in flags[:4]]
    for fl in floats:
        atoms += ["-Q%s=%d" % (fl, v) for v in (0, 1, 7, 12, 100, 9999999)] + ["-Q%s:%d" % (fl, 3), "-Q%s=%d" % (fl.upper(), 4)]
    bad = ["-Qfoo", "-Qno-", "-Qno-foo", "-QPeep", "-Q10", "-Q1x", "-Qx1", "-Qinline-limit", "-Qinline-limit 5", "-Qpeep=1",
           "-Qall-", "-QInline-All", "-Qno-Inline-all", "-Q:", "-Q/"] + ["-Q" + p.upper() for p in flags[:3]]
    seqs = [[]] + [[a] for a in atoms] + [[b] for b in bad]
    seqs += [["-Q0", "-Q" + p] for p in flags] + [["-Q9", "-Qno-" + p] for p in flags]
    while len(seqs) < n:
        k = rng.choice([2, 3, 4, 6, 10])
        s = [rng.choice(atoms) for _ in range(k)]
        if rng.random() < 0.15:
            s.insert(rng.randrange(len(s) + 1), rng.choice(bad))
        seqs.append(s)
    return seqs


def check_opt_model(rep, exe, G, tier):
    """Tie (a): the extracted opt_state/shown/trace versus the compiler's own -WD+optf output."""
    rng = C.rng("c02-opts")
    model = OptModel()
    seqs = opt_sequences(G, rng, 400 if tier == "quick" else 3000)
    want = model.query(seqs)
    d = C.scratch("c02opt")
    with open(d + "/t.as", "w") as f:
        f.write("x: with == add;\n")

    def one(i):
        dd = "%s/%d" % (d, i % (4 * C.NCPU))
        os.makedirs(dd, exist_ok=True)
        if not os.path.exists(dd + "/t.as"):
            shutil.copy(d + "/t.as", dd + "/t.as")
        return observe_opts(exe, dd, seqs[i])
    # one directory per worker slot: runs in the same slot are sequential
    slots = collections.defaultdict(list)
    for i in range(len(seqs)):
        slots[i % (4 * C.NCPU)].append(i)
    got = [None] * len(seqs)

    def run_slot(ix):
        for i in ix:
            got[i] = one(i)
    with concurrent.futures.ThreadPoolExecutor(C.NCPU) as ex:
        list(ex.map(run_slot, slots.values()))
    bad = []
    n_rej = n_ok = 0
    for s, w, g in zip(seqs, want, got):
        if w is None or g["rejected"]:
            n_rej += 1
            if not (w is None and g["rejected"]):
                bad.append((s, w, g))
            continue
        n_ok += 1
        wt = [(n, v) for n, v in w["tbl"]]
        cmp_t = all(a[0] == b[0] and (a[1] == "?" or a[1] == b[1]) for a, b in zip(wt, g["tbl"])) and len(wt) == len(g["tbl"])
        gtr = [x for x in g["trace"] if x != "Starting expr inline..."]
        if not cmp_t or w["trace"] != gtr:
            bad.append((s, w, g))
    if bad:
        bad.sort(key=lambda x: len(x[0]))
        s, w, g = bad[0]
        # shrink: drop arguments while model and compiler still disagree
        i = 0
        while i < len(s):
            t = s[:i] + s[i + 1:]
            ww, gg = model.query([t])[0], observe_opts(exe, d, t)
            dis = (ww is None) != gg["rejected"] or (ww is not None and not gg["rejected"] and (
                [v for _, v in ww["tbl"]] != [v for _, v in gg["tbl"]] or
                ww["trace"] != [x for x in gg["trace"] if x != "Starting expr inline..."]))
            if dis:
                s, w, g = t, ww, gg
            else:
                i += 1
        # not a behaviour change by itself: the differential run below is the searcher
        rep.violation("option model and compiler disagree on the argument sequence %s (correspondence -WD+optf no longer "
                      "checks; %d of %d sequences differ)" % (" ".join(s) or "<none>", len(bad), len(seqs)),
                      {"args": s, "model": w, "compiler": g,
                       "how_to_replay": "aldor -Nfile=<conf> -WD+optf %s -Fao=t.ao t.as   (t.as: `x: with == add;`)" % " ".join(s)},
                      no_input=True)
    # ---- the decoder's property, directly on what the compiler prints (no model involved):
    #      -Q<n> = the column of the (regenerated) table; -Q9 -Qno-<p> = -Q9 with exactly p off;
    #      -Q0 -Q<p> = -Q0 with exactly p on (inline-all: also inline)
    flags = [r[0] for r in G["rows"] if r[1] == "OPT_FLAG"]
    idx = {tuple(s_): i for i, s_ in enumerate(seqs)}

    def tbl_of(seq):
        i = idx.get(tuple(seq))
        g = got[i] if i is not None else observe_opts(exe, d, seq)
        return None if g["rejected"] else dict(g["tbl"])
    n_direct = 0
    decode_bad = 0
    for p in flags:
        if decode_bad:
            break           # one minimal replay is enough
        for lvl, arg, val in ((9, "-Qno-" + p, "0"), (0, "-Q" + p, "1")):
            a, b = tbl_of(["-Q%d" % lvl]), tbl_of(["-Q%d" % lvl, arg])
            n_direct += 1
            if a is None or b is None:
                want_t = None
            else:
                want_t = dict(a)
                want_t[p] = val
                if p == "inline-all" and val == "1":
                    want_t["inline"] = "1"
            if b != want_t:
                diff = sorted(k for k in (b or {}) if (want_t or {}).get(k) != b[k])
                rep.violation("option decoding: `-Q%d %s` does not switch exactly `%s` %s: entries %s differ from `-Q%d` "
                              "otherwise unchanged" % (lvl, arg, p, "on" if val == "1" else "off", diff, lvl),
                              {"args": ["-Q%d" % lvl, arg], "printed": b, "expected": want_t,
                               "how_to_replay": "aldor -Nfile=<conf> -WD+optf -Q%d %s -Fao=t.ao t.as" % (lvl, arg)},
                              key="decode:-Q%d %s" % (lvl, arg))
                decode_bad += 1
                break
    for n in range(0, 10):
        b = tbl_of(["-Q%d" % n])
        want_t = {}
        for name, kind, var, vals in G["rows"]:
            v = vals[min(n, len(vals) - 1)]
            if n > len(vals) - 1 and name == "inline-limit":
                v = G["qlim"][n - len(vals)]
            want_t[name] = str(v)
        n_direct += 1
        if b != want_t and not decode_bad:
            decode_bad += 1
            rep.violation("option decoding: `-Q%d` does not select column min(%d,%d) of optControl[]" % (n, n, len(G["rows"][0][3]) - 1),
                          {"args": ["-Q%d" % n], "printed": b, "expected": want_t}, key="decode:-Q%d" % n)
    rep.add_cov(option_sequences=len(seqs), option_sequences_accepted=n_ok, option_sequences_rejected=n_rej,
                option_sequence_mismatches=len(bad), option_direct_oracle_checks=n_direct)
    return model


# ====================================================================== corpus programs

def corpus_programs():
    T = C.RB + "/lib/axllib/test"
    out = []
    for p in sorted(glob.glob(T + "/*/*.as")):
        n = os.path.basename(p)[:-3]
        if os.path.basename(os.path.dirname(p)) != n:
            continue
        ref = p[:-3] + ".ref"
        if n in EXCLUDE:
            continue
        out.append({"name": n, "lib": "axllib", "path": p, "ref": ref if os.path.exists(ref) else None})
    return out


def eligible(ctx, prog):
    """Deterministic at -Q0: compiles, and two independent compile+run pairs behave alike and fast."""
    a = behave(ctx, prog, ["-Q0"])
    if a["cls"] in ("compile-error", "timeout") or a["t"] > SLOW:
        return None
    b = behave(ctx, prog, ["-Q0"])
    if not same(a, b):
        return None
    return a


def verdict(prog, base, obs):
    exp = None
    if prog.get("expect_out") is not None:
        exp = {"cls": prog["expect_status"], "out": prog["expect_out"]}
    elif prog.get("ref"):
        try:
            exp = {"cls": "ok", "out": open(prog["ref"], errors="replace").read()}
        except OSError:
            exp = None
    if exp is None:
        return "no reference output: -Q0 taken as the definition"
    b, o = same(base, exp), same(obs, exp)
    if b and not o:
        return "the optimised side is wrong (-Q0 matches the reference output)"
    if o and not b:
        return "the -Q0 side is wrong (the optimised run matches the reference output)"
    if not b and not o:
        return "neither side matches the reference output"
    return "both match the reference?"


# ====================================================================== shrinking

def minimise_config(ctx, prog, cfg, base, model, G, obs=None):
    """Smallest argument list (canonical form -Q<l> [-Qno-all] -Q<p>...) under which the program
    still behaves differently from -Q0.  Deterministic for a given (program, flag set): level 0 before
    the level of cfg; a single pass (first in table order) before greedy deletion in table order."""
    st = model.query([cfg])[0]
    if st is None:
        return list(cfg)
    flags = [n for n, k, v, vs in G["rows"] if k == "OPT_FLAG"]
    on = [n for n, v in st["tbl"] if n in flags and v != "0"]
    # a hang is probed with the full limit (a slow compile must not pass for a hang, nor the reverse)
    tmo = T_RUN if (obs is not None and obs["cls"] == "timeout") else int(min(T_RUN, max(6, 12 * base["t"])))

    def differs(c):
        b = behave(ctx, prog, c, timeout=tmo)
        # the same KIND of difference as the one being minimised (a program may differ in two ways)
        return (not same(b, base)) and (obs is None or b["cls"] == obs["cls"])

    def form(l, ps):
        return ["-Q%d" % l] + (["-Qno-all"] if l != 0 else []) + ["-Q" + p for p in ps]
    for l in ([0, st["lvl"]] if st["lvl"] != 0 else [0]):
        if not differs(form(l, on)):
            continue
        with concurrent.futures.ThreadPoolExecutor(C.NCPU) as ex:
            single = list(ex.map(lambda p: differs(form(l, [p] if p != "inline-all" else ["inline-all"])), on))
        for p, d in zip(on, single):
            if d:
                return form(l, [p])
        cur = list(on)
        for p in list(cur):
            t = [x for x in cur if x != p]
            if "inline-all" in t and "inline" not in t:
                continue        # -Qinline-all switches inline on: not expressible
            if differs(form(l, t)):
                cur = t
        return form(l, cur)
    return list(cfg)


def shrink_lines(ctx, prog, cfg, budget_s):
    """Corpus program: delete lines while it still compiles at -Q0 and still behaves differently."""
    t0 = time.time()
    lines = open(prog["path"], errors="replace").read().split("\n")
    incdir = os.path.dirname(prog["path"])

    def fails(ls):
        p = {"lib": prog["lib"], "src": "\n".join(ls)}
        a = behave(ctx, p, ["-Q0"])
        if a["cls"] in ("compile-error", "timeout"):
            return False
        return not same(behave(ctx, p, cfg), a)
    if not fails(lines):
        return None         # depends on its directory (includes): keep the original file
    n = 2
    while len(lines) >= 2 and time.time() - t0 < budget_s:
        size = max(1, len(lines) // n)
        chunks = [(i, min(len(lines), i + size)) for i in range(0, len(lines), size)]
        with concurrent.futures.ThreadPoolExecutor(C.NCPU) as ex:
            res = list(ex.map(lambda ab: fails(lines[:ab[0]] + lines[ab[1]:]), chunks))
        hit = [c for c, r in zip(chunks, res) if r]
        if hit:
            a, b = hit[0]
            lines = lines[:a] + lines[b:]
            n = max(n - 1, 2)
        elif size == 1:
            break
        else:
            n = min(len(lines), n * 2)
    return "\n".join(lines)


# ====================================================================== reporting one difference

def load_records():
    recs = collections.defaultdict(list)
    for p in sorted(glob.glob(CORPUS_DIR + "/*.json")):
        try:
            r = json.load(open(p))
        except ValueError:
            continue
        recs[r["name"]].append(r)
    return recs


OVERFLOW = []      # differences beyond the per-run budget of minimised reports: one summary violation
CFAULT = re.compile(r"Program fault \(([^)]*)\)|\(Fatal Error\) (Storage allocation error[^.\n]*)")
CBUG = re.compile(r"Compiler bug\.\.\.Bug: ([^\n]*)")
SIG = re.compile(r"Compiler bug\.\.\.Bug: (fintStmt|fintEval|BCall): (\w+) .*unimplemented")


def signature(prog, base, obs, mc=None):
    """Generated programs cannot be keyed by input (the seeds change with VERIF_SEED).  Where the
    failing side names the call site that gave up, the key is that site: the interpreter's
    `bug("fintStmt: %s ... unimplemented")` (fint.c) on the UNOPTIMISED unit, while the optimised
    unit prints what the oracle expects."""
    mb, mo = SIG.search(base.get("raw", "")), SIG.search(obs.get("raw", ""))
    if bool(mb) != bool(mo):
        # exactly one of the two units is one the interpreter cannot run (a value used as a statement,
        # which only dead-variable elimination removes): whatever the other side does, THIS is the difference
        return "site:interp-%s-unimplemented:at -Q0" % (mb or mo).group(1)
    if obs["cls"] == "compile-error" and base["cls"] in ("ok", "fail"):
        m = CBUG.search(obs.get("raw", ""))
        if m:
            return "site:compiler-bug:%s" % m.group(1).rstrip(". ")[:80]
        m = CFAULT.search(obs.get("raw", ""))
        if m and mc is not None:
            on = [a[2:] for a in mc[1:] if a.startswith("-Q") and not a.startswith("-Qno-")]
            first = on[0] if on else mc[0]
            return "site:compiler-fault:%s:with %s" % ((m.group(1) or m.group(2)).strip()[:60], first)
    return None


def tail(b):
    return {"cls": b["cls"], "rc": b["rc"], "out": b["out"][-3000:], "raw_tail": b.get("raw", "")[-600:]}


def report_diff(rep, ctx, prog, cfg, base, obs, model, G, recs, shrink_budget, reported, allow_new=True):
    """A program behaves differently under cfg than under -Q0.  Returns the key."""
    name = prog.get("name")
    for r in recs.get(name, []) if name else []:
        ro = r.get("_obs")
        if ro is None:
            ro = r["_obs"] = behave(ctx, prog, r["config"])
        if same(ro, obs) and not same(ro, base):
            return r["key"]         # already reported (or listed as known) under the record's key
    sig = None if name else signature(prog, base, obs)
    if sig and (sig in reported or rep.finding_key_known(sig)):
        if sig not in reported:
            reported.add(sig)
            rep.violation("", {}, key=sig)          # prints KNOWN-FINDING once
        return sig
    if not allow_new:
        OVERFLOW.append({"program": name, "path": prog.get("path"), "lib": prog["lib"], "src": prog.get("src"),
                         "config": list(cfg), "q0": tail(base), "observed": tail(obs)})
        return None
    if sig:
        key = sig
        mc = minimise_config(ctx, prog, cfg, base, model, G, obs)
        mobs = behave(ctx, prog, mc)
        if same(mobs, base) or signature(prog, base, mobs) != sig:
            mc, mobs = list(cfg), obs
    else:
        mc = minimise_config(ctx, prog, cfg, base, model, G, obs)
        mobs = behave(ctx, prog, mc)
        if same(mobs, base) or mobs["cls"] != obs["cls"]:   # not reproducible under the minimised configuration
            mc, mobs = list(cfg), obs
        key = "corpus:%s:%s" % (name, cfg_str(mc)) if name else None
        if not name:
            # the minimal configuration may expose a call site after all
            sig2 = signature(prog, base, mobs, mc)
            if sig2 is None and mobs["cls"] == "timeout" and mobs.get("step") == "compile" and mc and mc[0] == "-Q9":
                # unlimited inlining (level 9 sets the inline limit to -1)?  the same flags at level 8 compile
                b8 = behave(ctx, prog, ["-Q8"] + mc[1:])
                if b8["cls"] not in ("timeout", "compile-error"):
                    sig2 = "site:compile-hang:-Q9 -Qno-all -Qinline"
            if sig2:
                key = sig2
                if sig2 in reported or rep.finding_key_known(sig2):
                    if sig2 not in reported:
                        reported.add(sig2)
                        rep.violation("", {}, key=sig2)
                    return sig2
    src = prog.get("src")
    small = None
    if key is None and not name and mobs["cls"] == "timeout" and mobs.get("step") == "compile":
        key = "site:compile-hang:%s" % cfg_str(mc)
    known = key is not None and rep.finding_key_known(key)
    if not known and prog.get("seed") is not None and not name:
        def still(q):
            p2 = {"lib": "aldor", "src": q["src"], "expect_out": q["expect_out"], "expect_status": q["expect_status"]}
            a = behave(ctx, p2, ["-Q0"])
            if a["cls"] in ("compile-error", "timeout"):
                return False
            o = behave(ctx, p2, mc)
            return (not same(o, a)) and (sig is None or signature(p2, a, o) == sig)
        try:
            path, sp = mini.shrink(prog["seed"], prog["size"], still, budget_s=shrink_budget)
            small = {"src": sp["src"], "path": path, "nodes": sp.get("nodes"), "expect_out": sp.get("expect_out")}
        except Exception as e:          # the shrinker is an aid, never a reason to lose the finding
            small = {"error": str(e)[:200]}
    elif not known and name and prog.get("path"):
        t = shrink_lines(ctx, prog, mc, shrink_budget)
        if t is not None:
            small = {"src": t, "lines": t.count("\n") + 1}
    if key is None and mobs["cls"] == "timeout" and mobs.get("step") == "compile":
        # the compiler itself does not finish: keyed by the (minimal) configuration, not by the program
        key = "site:compile-hang:%s" % cfg_str(mc)
    if key is None:
        h = hashlib.sha1(((small or {}).get("src") or src or "").encode()).hexdigest()[:8]
        key = "mini:%s:%s" % (h, cfg_str(mc))
    reported.add(key)
    what = ("%s behaves differently at `%s` than at -Q0 (%s -> %s); %s"
            % ("corpus program " + name if name else "generated program", cfg_str(mc), base["cls"], mobs["cls"],
               verdict(prog, base, mobs)))
    if sig:
        what += "; the interpreter gives up on the unoptimised unit: " + SIG.search(base.get("raw", "")).group(0)[:120]
    rep.violation(what, {
        "how_to_replay": "./check C02 --replay <this file>   (compile: aldor <base args> <config> -Fao=X.ao X.as ; "
                         "run: aldor <base args> -l<lib> -ginterp X.ao ; compare with config -Q0)",
        "program": name, "path": prog.get("path"), "lib": prog["lib"], "src": src, "seed": prog.get("seed"),
        "size": prog.get("size"), "config": mc, "found_at_config": list(cfg), "q0": tail(base), "observed": tail(mobs),
        "expected": prog.get("expect_out"), "verdict": verdict(prog, base, mobs), "minimal_program": small,
    }, key=key)
    return key


def replay(path):
    r = json.load(open(path))["replay"]
    if "args" in r and "printed" in r:          # option decoding
        exe = C.build_compiler()
        d = C.scratch("c02replay")
        open(d + "/t.as", "w").write("x: with == add;\n")
        g = observe_opts(exe, d, r["args"])
        now = None if g["rejected"] else dict(g["tbl"])
        print("aldor -WD+optf %s prints %s" % (" ".join(r["args"]), now))
        print("expected               %s" % r.get("expected"))
        return 0 if now == r.get("expected") else 1
    if "config" not in r:
        print("replay: this file names a broken proof / correspondence, not an input")
        return 1
    exe = C.build_compiler()
    ctx = Ctx(exe, C.scratch("c02replay"))
    mp = r.get("minimal_program") or {}
    progs = []
    if mp.get("src"):
        progs.append(("minimal program", {"lib": r["lib"], "src": mp["src"]}))
    if r.get("src"):
        progs.append(("program", {"lib": r["lib"], "src": r["src"]}))
    elif r.get("path"):
        progs.append(("program " + r["path"], {"lib": r["lib"], "path": r["path"].replace("/repo/aldor", C.RB, 1)}))
    bad = 0
    for what, p in progs:
        a = behave(ctx, p, r.get("base", ["-Q0"]), route=r.get("route", "interp"))
        b = behave(ctx, p, r["config"], route=r.get("route", "interp"))
        print("%s: %s -> %s %r" % (what, cfg_str(r.get("base", ["-Q0"])), a["cls"], a["out"][-300:]))
        print("%s: %s -> %s %r" % (what, cfg_str(r["config"]), b["cls"], b["out"][-300:]))
        if not same(a, b):
            bad = 1
    print("replay: %s" % ("behaviour still differs" if bad else "behaviour is the same now"))
    return bad


# ====================================================================== the differential run

def run_matrix(ctx, jobs, route="interp"):
    """jobs: list of (prog, cfg).  Returns list of behaviours, same order."""
    with concurrent.futures.ThreadPoolExecutor(C.NCPU) as ex:
        return list(ex.map(lambda j: behave(ctx, j[0], j[1], route), jobs))


def pick_configs(CF, rng, i, k_extra):
    """Configurations for the i-th program: four levels always, the rest of the pool in rotation so
    that a run covers every configuration."""
    always = [["-Q1"], ["-Q2"], ["-Q3"], ["-Q%d" % CF["maxq"]]]
    pool = [c for c in CF["levels"] if c not in always and c != ["-Q0"]] + CF["singles"] + CF["complements"] + CF["random"]
    off = (i * k_extra) % len(pool)
    extra = [pool[(off + j) % len(pool)] for j in range(k_extra)]
    return always + extra


def differential(rep, tier, exe, G, model):
    rng = C.rng("c02-diff")
    ctx = Ctx(exe, C.scratch("c02"))
    CF = all_configs(G, rng, 12 if tier == "quick" else 40)
    recs = load_records()
    t0 = time.time()
    stats = collections.Counter()
    cfg_kinds = collections.Counter()
    seen_keys = collections.Counter()
    budget_new = [4 if tier == "quick" else 30]

    reported = set()
    slow_compiles = collections.Counter()

    def handle(prog, cfg, base, obs):
        stats["differences"] += 1
        before = len(rep.violations)
        k = report_diff(rep, ctx, prog, cfg, base, obs, model, G, recs, 60 if tier == "quick" else 240, reported,
                        allow_new=budget_new[0] > 0)
        seen_keys[k] += 1
        if len(rep.violations) > before:
            budget_new[0] -= 1
            if prog.get("name") and k:  # later differences of the same program in this run are attributed to it
                recs[prog["name"]].append({"name": prog["name"], "key": k,
                                           "config": json.load(open(rep.violations[-1]))["replay"]["config"]})

    # ---- 1. recorded past failures first (corpus/C02): minimal configuration of each
    cps = {p["name"]: p for p in corpus_programs()}
    rec_list = [r for rs in recs.values() for r in rs]
    for r in rec_list:          # hand-made records carry their source
        if r.get("src"):
            cps[r["name"]] = {"name": r["name"], "lib": r["lib"], "src": r["src"], "ref": None, "route": r.get("route", "interp"),
                              "expect_out": r.get("expect_out"), "expect_status": r.get("expect_status")}
    jobs = []
    for r in rec_list:
        p = cps.get(r["name"])
        if p:
            jobs += [(p, r.get("base", ["-Q0"])), (p, r["config"])]
    # a recorded hang is reproduced with a shorter limit (it costs the whole limit every run)
    with concurrent.futures.ThreadPoolExecutor(C.NCPU) as ex:
        res = list(ex.map(lambda j: behave(ctx, j[0], j[1], route=j[0].get("route", "interp"), timeout=20), jobs))
    n_rec_repro = 0
    for i, r in enumerate([r for r in rec_list if r["name"] in cps]):
        base, obs = res[2 * i], res[2 * i + 1]
        r["_obs"] = obs
        if same(base, obs):
            rep.notes.append("recorded failure no longer reproduces: %s" % r["key"])
            continue
        n_rec_repro += 1
        p = cps[r["name"]]
        rep.violation("corpus program %s behaves differently at `%s` than at `%s` (%s -> %s); %s%s"
                      % (r["name"], cfg_str(r["config"]), cfg_str(r.get("base", ["-Q0"])), base["cls"], obs["cls"],
                         verdict(p, base, obs), ("; " + r["what"]) if r.get("what") else ""),
                      {"how_to_replay": "./check C02 --replay <this file>", "program": r["name"], "path": p.get("path"),
                       "src": p.get("src"), "lib": p["lib"], "config": r["config"], "base": r.get("base", ["-Q0"]),
                       "route": p.get("route", "interp"),
                       "q0": {"cls": base["cls"], "rc": base["rc"], "out": base["out"][-3000:]},
                       "observed": {"cls": obs["cls"], "rc": obs["rc"], "out": obs["out"][-3000:]},
                       "verdict": verdict(p, base, obs)}, key=r["key"])
        seen_keys[r["key"]] += 1
    stats["recorded_failures_run"] = len(rec_list)
    stats["recorded_failures_reproduced"] = n_rec_repro

    # ---- 2. generated family
    n_mini = 60 if tier == "quick" else 360
    sizes = [4, 8, 12, 18, 25] if tier == "quick" else [4, 8, 12, 18, 25, 35]
    mj = [(rng.randrange(1, 2 ** 40), rng.choice(sizes)) for _ in range(n_mini)]
    progs = mini.batch(["gen %d %d" % (s, z) for s, z in mj])
    feat = collections.Counter()
    for p in progs:
        p["lib"] = "aldor"
        feat.update(p["features"])
    k_extra = 8 if tier == "quick" else 60
    jobs = []
    for i, p in enumerate(progs):
        cs = [["-Q0"]] + (pick_configs(CF, rng, i, k_extra) if tier == "quick" else
                          [c for c in CF["levels"] if c != ["-Q0"]] + CF["singles"] + CF["complements"] + CF["random"][:10])
        for c in cs:
            jobs.append((p, c))
    res = run_matrix(ctx, jobs)
    base_of = {}
    interp_of = {}
    oracle_bad = collections.Counter()
    for (p, c), b in zip(jobs, res):
        interp_of[(id(p), cfg_str(c))] = b
        kind = "level" if len(c) == 1 else ("single" if c[0] == "-Q0" and len(c) == 2 else
                                            ("complement" if len(c) == 2 else "random"))
        cfg_kinds[kind] += 1
        if c == ["-Q0"]:
            base_of[id(p)] = b
            if b["cls"] in ("compile-error", "timeout"):
                stats["mini_q0_not_runnable"] += 1
        exp = {"cls": p["expect_status"], "out": p["expect_out"]}
        if not same(b, exp):
            oracle_bad[cfg_str(c)] += 1
    # programs whose UNOPTIMISED unit the interpreter cannot run (known defect, keyed by call site): the other
    # configurations are compared with `-Q0 -Qdeadvar` instead, so that they are still checked against each other
    for p in progs:
        b0 = base_of[id(p)]
        if b0["cls"] == "fail" and SIG.search(b0.get("raw", "")):
            alt = behave(ctx, p, ["-Q0", "-Qdeadvar"])
            if not SIG.search(alt.get("raw", "")) and alt["cls"] not in ("compile-error", "timeout"):
                stats["mini_q0_interp_defect"] += 1
                handle(p, ["-Q0", "-Qdeadvar"], b0, alt)
                base_of[id(p)] = alt
    done = set()
    for (p, c), b in zip(jobs, res):
        base = base_of[id(p)]
        stats["mini_pairs"] += 1
        if base["cls"] in ("compile-error", "timeout"):
            continue            # not a program of the family as far as the current compiler is concerned (C01's matter)
        if b["cls"] == "timeout" and b.get("step") == "compile":
            # the compile step did not finish within the limit: no behaviour to compare (slow or endless
            # optimisation is not decided here; counted, and the recorded cases are re-run in step 1)
            stats["compile_timeouts_not_decided"] += 1
            slow_compiles[cfg_str(c)] += 1
            continue
        # one report per program and per distinct wrong behaviour
        if c != ["-Q0"] and not same(b, base) and (id(p), b["cls"], b["out"]) not in done:
            done.add((id(p), b["cls"], b["out"]))
            handle(p, c, base, b)
    stats["mini_programs"] = len(progs)
    t_mini = time.time() - t0

    # ---- 3. pinned corpus: deterministic sample (quick) / every deterministic program (thorough)
    cand = [p for p in corpus_programs()]
    if tier == "quick":
        rng.shuffle(cand)
        cand = cand[:40]
    with concurrent.futures.ThreadPoolExecutor(C.NCPU) as ex:
        el = list(ex.map(lambda p: eligible(ctx, p), cand))
    eprogs = [(p, b) for p, b in zip(cand, el) if b is not None]
    stats["corpus_candidates"] = len(cand)
    stats["corpus_deterministic"] = len(eprogs)
    jobs = []
    for i, (p, b) in enumerate(eprogs):
        if tier == "quick":
            cs = pick_configs(CF, rng, i, 3)
        else:
            cs = [c for c in CF["levels"] if c != ["-Q0"]] + [CF["singles"][(i + j) % len(CF["singles"])] for j in range(3)] + \
                 [CF["complements"][(i + j) % len(CF["complements"])] for j in range(3)] + [CF["random"][i % len(CF["random"])]]
        for c in cs:
            jobs.append((p, c, b))
    res = run_matrix(ctx, [(p, c) for p, c, b in jobs])
    done = set()
    for (p, c, base), b in zip(jobs, res):
        stats["corpus_pairs"] += 1
        kind = "level" if len(c) == 1 else ("single" if c[0] == "-Q0" and len(c) == 2 else ("complement" if len(c) == 2 else "random"))
        cfg_kinds[kind] += 1
        if same(b, base) or (p["name"], b["cls"], b["out"]) in done:
            continue
        if b["cls"] == "timeout" and b.get("step") == "compile":
            if not any(r.get("_obs", {}).get("cls") == "timeout" for r in recs.get(p["name"], [])):
                stats["compile_timeouts_not_decided"] += 1
                slow_compiles["%s %s" % (p["name"], cfg_str(c))] += 1
            continue            # no behaviour to compare (see above)
        if b["cls"] == "timeout" and base["t"] > T_RUN / 40:
            continue            # slow program, not a hang
        # confirm once (a loaded machine must not produce a finding)
        b2 = behave(ctx, p, c)
        if not same(b2, b):
            stats["flaky"] += 1
            continue
        done.add((p["name"], b["cls"], b["out"]))
        handle(p, c, base, b)
    t_corpus = time.time() - t0 - t_mini

    # ---- 4. thorough: the C executable route on a sample of the generated family
    if tier == "thorough":
        sub = progs[:60]
        cs = [["-Q0"], ["-Q1"], ["-Q2"], ["-Q3"], ["-Q5"], ["-Q9"]] + CF["random"][:2]
        jobs = [(p, c) for p in sub for c in cs]
        res = run_matrix(ctx, jobs, route="c")
        base_c = {}
        for (p, c), b in zip(jobs, res):
            if c == ["-Q0"]:
                base_c[id(p)] = b
        c_reported = set()
        for (p, c), b in zip(jobs, res):
            stats["c_route_pairs"] += 1
            base = base_c[id(p)]
            if base["cls"] in ("compile-error", "timeout") or c == ["-Q0"] or same(b, base):
                continue
            ib, ibase = interp_of.get((id(p), cfg_str(c))), base_of.get(id(p))
            if b["cls"] in ("compile-error", "timeout") and ib is not None and ib["cls"] in ("compile-error", "timeout"):
                stats["c_route_same_as_interp"] += 1        # the compile step is the same on both routes: handled above
                continue
            if ib is not None and ibase is not None and not same(ib, ibase):
                stats["c_route_same_as_interp"] += 1        # this (program, configuration) already differs on the interpreter route
                continue
            if id(p) in c_reported:
                continue
            c_reported.add(id(p))
            stats["differences"] += 1
            # does the difference need the C compiler's own optimiser (-Qcc)?  then it is the class recorded as
            # corpus:hand-c-executable-inline-cc (the C generated from optimised FOAM is miscompiled by cc -O)
            nocc = behave(ctx, p, list(c) + ["-Qno-cc"], route="c")
            if same(nocc, base):
                k = "site:c-executable:difference needs -Qcc"
                seen_keys[k] += 1
                if k not in reported:
                    reported.add(k)
                    rep.violation("generated program behaves differently at `%s` than at -Q0 through the C executable only, and only "
                                  "when the C compiler optimises (-Qcc); the interpreter agrees with -Q0 and the oracle"
                                  % cfg_str(c),
                                  {"route": "c", "src": p["src"], "seed": p["seed"], "size": p["size"], "config": c, "lib": "aldor",
                                   "q0": tail(base), "observed": tail(b), "with_no_cc": tail(nocc), "expected": p["expect_out"]},
                                  key=k)
                continue
            rep.violation("generated program behaves differently at `%s` than at -Q0 through the C executable only (%s -> %s; the "
                          "interpreter route agrees with -Q0)" % (cfg_str(c), base["cls"], b["cls"]),
                          {"route": "c", "src": p["src"], "seed": p["seed"], "size": p["size"], "config": c, "lib": "aldor",
                           "q0": tail(base), "observed": tail(b), "expected": p["expect_out"]},
                          key="mini-c:%s:%s" % (hashlib.sha1(p["src"].encode()).hexdigest()[:8], cfg_str(c)))

    if OVERFLOW:
        rep.violation("%d more (program, behaviour) pairs differ from -Q0 (not minimised: the %d minimised reports of this run "
                      "come first)" % (len(OVERFLOW), (4 if tier == "quick" else 30)),
                      {"count": len(OVERFLOW), "configs": dict(collections.Counter(cfg_str(o["config"]) for o in OVERFLOW)),
                       "examples": OVERFLOW[:8]})
    rep.add_cov(evaluations=ctx.runs, distinct_nontrivial=stats["mini_programs"] + stats["corpus_deterministic"],
                rule="same stdout (interpreter stack-trace lines removed) and same exit status class as at -Q0; generated "
                     "programs also compared with the oracle's expected output",
                traces_validated_against_impl=stats["mini_pairs"] + stats["corpus_pairs"] + stats["c_route_pairs"],
                input_distribution={"generated_programs": stats["mini_programs"], "generated_features": dict(feat),
                                    "corpus_candidates": stats["corpus_candidates"],
                                    "corpus_deterministic_at_Q0": stats["corpus_deterministic"],
                                    "config_kinds": dict(cfg_kinds), "configs_in_pool": {k: len(v) for k, v in CF.items() if isinstance(v, list)},
                                    "generated_programs_compared_with_Q0_deadvar": stats["mini_q0_interp_defect"],
                                    "recorded_failures_run": stats["recorded_failures_run"],
                                    "recorded_failures_reproduced": stats["recorded_failures_reproduced"]},
                differences=stats["differences"], keys_seen=dict(seen_keys), flaky=stats["flaky"],
                compile_timeouts_not_decided=stats["compile_timeouts_not_decided"],
                compile_timeouts_where=dict(slow_compiles.most_common(40)),
                runs_differing_from_oracle_by_config=dict(oracle_bad),
                seconds={"generated": round(t_mini, 1), "corpus": round(t_corpus, 1)},
                samples=[{"seed": p["seed"], "size": p["size"], "nodes": p["nodes"]} for p in progs[:6]])


# ====================================================================== tie (b): Fold / Peep models vs the isolated passes

LOCAL_CFGS = [["-Q0", "-Qcfold"], ["-Q0", "-Qpeep"], ["-Q0", "-Qcfold", "-Qpeep"], ["-Q0", "-Qcfold", "-Qffold", "-Qpeep"],
              ["-Q0", "-Qffold", "-Qpeep"]]
# an operand exchange the model calls unsafe (cannot happen with the guards of the current source:
# theorem C02_peep_flag); kept so that a weakened guard is named in the report
# configurations at which the builtin-level programs are only RUN (the passes that work on definitions).
# None of them inlines: with `inline` on, the printing functions imp/impb are inlined and the known inliner
# defect (operands evaluated in another order, corpus:hand-inline-operand-order) changes the order of the
# printed lines of most of these programs - the inliner is exercised by the MiniAldor and corpus parts.
LOCAL_BEHAVIOUR_CFGS = [["-Q1"], ["-Q0", "-Qdeadvar"], ["-Q0", "-Qdassign"], ["-Q0", "-Qcprop"], ["-Q0", "-Qcse"],
                        ["-Q0", "-Qflow"], ["-Q0", "-Qhfold"], ["-Q0", "-Qemerge", "-Qenv"],
                        ["-Q0", "-Qdeadvar", "-Qdassign", "-Qcprop", "-Qcse", "-Qflow", "-Qcfold", "-Qpeep"],
                        ["-Q2", "-Qno-inline"], ["-Q3", "-Qno-inline", "-Qno-inline-all"]]
SWAP_KEYS = {"SIntPlus": "peep:additive-operand-order", "SIntMinus": "peep:additive-operand-order",
             "BoolNot": "peep:negate-operand-order"}


def segments(out):
    """output of a generated builtin-level program, split per call: `stdout << "t<k> " << t<k>(...)` prints
    the tag first, then whatever the call prints, then the value"""
    segs = []
    for line in out.splitlines():
        m = re.match(r"([td]\d+) ", line)
        if m or not segs:
            segs.append([m.group(1) if m else "head", line])
        else:
            segs[-1][1] += "\n" + line
    return [(a, b) for a, b in segs]


def behaviour_diff(outs, c, swaps):
    k = cfg_str(c)
    if k not in outs or outs[k] == outs["-Q0"]:
        return []
    sa, sb = segments(outs["-Q0"][1]), segments(outs[k][1])
    bad = []
    for i, (a, b) in enumerate(zip(sa, sb)):
        if a != b and a[0] not in [x[0] for x in bad]:
            bad.append((a[0], a[1], b[1]))
    if len(sa) != len(sb) or outs[k][0] != outs["-Q0"][0]:
        if not bad:
            bad.append((sa[min(len(sa), len(sb)) - 1][0] if sa and sb else "head", outs["-Q0"][1][-300:], outs[k][1][-300:]))
    res = []
    for fn, qa, qb in bad:
        kinds = sorted({SWAP_KEYS.get(root, "peep:other-operand-order") for root, _ in swaps.get(fn, [])})
        res.append({"config": c, "function": fn, "explained_by": kinds, "q0": qa[:400], "observed": qb[:400],
                    "status": [outs["-Q0"][0], outs[k][0]]})
    return res


def check_local(rep, exe, model, tier):
    """Tie (b) and, on the same programs, the property itself for the two local passes."""
    rng = C.rng("c02-local")
    rc, out, err = C.run([model.exe], input="fragops\nfxops\n", timeout=60)
    frag_ops, fx_ops = [set(l.split()) for l in out.splitlines()[:2]]
    states = model.query(LOCAL_CFGS)
    if any(st is None for st in states):        # the option model rejects them (already reported): ask the compiler
        fb = FallbackModel({})
        states = [st if st is not None else fo for st, fo in zip(states, fb.query(LOCAL_CFGS))]
        states = [st if st is not None else {"tbl": [("cfold", "0"), ("ffold", "0")], "trace": []} for st in states]
    nprog = 24 if tier == "quick" else 200
    progs = [LOC.gen_program(rng, 8, rng.choice([2, 3, 3, 4])) for _ in range(nprog)]
    base = C.scratch("c02loc")
    stats = collections.Counter()
    findings = []          # (kind, payload)

    def one(i):
        src, names = progs[i]
        d = "%s/p%d" % (base, i)
        os.makedirs(d)
        with open(d + "/p.as", "w") as f:
            f.write(src)
        res = {"i": i, "mismatch": [], "behaviour": [], "changed": 0, "fragments": 0, "swaps": collections.Counter()}
        units, outs = {}, {}
        for c in [["-Q0"]] + LOCAL_CFGS + LOCAL_BEHAVIOUR_CFGS:
            k = cfg_str(c)
            rc, out, err = C.run(C.aldor_base_args(exe) + c + ["-Ffm=p.fm", "-Fao=p.ao", "p.as"], cwd=d, env=C.aldor_env(),
                                 timeout=T_RUN, input="")
            if rc != 0 or not os.path.exists(d + "/p.fm"):
                if c in LOCAL_BEHAVIOUR_CFGS:
                    outs[k] = ("compile-error", canon(out)[-300:])
                    continue
                res["compile_error"] = (k, out[-500:])
                return res
            if c not in LOCAL_BEHAVIOUR_CFGS:
                units[k] = LOC.Unit(open(d + "/p.fm", errors="replace").read())
            rc, out, err = C.run(C.aldor_base_args(exe) + ["-laldor", "-ginterp", "p.ao"], cwd=d, env=C.aldor_env(),
                                 timeout=T_RUN, input="")
            outs[k] = ("ok" if rc == 0 else "fail", "\n".join(l for l in canon(out).splitlines() if "will now be out of date" not in l))
            os.remove(d + "/p.fm")
        m = LOC.Model(model.exe)
        try:
            for c, st in zip(LOCAL_CFGS, states):
                k = cfg_str(c)
                tbl = dict(st["tbl"])
                got, swaps = LOC.model_unit(m, units["-Q0"], names, st["trace"], tbl["cfold"] != "0", tbl["ffold"] != "0",
                                            frag_ops, fx_ops)
                for n in names:
                    real = LOC.Unit.parts(units[k].progs[n])[3][1:]
                    before = LOC.Unit.parts(units["-Q0"].progs[n])[3][1:]
                    res["changed"] += int(real != before)
                    if real != got[n]:
                        pair = next(((LOC.show(a), LOC.show(b)) for a, b in zip(real, got[n]) if a != b), ("?", "?"))
                        res["mismatch"].append({"config": c, "function": n, "real": pair[0][:600], "model": pair[1][:600]})
                    for root, txt in swaps.get(n, []):
                        res["swaps"][SWAP_KEYS.get(root, "peep:other-operand-order")] += 1
                # behaviour
                res["behaviour"] += behaviour_diff(outs, c, swaps)
            for c in LOCAL_BEHAVIOUR_CFGS:
                res["behaviour"] += behaviour_diff(outs, c, {})
            res["fragments"] = m.calls
        finally:
            m.close()
        shutil.rmtree(d, ignore_errors=True)
        return res
    with concurrent.futures.ThreadPoolExecutor(C.NCPU) as ex:
        results = list(ex.map(one, range(nprog)))
    mism, beh, swapc = [], [], collections.Counter()
    for r in results:
        if "compile_error" in r:
            stats["compile_errors"] += 1
            continue
        stats["programs"] += 1
        stats["changed_functions"] += r["changed"]
        stats["fragments"] += r["fragments"]
        swapc.update(r["swaps"])
        for x in r["mismatch"]:
            mism.append((r["i"], x))
        for x in r["behaviour"]:
            beh.append((r["i"], x))
    # the property itself on these programs
    reported = set()
    n_unexplained, more_unexplained = 0, []
    for i, x in beh:
        src = progs[i][0]
        fn_src = next((l for l in src.splitlines() if l.startswith(x["function"] + "(")), "")
        if x["explained_by"]:
            for key in x["explained_by"]:
                if key in reported:
                    continue
                reported.add(key)
                rep.violation("the peephole pass exchanges the evaluation order of two operands (%s): a generated builtin-level "
                              "function prints differently at `%s` than at -Q0" % (key, cfg_str(x["config"])),
                              {"how_to_replay": "compile src with <config> and with -Q0 (aldor <base args> <cfg> -Fao=p.ao p.as; "
                                                "aldor <base args> -laldor -ginterp p.ao) and compare the lines of the function",
                               "lib": "aldor", "src": src, "config": x["config"], "function": fn_src, "q0_lines": x["q0"],
                               "observed_lines": x["observed"], "model": "Peep.peep reports ok = false (swap_ok fails) at this node"},
                              key=key)
        else:
            h = hashlib.sha1(fn_src.encode()).hexdigest()[:8]
            if h in reported:
                continue
            reported.add(h)
            n_unexplained += 1
            if n_unexplained > 3:
                more_unexplained.append({"function": fn_src, "config": x["config"], "q0_lines": x["q0"], "observed_lines": x["observed"]})
                continue
            key = "local:%s:%s" % (h, cfg_str(x["config"]))
            # minimal program: the header, the two printing functions, this function and its calls
            fn = x["function"]
            keep = [l for l in src.splitlines()
                    if not re.match(r"t\d+\(", l) and not re.match(r'stdout << "t\d+ "', l)]
            keep += [l for l in src.splitlines() if l.startswith(fn + "(") or l.startswith('stdout << "%s "' % fn)]
            small = "\n".join(keep) + "\n"
            ctx = Ctx(exe, C.scratch("c02locmin"))
            a = behave(ctx, {"lib": "aldor", "src": small}, ["-Q0"])
            b = behave(ctx, {"lib": "aldor", "src": small}, x["config"])
            rep.violation("a generated builtin-level function prints differently at `%s` than at -Q0 (no operand exchange "
                          "flagged by the model)" % cfg_str(x["config"]),
                          {"how_to_replay": "./check C02 --replay <this file>", "lib": "aldor", "src": src, "config": x["config"],
                           "function": fn_src, "q0_lines": x["q0"], "observed_lines": x["observed"],
                           "minimal_program": {"src": small, "still_differs": not same(a, b),
                                               "q0": a["out"][-400:], "observed": b["out"][-400:]}}, key=key)
    if more_unexplained:
        rep.violation("%d more generated builtin-level functions print differently at some setting than at -Q0 (the first 3 "
                      "are reported with their minimal program)" % len(more_unexplained), {"examples": more_unexplained[:10]})
    if mism:
        i, x = mism[0]
        rep.violation("correspondence Fold/Peep model vs the isolated pass no longer checks: function %s at `%s` (%d functions differ)"
                      % (x["function"], cfg_str(x["config"]), len(mism)),
                      {"src": progs[i][0], "first": x, "all": [m for _, m in mism[:10]],
                       "how_to_replay": "aldor <base args> <config> -Ffm=p.fm p.as ; compare the Seq of the function with the model"},
                      no_input=True)
    rep.add_cov(local_programs=stats["programs"], local_compile_errors=stats["compile_errors"],
                local_functions_changed_by_real_pass=stats["changed_functions"], local_model_pass_calls=stats["fragments"],
                local_tie_mismatches=len(mism), local_behaviour_differences=len(beh), local_unsafe_swaps_flagged=dict(swapc),
                local_configs=[cfg_str(c) for c in LOCAL_CFGS])
    rep.cov["traces_validated_against_impl"] = rep.cov.get("traces_validated_against_impl", 0) + stats["programs"] * len(LOCAL_CFGS)


# ====================================================================== the data-flow family (global passes)

FLOW_CFGS = [["-Q1"], ["-Q2"], ["-Q3"], ["-Q5"], ["-Q2", "-Qno-cse"], ["-Q0", "-Qcse"], ["-Q0", "-Qcprop"], ["-Q0", "-Qdeadvar"],
             ["-Q0", "-Qdassign"], ["-Q0", "-Qflow"], ["-Q0", "-Qemerge", "-Qenv"],
             ["-Q0", "-Qcse", "-Qcprop", "-Qdeadvar", "-Qdassign", "-Qflow", "-Qpeep", "-Qcfold"], ["-Q2", "-Qno-inline"],
             ["-Q3", "-Qno-cprop"]]


def check_flow(rep, exe, tier):
    """tools/c02_flow.py: functions made of self-updates, copies, branches, bounded loops, early returns and
    re-use of the same right-hand sides - the shapes whose data-flow facts must be killed or kept across basic
    blocks - at the builtin level, run at -Q0 and at FLOW_CFGS, compared with -Q0 AND with the direct evaluator."""
    rng = C.rng("c02-flow")
    nprog = 16 if tier == "quick" else 160
    ctx = Ctx(exe, C.scratch("c02flow"))
    progs = []
    for _ in range(nprog):
        funs = FLOW.gen_program(rng, 6)
        src, exp = FLOW.render_program(funs)
        progs.append((funs, src, exp))
    jobs = [(i, c) for i in range(nprog) for c in [["-Q0"]] + FLOW_CFGS]
    with concurrent.futures.ThreadPoolExecutor(C.NCPU) as ex:
        res = list(ex.map(lambda j: behave(ctx, {"lib": "aldor", "src": progs[j[0]][1]}, j[1], timeout=20), jobs))
    base = {i: b for (i, c), b in zip(jobs, res) if c == ["-Q0"]}
    bad = []        # (program index, config, function name, behaviour)
    n_q0_bad = 0
    for (i, c), b in zip(jobs, res):
        exp = {"cls": "ok", "out": progs[i][2]}
        if same(b, exp):
            continue
        if b["cls"] == "timeout" and b.get("step") == "compile":
            continue
        if c == ["-Q0"]:
            n_q0_bad += 1
        sa, sb = segments(exp["out"]), segments(b["out"])
        fn = next((x[0] for x, y in zip(sa, sb) if x != y), sa[min(len(sa), len(sb)) - 1][0] if sa and sb else "d0")
        bad.append((i, c, fn, b))
    seen, n_rep, more = set(), 0, []
    for i, c, fn, b in bad:
        funs = dict(progs[i][0])
        if fn not in funs or (i, fn) in seen:
            continue
        seen.add((i, fn))
        f = funs[fn]

        def differs(g, c=c, fn=fn):
            s, e = FLOW.render_program([(fn, g)])
            o = behave(ctx, {"lib": "aldor", "src": s}, c, timeout=15)
            if o["cls"] == "timeout" and o.get("step") == "compile":
                return False
            if same(o, {"cls": "ok", "out": e}):
                return False
            if c == ["-Q0"]:
                return True
            o0 = behave(ctx, {"lib": "aldor", "src": s}, ["-Q0"], timeout=15)
            return same(o0, {"cls": "ok", "out": e})        # the unoptimised program agrees with the evaluator
        if not differs(f):
            more.append({"function": fn, "config": c, "note": "not reproducible with the function alone"})
            continue
        n_rep += 1
        if n_rep > 3:
            more.append({"function": "\n".join(FLOW.render_function(fn, f)), "config": c})
            continue
        g = FLOW.shrink(f, differs, 80 if tier == "quick" else 200)
        s, e = FLOW.render_program([(fn, g)])
        o = behave(ctx, {"lib": "aldor", "src": s}, c, timeout=15)
        o0 = behave(ctx, {"lib": "aldor", "src": s}, ["-Q0"], timeout=15)
        rep.violation("a generated data-flow function (self-updates / copies / branches / loops / re-used right-hand sides) behaves "
                      "differently at `%s` than at -Q0 and than the direct evaluator (%s -> %s); %s"
                      % (cfg_str(c), o0["cls"], o["cls"],
                         "the optimised side is wrong" if same(o0, {"cls": "ok", "out": e}) else "the -Q0 run differs from the evaluator"),
                      {"how_to_replay": "./check C02 --replay <this file>", "lib": "aldor", "src": s, "config": c,
                       "function": "\n".join(FLOW.render_function(fn, g)), "expected": e, "q0": tail(o0), "observed": tail(o),
                       "found_in_program_with": len(progs[i][0])},
                      key="flow:%s:%s" % (FLOW.fhash(fn, g), cfg_str(c)))
    if more:
        rep.violation("%d more generated data-flow functions behave differently at some setting (the first 3 are reported shrunk)"
                      % len(more), {"examples": more[:10]})
    rep.add_cov(flow_programs=nprog, flow_functions=6 * nprog, flow_pairs=len(jobs), flow_configs=[cfg_str(c) for c in FLOW_CFGS],
                flow_differences=len(bad), flow_q0_differs_from_evaluator=n_q0_bad)
    rep.cov["traces_validated_against_impl"] = rep.cov.get("traces_validated_against_impl", 0) + len(jobs)


# ====================================================================== float operands (peephole, fast table)

FLOAT_CFGS = [["-Q1"], ["-Q2"], ["-Q3"], ["-Q0", "-Qpeep"], ["-Q0", "-Qffold"], ["-Q0", "-Qffold", "-Qpeep"],
              ["-Q0", "-Qcfold", "-Qffold", "-Qpeep"], ["-Q2", "-Qno-ffold"]]


def check_float(rep, exe, tier):
    """tools/c02_float.py: one function per rule shape of the peephole tables at DFlo, applied to NaN, +-inf,
    +-0.0, 1.0, -2.5 selected at run time.  The Coq model does not cover floats (C02_peep_float_rows_not_covered);
    a shape whose result changes with the setting is reported under the fixed key peep:fast-float-table:<shape>."""
    ctx = Ctx(exe, C.scratch("c02float"))
    src, names = FLT.program()
    cfgs = [["-Q0"]] + FLOAT_CFGS
    with concurrent.futures.ThreadPoolExecutor(C.NCPU) as ex:
        res = list(ex.map(lambda c: behave(ctx, {"lib": "aldor", "src": src}, c), cfgs))
    base = res[0]
    if base["cls"] != "ok":
        rep.violation("the float-operand program does not run at -Q0 (%s)" % base["cls"], {"src": src, "q0": tail(base)}, no_input=True)
        return
    vals = [v[0] for v in FLT.VALUES]
    by_shape = collections.OrderedDict()
    for c, b in zip(cfgs[1:], res[1:]):
        if b["cls"] != "ok":
            by_shape.setdefault("<run>", []).append((cfg_str(c), "run ends with %s" % b["cls"], ""))
            continue
        for l0, l1 in zip(base["out"].splitlines(), b["out"].splitlines()):
            if l0 != l1:
                w = l0.split()
                k = int(w[0][1:])
                by_shape.setdefault(names[k], []).append((cfg_str(c), "x=%s y=%s: %s at -Q0" % (vals[int(w[1])], vals[int(w[2])], w[3]),
                                                          l1.split()[-1]))
    for shape, items in by_shape.items():
        k = names.index(shape) if shape in names else -1
        rep.violation("float operands: the rule shape `%s` gives another result at %s than at -Q0 (%d operand pairs; e.g. %s -> %s)"
                      % (shape, sorted({i[0] for i in items}), len({i[1] for i in items}), items[0][1], items[0][2]),
                      {"shape": shape, "function": FLT.SHAPES[k][2] if k >= 0 else None, "configs": sorted({i[0] for i in items}),
                       "examples": items[:12], "src": src, "lib": "aldor", "config": items[0][0].split(),
                       "how_to_replay": "./check C02 --replay <this file>  (lines `g%d <x index> <y index> <class>`; class = "
                                        "zero? negative? positive? 1/r negative?, NaN = FFFF)" % k},
                      key="peep:fast-float-table:%s" % shape)
    rep.add_cov(float_shapes=len(names), float_operand_pairs=len(vals) ** 2, float_configs=[cfg_str(c) for c in FLOAT_CFGS],
                float_shapes_differing=[s_ for s_ in by_shape])
    rep.cov["traces_validated_against_impl"] = rep.cov.get("traces_validated_against_impl", 0) + len(cfgs)


# ====================================================================== entry

def run(rep, tier):
    G = generate()
    if G["unknown_stages"] or G["unknown_steps"]:
        rep.notes.append("translator: unrecognised statements: %s" % (G["unknown_stages"] + G["unknown_steps"])[:4])
    ok = C.proof_stage(rep, ID, TARGETS, PROPS, None, defer=True)
    # the deferred no-failing-input-found line of vlib.common is also suppressed by KNOWN findings, which
    # this property always has: decide here, on new violations only
    rep.proof_finalize = None
    n_viol0 = len(rep.violations)
    exe = C.build_compiler()
    mini.build(rebuild_coq=True)
    model = None
    try:
        okm, log = C.coq_make(["Opt/Extract.vo"])
        if okm:
            model = check_opt_model(rep, exe, G, tier)
    except C.BuildError as e:
        rep.notes.append("option model not built: %s" % str(e)[:300])
    if model is None:
        rep.violation("the option model does not build against the regenerated table (coq/Gen/OptCtl.v): configurations "
                      "are taken at face value", {"translator": {k: G[k] for k in ("stages", "steps", "level_shape")}}, no_input=True)
        model = FallbackModel(G)
    if isinstance(model, OptModel):
        try:
            check_local(rep, exe, model, tier)
        except C.BuildError as e:
            rep.violation("tie of the Fold/Peep models could not run: %s" % str(e)[:200], {"error": str(e)}, no_input=True)
    check_flow(rep, exe, tier)
    check_float(rep, exe, tier)
    differential(rep, tier, exe, G, model)
    if not ok and len(rep.violations) == n_viol0:
        okm, log = C.coq_make(TARGETS)
        if okm:
            log = C.check_props_file(PROPS)["log"]
        failing = re.findall(r'File "([^"]+)", line (\d+)', log)
        rep.violation("proof obligation no longer checks: %s (the explorations of this run found no program whose behaviour "
                      "changes)" % (failing[:3],),
                      {"failing": failing[:10], "log_tail": log[-3000:], "props": PROPS}, no_input=True)
    rep.assume("the interpreter run of a saved .ao (`aldor -l<lib> -ginterp p.ao`) executes the FOAM the compile step wrote "
               "(compSavedFile does not call optimizeFoam)",
               "pre-built libaldor / axllib of /repo (compiled at their own -Q level) are linked as they are",
               "MiniAldor oracle (C01) for the expected output of generated programs")


class FallbackModel:
    """Used only when the Coq model no longer builds: reads the configuration from the compiler."""
    def __init__(self, G):
        self.G = G
        self.exe = C.build_compiler()
        self.d = C.scratch("c02fb")
        open(self.d + "/t.as", "w").write("x: with == add;\n")

    def query(self, seqs):
        out = []
        for s in seqs:
            g = observe_opts(self.exe, self.d, s)
            out.append(None if g["rejected"] else {"lvl": int(s[0][2:]) if s and re.fullmatch(r"-Q\d", s[0]) else 1,
                                                   "tbl": g["tbl"],
                                                   "trace": [x for x in g["trace"] if x != "Starting expr inline..."]})
        return out


# ====================================================================== discovery (developer aid)

def discover(names=None):
    """Run every deterministic corpus program under the levels and the single passes, minimise each
    difference and write it as a record corpus/C02/<name>[-k].json.  Not part of the check."""
    G = generate()
    C.coq_make(["Opt/Extract.vo"])
    model = OptModel()
    exe = C.build_compiler()
    ctx = Ctx(exe, C.scratch("c02disc"))
    CF = all_configs(G, C.rng("c02-disc"), 0)
    cand = [p for p in corpus_programs() if names is None or p["name"] in names]
    with concurrent.futures.ThreadPoolExecutor(C.NCPU) as ex:
        el = list(ex.map(lambda p: eligible(ctx, p), cand))
    eprogs = [(p, b) for p, b in zip(cand, el) if b is not None]
    print("deterministic at -Q0: %d of %d" % (len(eprogs), len(cand)))
    cs = [c for c in CF["levels"] if c != ["-Q0"]] + CF["singles"]
    jobs = [(p, c, b) for p, b in eprogs for c in cs]
    cache = os.environ.get("C02_DISC_CACHE")
    if cache and os.path.exists(cache):
        res = json.load(open(cache))
    else:
        res = run_matrix(ctx, [(p, c) for p, c, b in jobs])
        if cache:
            json.dump(res, open(cache, "w"))
    groups = collections.OrderedDict()
    for (p, c, base), b in zip(jobs, res):
        if same(b, base):
            continue
        if b["cls"] == "timeout" and base["t"] > T_RUN / 20:
            continue
        groups.setdefault((p["name"], b["cls"], b["out"]), (p, c, base, b))
    print("differing (program, behaviour) groups:", len(groups))
    os.makedirs(CORPUS_DIR, exist_ok=True)
    written = collections.Counter()
    byprog = collections.defaultdict(list)
    for (name, _, _), (p, c, base, b) in groups.items():
        byprog[name].append((p, c, base, b))
    for name, items in byprog.items():
        recs = []
        for p, c, base, b in items:
            if any(same(r["_obs"], b) for r in recs):
                continue
            b2 = behave(ctx, p, c)
            if not same(b2, b):
                print("flaky", name, cfg_str(c))
                continue
            mc = minimise_config(ctx, p, c, base, model, G)
            mobs = behave(ctx, p, mc)
            if same(mobs, base):
                mc, mobs = list(c), b
            if any(same(r["_obs"], mobs) for r in recs):
                continue
            key = "corpus:%s:%s" % (name, cfg_str(mc))
            r = {"name": name, "lib": p["lib"], "config": mc, "key": key, "found_at": c, "verdict": verdict(p, base, mobs),
                 "q0": tail(base), "observed": tail(mobs), "_obs": mobs}
            recs.append(r)
        for i, r in enumerate(recs):
            r = {k: v for k, v in r.items() if k != "_obs"}
            r["q0"]["out"] = r["q0"]["out"][-600:]
            r["observed"]["out"] = r["observed"]["out"][-600:]
            with open("%s/%s%s.json" % (CORPUS_DIR, name, "" if i == 0 else "-%d" % i), "w") as f:
                json.dump(r, f, indent=1)
            print(r["key"], "|", r["verdict"], "|", r["q0"]["cls"], "->", r["observed"]["cls"])
            written[name] += 1
    print("records:", sum(written.values()), "programs:", len(written), "runs:", ctx.runs)
