"""C20, part "bitv": bit vectors (bitv.c) as sets.

  proof stage     coq/Props/Properties_C20_bitv.v (model coq/Bitv/Model.v, lemmas coq/Bitv/Facts.v)
  correspondence  harness/bitv/h.c (linked with the CURRENT bitv.c) against the extracted model: the raw
                  words (including the unused bits of the last word) and every answer must be identical
  oracle          python sets of indices kept here: and/or/minus/not/set/clear/setall/clearall/copy are
                  set algebra, count = cardinality, max = largest element or -1, equal = set equality,
                  unique-1, fromint/toint, resize keeps the old elements
  evidence        rep.add_cov(bitv={...})
"""
import json, os, time
from vlib import common as C

PART = "bitv"
PID = "C20"
PROPS = "Props/Properties_C20_bitv.v"
TARGETS = ["Props/Properties_C20_bitv.vo", "Bitv/Extract.vo"]
KEY_RESIZE = "bitv:resize-frees-interior-pointer"

MANIFEST_PART = {
    "what": "bitv.c: bitvClassCreate, bitvTest/Set/Clear, bitvSetAll/ClearAll/Copy/Not/And/Or/Minus, bitvEqual (mask "
            "of the last word), bitvMax/Count/CountTo/Unique1IndexInRange, bitvFromInt/ToInt, bitvToString/bitvPrint (text and count), bitvResize (values) as "
            "Gallina functions on lists of 64-bit words with explicit wrap-around; theorems for every length and "
            "arbitrary content of the unused bits: set algebra against list bool, equality <-> same set, count, max, "
            "unique-1, int round trip, resize keeps old elements, word range preserved. Tie: random + boundary-aimed "
            "histories (lengths 0,1,63,64,65,127,128,129,...; indices at word edges; garbage in the unused bits) "
            "through harness/bitv/h.c vs extracted model on raw words; python set oracle.",
    "not_modelled": "storage (bitvNew content, bitvFree, bitvManyNew's single block: correspondence only), "
                    "bitvPrint/bitvToString with a NULL class and bitvPrintDb, `int` index overflow; bitvResize's release of the old vector",
}

_built = {}


def lib_files():
    gen = C.makefile_am_sources("libgen_a_SOURCES")
    port = C.makefile_am_sources("libport_a_SOURCES")
    return [f for f in gen + port if f != "test.c"]


def harness():
    if "h" not in _built:
        _built["h"] = C.build_harness("bitv", "bitv/h.c", lib_files())
    return _built["h"]


def model():
    if "m" not in _built:
        d = C.COQ + "/Bitv/extracted/"
        _built["m"] = C.build_ocaml("bitvm", [d + "bitv_model.mli", d + "bitv_model.ml"], C.COQ + "/Bitv/driver.ml")
    return _built["m"]


def run_lines(exe, lines, timeout=900):
    rc, out, err = C.run([exe], input="\n".join(lines) + "\n", timeout=timeout)
    res = out.split("\n")
    if res and res[-1] == "":
        res.pop()
    return rc, res, err


def run_impl(lines):
    """the harness, restarted after a fatal exit (the failing history is cut at its next `class`)"""
    out = []
    pos = 0
    deaths = 0
    while pos < len(lines):
        rc, part, err = run_lines(harness(), lines[pos:])
        out += part[:len(lines) - pos]
        pos = len(out)
        if pos < len(lines):
            deaths += 1
            out.append("crash-exit(%s)" % err.strip()[-100:].replace("\n", " "))
            pos += 1
            # skip to the next history
            while pos < len(lines) and not lines[pos].startswith("class"):
                out.append("skipped")
                pos += 1
            if deaths > 50:
                out += ["skipped"] * (len(lines) - len(out))
                break
    return out


# ------------------------------------------------------------------ oracle
class Ref:
    def __init__(self, n):
        self.n = n
        self.reg = {}

    def bitstr(self, s, n=None):
        n = self.n if n is None else n
        return "".join("1" if i in s else "0" for i in range(n)) if n else "-"

    def check(self, line, res):
        t = line.split()
        op = t[0]
        if res.startswith("crash"):
            return "implementation crashed (%s) on %r" % (res, line)
        a = [int(x) for x in t[1:]] if op != "new" else None
        full = set(range(self.n))
        R = self.reg

        def fromraw(words):
            s = set()
            for wi, w in enumerate(words):
                for k in range(64):
                    if (w >> k) & 1 and 64 * wi + k < self.n:
                        s.add(64 * wi + k)
            return s

        def rawcheck(r):
            if res == "-":
                words = []
            else:
                try:
                    words = [int(x, 16) for x in res.split()]
                except ValueError:
                    return "unparsable result %r" % res
            if fromraw(words) != R[r]:
                return "%r left register %d = {%s...} but set algebra gives {%s...}" % (
                    line, r, sorted(fromraw(words) ^ R[r])[:5], sorted(R[r])[:5])
            return None
        if op == "new":
            r = int(t[1])
            R[r] = fromraw([int(x, 16) for x in t[2:]])
            return None
        if op == "setall":
            R[a[0]] = set(full); return rawcheck(a[0])
        if op == "clearall":
            R[a[0]] = set(); return rawcheck(a[0])
        if op == "set":
            R[a[0]] = R[a[0]] | {a[1]}; return rawcheck(a[0])
        if op == "clear":
            R[a[0]] = R[a[0]] - {a[1]}; return rawcheck(a[0])
        if op == "copy":
            R[a[0]] = set(R[a[1]]); return rawcheck(a[0])
        if op == "not":
            R[a[0]] = full - R[a[1]]; return rawcheck(a[0])
        if op == "and":
            R[a[0]] = R[a[1]] & R[a[2]]; return rawcheck(a[0])
        if op == "or":
            R[a[0]] = R[a[1]] | R[a[2]]; return rawcheck(a[0])
        if op == "minus":
            R[a[0]] = R[a[1]] - R[a[2]]; return rawcheck(a[0])
        exp = None
        if op == "test":
            exp = "1" if a[1] in R[a[0]] else "0"
        elif op == "equal":
            exp = "1" if R[a[0]] == R[a[1]] else "0"
        elif op == "max":
            exp = str(max(R[a[0]])) if R[a[0]] else "-1"
        elif op == "count":
            exp = str(len(R[a[0]]))
        elif op == "countto":
            exp = str(len([i for i in R[a[0]] if i < a[1]]))
        elif op == "unique":
            inr = [i for i in R[a[0]] if a[1] <= i < a[2]]
            exp = str(inr[0]) if len(inr) == 1 else "-1"
        elif op == "toint":
            exp = str(sum(1 << i for i in R[a[0]]))
        elif op == "tostring":
            t = "[" + "".join(("1" if i in R[a[0]] else "0") + (" " if i % 5 == 4 else "") for i in range(self.n)) + "]"
            exp = "%s|%s|%d" % (t, t, len(t))
        elif op == "fromint":
            R[a[0]] = {i for i in range(self.n) if (a[1] >> i) & 1}
            exp = self.bitstr(R[a[0]])
        elif op == "bits":
            exp = self.bitstr(R[a[0]])
        elif op == "resize":
            keep = min(self.n, a[1])
            exp = self.bitstr(R[a[0]], keep)
            old = R[a[0]]
            self.n = a[1]
            self.reg = {a[0]: {i for i in old if i < keep}}
            R = self.reg
        elif op == "manynew":
            exp = " ".join(["0" * self.n if self.n else "-"] * a[0]) if a[0] else "-"
        if exp is not None and res != exp:
            return "%r answered %s, the set model says %s" % (line, res[:80], exp[:80])
        return None


def split_histories(lines):
    hs, cur = [], []
    for l in lines:
        if l.startswith("class") and cur:
            hs.append(cur)
            cur = []
        cur.append(l)
    if cur:
        hs.append(cur)
    return hs


REG_ARGS = {"setall": (1, 0), "clearall": (1, 0), "set": (1, 0), "clear": (1, 0), "copy": (1, 1), "not": (1, 1),
            "and": (1, 2), "or": (1, 2), "minus": (1, 2), "test": (0, 1), "equal": (0, 2), "max": (0, 1),
            "count": (0, 1), "countto": (0, 1), "unique": (0, 1), "toint": (0, 1), "tostring": (0, 1), "bits": (0, 1), "resize": (0, 1)}


def valid(lines):
    """every register is created (new / fromint / as a destination) before it is read, indices in range"""
    if not lines or not lines[0].startswith("class"):
        return False
    defined, n = set(), 0
    for l in lines:
        t = l.split()
        op = t[0]
        try:
            if op == "class":
                defined, n = set(), int(t[1])
            elif op in ("new", "fromint"):
                defined.add(int(t[1]))
            elif op == "manynew":
                pass
            else:
                ndst, nsrc = REG_ARGS[op]
                a = [int(x) for x in t[1:]]
                if ndst and a[0] not in defined:
                    return False          # destinations must be allocated vectors too
                srcs = a[ndst:ndst + nsrc] if ndst else a[:nsrc]
                if any(r not in defined for r in srcs):
                    return False
                if op in ("set", "clear", "test") and not (0 <= a[1] < n):
                    return False
                if op == "countto" and not (0 <= a[1] <= n):
                    return False
                if op == "unique" and not (0 <= a[1] <= a[2] <= n):
                    return False
                if op == "resize":
                    defined, n = {a[0]}, a[1]
        except (KeyError, IndexError, ValueError):
            return False
    return True


def judge(lines, cout, mout):
    if not valid(lines):
        return None
    ref = None
    first_mismatch = None            # a property failure anywhere in the history takes precedence
    for i, l in enumerate(lines):
        c = cout[i] if i < len(cout) else "crash-exit"
        m = mout[i] if i < len(mout) else "model-missing"
        if c == "skipped":
            return None
        if l.startswith("class"):
            n = int(l.split()[1])
            ref = Ref(n)
            bad = None if c == str((n + 63) // 64) else "class %d has %s words" % (n, c)
        else:
            try:
                bad = ref.check(l, c)
            except (KeyError, IndexError, ValueError):
                return None          # not a well-formed script (a register used before `new`): nothing to judge
        if bad:
            return (i, "property", bad)
        if c != m and first_mismatch is None:
            first_mismatch = (i, "mismatch", "implementation %r, model %r" % (c, m))
    return first_mismatch


# ------------------------------------------------------------------ generator
LENGTHS = (0, 1, 2, 7, 31, 32, 33, 62, 63, 64, 65, 66, 100, 126, 127, 128, 129, 130, 191, 192, 193, 200, 256, 257)


def rand_word(rnd):
    w = rnd.random()
    if w < 0.15:
        return 0
    if w < 0.3:
        return (1 << 64) - 1
    if w < 0.45:
        return 1 << rnd.choice((0, 1, 31, 32, 62, 63))
    if w < 0.55:
        return ((1 << 64) - 1) ^ (1 << rnd.choice((0, 1, 31, 32, 62, 63)))
    return rnd.getrandbits(64)


def rand_index(rnd, n):
    w = rnd.random()
    edges = [i for i in (0, 1, 62, 63, 64, 65, 126, 127, 128, 129, n - 2, n - 1, (n // 64) * 64, (n // 64) * 64 - 1)
             if 0 <= i < n]
    if w < 0.5 and edges:
        return rnd.choice(edges)
    return rnd.randrange(n)


def history(rnd, kind):
    if kind == "int":
        n = rnd.randint(0, 31)
    else:
        n = rnd.choice(LENGTHS) if rnd.random() < 0.8 else rnd.randint(0, 300)
    nw = (n + 63) // 64
    lines = ["class %d" % n]
    nreg = rnd.randint(2, 5)
    for r in range(nreg):
        lines.append("new %d %s" % (r, " ".join("%x" % rand_word(rnd) for _ in range(nw))))
    if kind == "equal" and nw > 0:
        # 0: random; 1: same elements, different unused bits in the last word; 2: one used bit flipped
        nreg = max(nreg, 3)
        ws = [rand_word(rnd) for _ in range(nw)]
        used = n - 64 * (nw - 1)                      # 1..64 used bits in the last word
        w1 = list(ws)
        if used < 64:
            w1[-1] = (ws[-1] & ((1 << used) - 1)) | (rnd.getrandbits(64 - used) << used)
        w2 = list(w1)
        ix = rand_index(rnd, n)
        w2[ix // 64] ^= 1 << (ix % 64)
        for r, w in ((0, ws), (1, w1), (2, w2)):
            lines.append("new %d %s" % (r, " ".join("%x" % x for x in w)))
        lines += ["equal 0 1", "equal 1 0", "equal 0 2", "equal 2 1", "count 0", "count 1", "max 1", "bits 1"]
    steps = rnd.randint(5, 60)
    for _ in range(steps):
        w = rnd.random()
        r, a, b = (rnd.randrange(nreg) for _ in range(3))
        if w < 0.30:
            lines.append("%s %d %d %d" % (rnd.choice(("and", "or", "minus")), r, a, b))
        elif w < 0.40:
            lines.append("not %d %d" % (r, a))
        elif w < 0.45:
            lines.append("%s %d" % (rnd.choice(("setall", "clearall")), r))
        elif w < 0.50:
            lines.append("copy %d %d" % (r, a))
        elif w < 0.62 and n > 0:
            lines.append("%s %d %d" % (rnd.choice(("set", "clear")), r, rand_index(rnd, n)))
        elif w < 0.68 and n > 0:
            lines.append("test %d %d" % (r, rand_index(rnd, n)))
        elif w < 0.76:
            lines.append("equal %d %d" % (a, b))
        elif w < 0.82:
            lines.append("count %d" % r)
        elif w < 0.88:
            lines.append("max %d" % r)
        elif w < 0.91:
            lines.append("countto %d %d" % (r, rnd.randint(0, n)))
        elif w < 0.95:
            lo = rnd.randint(0, n)
            lines.append("unique %d %d %d" % (r, lo, rnd.randint(lo, n)))
        elif w < 0.975:
            lines.append("tostring %d" % r)
        else:
            lines.append("bits %d" % r)
    if kind == "int":
        v = rnd.choice((0, 1, -1, -2, 5, 2 ** 31 - 1, -2 ** 31, rnd.randint(-2 ** 31, 2 ** 31 - 1)))
        lines.append("fromint 0 %d" % v)
        lines.append("toint 0")
        lines.append("tostring 0")
        lines.append("count 0")
        lines.append("manynew %d" % rnd.randint(0, 3))
    if kind == "resize":
        delta = rnd.choice((-70, -1, 0, 1, 1, 1, 2, 64, 65))
        lines.append("resize %d %d" % (rnd.randrange(nreg), max(0, n + delta)))
    return lines


def shrink_history(h, fails, budget=200):
    cur = h
    chunk = max(1, (len(cur) - 1) // 2)
    while chunk >= 1 and budget > 0:
        i = 1
        progressed = False
        while i < len(cur) and budget > 0:
            cand = cur[:i] + cur[i + chunk:]
            budget -= 1
            if fails(cand):
                cur = cand
                progressed = True
            else:
                i += chunk
        if not progressed or chunk == 1:
            chunk //= 2
    return cur


def is_resize_growth_crash(h, c):
    """bitvResize to more words dies in stoFree (the defect repaired by /repo 1ed2bd0: bitvFree of the advanced pointer)"""
    for l, r in zip(h, c):
        if l.startswith("resize") and r.startswith("crash"):
            return True
    return False


def campaign(rep, tier, state):
    if state.get("done"):
        return
    state["done"] = True
    t0 = time.time()
    rnd = C.rng("c20-bitv")
    hs = []
    corpus = os.path.join(C.VERIF, "corpus", PID, "bitv.lines")
    if os.path.exists(corpus):
        hs += split_histories([l for l in open(corpus).read().split("\n") if l.strip()])
    ncorp = len(hs)
    nh = 700 if tier == "quick" else 12000
    kinds = ("mixed", "mixed", "equal", "int", "resize")
    dist = {}
    for i in range(nh):
        k = kinds[i % len(kinds)]
        dist[k] = dist.get(k, 0) + 1
        hs.append(history(rnd, k))
    lines = [l for h in hs for l in h]
    cout = run_impl(lines)
    rm, mout, merr = run_lines(model(), lines)
    if len(mout) != len(lines):
        raise RuntimeError("bitv model driver failed: rc=%s %s" % (rm, merr[-300:]))
    pos = 0
    failures = 0
    resize_hits = 0
    opsd = {}
    lens = {}
    failing = []
    for h in hs:
        n = len(h)
        c, m = cout[pos:pos + n], mout[pos:pos + n]
        pos += n
        for l in h:
            o = l.split()[0]
            opsd[o] = opsd.get(o, 0) + 1
        nb = int(h[0].split()[1])
        lens[nb] = lens.get(nb, 0) + 1
        bad = judge(h, c, m)
        if bad is not None:
            failing.append((h, c, bad))
    failing.sort(key=lambda x: (x[2][1] != "property", len(x[0])))       # property failures first, short first
    for h, c, bad in failing:
        if is_resize_growth_crash(h, c) and h[bad[0]].startswith("resize"):
            resize_hits += 1
            if resize_hits == 1:
                oldn, newn = int(h[0].split()[1]), int(h[bad[0]].split()[2])
                small = ["class %d" % oldn, "new 0 " + " ".join(["f0"] * ((oldn + 63) // 64)),
                         "resize 0 %d" % newn]
                c2 = run_impl(small)
                rep.violation("bitv: bitvResize from %d to %d bits (more words) does not return: %s; the old elements "
                              "must be kept" % (oldn, newn, c2[-1]),
                              {"part": PART, "lines": small, "impl": c2}, key=KEY_RESIZE)
            continue
        failures += 1
        if failures > 3:
            continue
        kind0 = bad[1]

        def fails(cand):
            c2 = run_impl(cand)
            _, m2, _ = run_lines(model(), cand, timeout=60)
            b = judge(cand, c2, m2)
            return b is not None and b[1] == kind0
        small = shrink_history(h[:bad[0] + 1], fails)
        c2 = run_impl(small)
        _, m2, _ = run_lines(model(), small, timeout=60)
        b2 = judge(small, c2, m2) or bad
        replay = {"part": PART, "lines": small, "impl": c2, "model": m2}
        if b2[1] == "property":
            rep.violation("bitv: %s (operation %d of the replayed history)" % (b2[2], b2[0]), replay,
                          key="bitv:" + " ".join(small)[:200])
            try:
                os.makedirs(os.path.dirname(corpus), exist_ok=True)
                with open(corpus, "a") as f:
                    f.write("\n".join(small) + "\n")
            except OSError:
                pass
        else:
            rep.violation("correspondence bitv no longer checks: %s at operation %d; the set-algebra property still "
                          "holds on that history" % (b2[2], b2[0]), replay, no_input=True)
    rep.add_cov(bitv={
        "evaluations": len(lines), "histories": len(hs), "distinct_nontrivial": len(set(zip(lines, cout))),
        "traces_validated_against_impl": len(hs),
        "rule": "raw words and every answer identical between harness/bitv/h.c (current bitv.c) and the extracted "
                "model; python set oracle on every implementation result",
        "input_distribution": {"history_kinds": dist, "operations": opsd,
                               "lengths": {str(k): v for k, v in sorted(lens.items())}, "corpus_histories": ncorp},
        "failures": failures, "known_finding_hits": {KEY_RESIZE: resize_hits},
        "samples": [{"op": l, "impl": c} for l, c in list(zip(lines, cout))[:600:53]],
        "seconds": round(time.time() - t0, 1)})
    rep.add_cov(evaluations=len(lines), traces_validated_against_impl=len(hs))


def run_part(rep, tier):
    state = {}

    def searcher(log):
        try:
            campaign(rep, tier, state)
        except C.BuildError as e:
            rep.notes.append("bitv searcher could not build: %s" % str(e)[:200])

    prev_axioms = dict(rep.cov.get("axioms") or {})      # proof_stage replaces these keys: keep the other parts'
    ok = C.proof_stage(rep, PID, TARGETS, PROPS, searcher)
    merged = dict(prev_axioms)
    merged.update(rep.cov.get("axioms") or {})
    rep.cov["axioms"] = merged
    rep.add_cov(**{PART + "_proof": {"ok": bool(ok), "properties_file": "coq/" + PROPS,
                                     "checker_cmd": "make -C coq %s && coqc -Q . AV %s" % (" ".join(TARGETS), PROPS)}})
    campaign(rep, tier, state)
    rep.assume(
        "bitv: extraction of coq/Bitv/Model.v with ExtrOcamlBasic only; coq/Bitv/driver.ml parses/prints and converts "
        "hex words bit by bit",
        "bitv: harness/bitv/h.c writes the initial words of a vector itself (bitvNew leaves them uninitialised) and "
        "reads raw words directly from the array",
        "bitv: LP64 (BitvWord = 64 bit), 1L << 63 yields the sign bit; indices fit an int",
        "bitv: bitvResize is modelled for the values only; releasing a wrong pointer there (repaired in /repo by "
        "1ed2bd0) shows up as a crash of the harness and is reported under key %s" % KEY_RESIZE)


def replay_part(obj):
    lines = obj.get("lines", [])
    c = run_impl(lines)
    _, m, _ = run_lines(model(), lines, timeout=120)
    return 1 if judge(lines, c, m) is not None else 0
