"""C20, part "B-tree" (btree.c).

Stages (same as `run` in tools/BUILDER_CONTRACT.md):
  1. proof stage   coq/Props/Properties_C20_btree.v  (model coq/BTree/Model.v, proofs coq/BTree/Facts*.v)
  2. correspondence: extracted model (coq/BTree/driver.ml) vs. harness/btree/h.c linked with the CURRENT
     btree.c/store.c..., on histories aimed at the case splits of the proofs (root split, split of a full
     child on the way down, delete from a leaf, delete of an internal key via predecessor / successor /
     merge, RotateDown, RotateUp, UnsplitChild at i < nKeys and at i == nKeys, root collapse, absent keys,
     duplicate keys) for minimum degree t in {2, 3, 16} (16 = MixedBTreeT of store.c).  The whole tree shape
     (every node, every key and entry), every search result (node and index) and btreeCheck's return value
     are compared, not only the contents.
  3. independent oracle: a naive python sorted multimap applied to every result of the implementation
     (insert adds, delete removes one occurrence of a present key and reports its entry / leaves an absent
     key alone, SearchEQ finds iff present, SearchGE = least key >= k, Min/Max, in-order listing sorted and
     equal to the multiset) plus the B-tree shape rules checked on the implementation's dump.
  4. evidence.
"""
import bisect, json, os, re, time
from vlib import common as C

ID = "C20"
PROPS = "Props/Properties_C20_btree.v"
TARGETS = ["Props/Properties_C20_btree.vo", "BTree/Extract.vo"]

MANIFEST_PART = {
    "what": "btree.c: btreeNew/InsertX/DeleteX/Delete0 (incl. the absent-key return), SplitChild, UnsplitChild, "
            "RotateUp/Down, SearchEQ/GE/Min/Max, btreeCheck0, btreeNMap modelled function for function on "
            "Node leaf keys kids; Coq theorems for every well-formed tree and every t >= 2 (hence every history "
            "from btreeNew): btree_insert_refines (sorted insertion, duplicates kept), btree_delete_refines / "
            "_present / _absent / _distinct (removes one occurrence of a present key and returns its entry; absent "
            "key: contents unchanged), btree_searchEQ_finds_iff_present, btree_searchGE_least, btree_searchMin/Max, "
            "btree_wf_passes_check, btree_run_refines. Tie: extracted model vs C harness on the current sources "
            "incl. exact tree shape; independent python sorted-multimap oracle on every implementation result.",
    "not_modelled": "storage (btreeAllocNode/FreeNode/btreeFree and the alloc/free function arguments), btreePrint, "
                    "the per-node field x->t (one global t; btreeCheck0's x->t test), stale array slots beyond nKeys, "
                    "behaviour on trees that are not well-formed (the C then reads stale slots), t < 2, "
                    "unsigned short overflow of nKeys/t (t >= 16384)",
}

TS = [2, 3, 16]


def mixed_btree_t():
    try:
        m = re.search(r"#\s*define\s+MixedBTreeT\s+(\d+)", open(C.SRC + "/store.c").read())
        return int(m.group(1)) if m else None
    except OSError:
        return None


# ------------------------------------------------------------------ the independent oracle
def parse_kvs(s):
    return [tuple(int(x) for x in p.split("=")) for p in s.split()]


def parse_tree(s):
    """'(N (L 1=1) 2=2 (L 3=3))' -> nested ('N'|'L', keys, kids)"""
    toks = s.replace("(", " ( ").replace(")", " ) ").split()
    pos = [0]

    def node():
        assert toks[pos[0]] == "("
        pos[0] += 1
        kind = toks[pos[0]]; pos[0] += 1
        keys, kids = [], []
        while toks[pos[0]] != ")":
            if toks[pos[0]] == "(":
                kids.append(node())
            else:
                k, e = toks[pos[0]].split("="); keys.append((int(k), int(e))); pos[0] += 1
        pos[0] += 1
        return (kind, keys, kids)
    r = node()
    return r


def tree_stats(tr):
    """(height or None if leaves at different depths, list of per-node key counts, in-order list, shape errors)"""
    errs = []

    def go(n, depth, root):
        kind, keys, kids = n
        if kind == "L":
            if kids:
                errs.append("leaf with branches")
            return [depth], [len(keys)], list(keys)
        if len(kids) != len(keys) + 1:
            errs.append("node with %d keys and %d branches" % (len(keys), len(kids)))
        depths, counts, elems = [], [len(keys)], []
        for i, c in enumerate(kids):
            d, cn, el = go(c, depth + 1, False)
            depths += d; counts += cn; elems += el
            if i < len(keys):
                elems.append(keys[i])
        return depths, counts, elems
    d, counts, elems = go(tr, 0, True)
    return (d[0] if len(set(d)) == 1 else None), counts, elems, errs


class Oracle:
    def __init__(self):
        self.t = 2
        self.keys = []      # sorted keys (with duplicates)
        self.ents = {}      # key -> list of entries
        self.cov = {}
        self.last_tree = None

    def ev(self, k):
        self.cov[k] = self.cov.get(k, 0) + 1

    def items(self):
        return sorted((k, e) for k, l in self.ents.items() for e in l)

    def check(self, line, out):
        w = line.split()
        if not w:
            return None
        op = w[0]
        if op == "new":
            self.t = int(w[1]); self.keys = []; self.ents = {}; self.last_tree = None
            return None if out == "ok" else "new: %r" % out
        if op == "ins":
            k, e = int(w[1]), int(w[2])
            self.ev("ins_duplicate_key" if k in self.ents else "ins_new_key")
            bisect.insort(self.keys, k); self.ents.setdefault(k, []).append(e)
            return None if out == "ok" else "btreeInsert: %r" % out
        if op == "del":
            k = int(w[1])
            if k in self.ents:
                self.ev("del_present")
                m = re.match(r"del (-?\d+)$", out)
                if not m:
                    return "btreeDelete(%d): key is present, implementation reported %r" % (k, out)
                v = int(m.group(1))
                if v not in self.ents[k]:
                    return "btreeDelete(%d) returned entry %d, entries stored under that key are %s" % (
                        k, v, self.ents[k])
                self.ents[k].remove(v)
                if not self.ents[k]:
                    del self.ents[k]
                self.keys.pop(bisect.bisect_left(self.keys, k))
                return None
            self.ev("del_absent")
            return None if out == "del -" else "btreeDelete(%d) of an absent key reported %r" % (k, out)
        if op in ("eq", "ge", "min", "max"):
            if op == "eq":
                k = int(w[1]); want = k if k in self.ents else None
            elif op == "ge":
                k = int(w[1]); i = bisect.bisect_left(self.keys, k); want = self.keys[i] if i < len(self.keys) else None
            elif op == "min":
                want = self.keys[0] if self.keys else "any"
            else:
                want = self.keys[-1] if self.keys else "any"
            self.ev("%s_%s" % (op, "none" if want is None else ("empty" if want == "any" else "found")))
            if want == "any":
                return None
            if out == "none":
                return None if want is None else "btreeSearch%s(%s): nothing found, expected key %d" % (
                    op.upper(), " ".join(w[1:]), want)
            m = re.match(r"found (-?\d+) \[(.*)\]$", out)
            if not m:
                return "search: %r" % out
            ix, node = int(m.group(1)), parse_kvs(m.group(2))
            if want is None:
                return "btreeSearch%s(%s) found %s, no such key is stored" % (op.upper(), " ".join(w[1:]), out[:80])
            if not (0 <= ix < len(node)):
                return "btreeSearch%s: index %d outside the node (%d keys)" % (op.upper(), ix, len(node))
            kk, ee = node[ix]
            if kk != want:
                return "btreeSearch%s(%s) found key %d, expected %d" % (op.upper(), " ".join(w[1:]), kk, want)
            if ee not in self.ents.get(kk, []):
                return "btreeSearch%s: entry %d is not stored under key %d" % (op.upper(), ee, kk)
            return None
        if op == "check":
            return None if out == "check 0" else "btreeCheck returned %s on a tree built by insert/delete only" % out[6:]
        if op == "nmap":
            for l in self.ents.values():
                for i in range(len(l)):
                    l[i] += 1
            return None if out == "ok" else "nmap: %r" % out
        if op == "elems":
            got = parse_kvs(out[6:])
            if [k for k, _ in got] != self.keys:
                return "in-order keys are %s, expected %s" % (_short([k for k, _ in got]), _short(self.keys))
            if sorted(got) != self.items():
                return "in-order contents differ from the multiset of stored pairs"
            return None
        if op == "dump":
            try:
                tr = parse_tree(out[5:])
            except Exception:
                return "dump: %r" % out[:80]
            h, counts, elems, errs = tree_stats(tr)
            self.last_tree = (h, counts)
            if errs:
                return "tree shape: " + errs[0]
            if h is None:
                return "leaves at different depths"
            t = self.t
            if counts[0] > 2 * t - 1 or any(c < t - 1 or c > 2 * t - 1 for c in counts[1:]):
                return "key count outside [t-1, 2t-1] (t=%d): %s" % (t, _short(counts))
            if tr[0] == "N" and counts[0] == 0:
                return "interior root without keys"
            if [k for k, _ in elems] != self.keys:
                return "tree holds keys %s, expected %s" % (_short([k for k, _ in elems]), _short(self.keys))
            if sorted(elems) != self.items():
                return "tree contents differ from the multiset of stored pairs"
            return None
        return "unknown op %r" % line


def _short(l):
    s = str(l)
    return s if len(s) < 240 else s[:240] + "..."


# ------------------------------------------------------------------ history generators
def gen_small(rng, t, nops, univ, every=1):
    """small key universe (duplicates), tree dumped after every op."""
    L = ["new %d" % t]
    if rng.random() < 0.3:
        L += [rng.choice(["min", "max", "eq 3", "ge 3", "del 3", "check", "dump", "elems", "nmap"])]
    n = 0
    for i in range(nops):
        r = rng.random(); k = rng.randrange(univ)
        # phases: grow, then shrink, so that nodes fill up and drain
        grow = (i // max(1, nops // 4)) % 2 == 0
        pins = 0.62 if grow else 0.22
        if r < pins: L.append("ins %d %d" % (k, i)); n += 1
        elif r < 0.86: L.append("del %d" % k)
        elif r < 0.89: L.append("eq %d" % k)
        elif r < 0.93: L.append("ge %d" % rng.randrange(0, univ + 2))
        elif r < 0.95: L.append("min")
        elif r < 0.97: L.append("max")
        elif r < 0.98: L.append("nmap")
        else: L.append("elems")
        if i % every == 0:
            L += ["dump", "check"]
    L += ["dump", "check", "elems"]
    return L


def gen_fill_drain(rng, t, n, order, dorder):
    """insert n keys in a chosen order (root and child splits), search around every key, then delete all
    of them in another order (every delete case incl. root collapse), absent keys in between."""
    ks = list(range(2, 2 * n + 2, 2))      # keys are unsigned in the C: stay >= 0
    if order == "desc": ks.reverse()
    elif order == "rand": rng.shuffle(ks)
    L = ["new %d" % t]
    for i, k in enumerate(ks):
        L += ["ins %d %d" % (k, i), "dump"]
    L += ["check", "elems", "min", "max"]
    for k in rng.sample(range(0, 2 * n + 4), min(2 * n + 4, 40)):
        L += ["eq %d" % k, "ge %d" % k]
    ds = list(ks)
    if dorder == "asc": ds.sort()
    elif dorder == "desc": ds.sort(reverse=True)
    else: rng.shuffle(ds)
    for k in ds:
        if rng.random() < 0.3:
            L += ["del %d" % (k + 1 if rng.random() < 0.8 else rng.choice([0, 1, 2 * n + 3])), "dump"]   # absent (odd / below all / above all)
        L += ["del %d" % k, "dump", "check"]
        if rng.random() < 0.1:
            L += ["ge %d" % (k + 1), "min", "max"]
    L += ["dump", "del 2", "elems", "min", "max"]
    return L


def gen_dups(rng, t, n):
    """a handful of distinct keys, many copies: ties in every scan."""
    d = rng.choice([1, 2, 3, 5])
    L = ["new %d" % t]
    for i in range(n):
        L += ["ins %d %d" % (rng.randrange(d), i), "dump"]
    L += ["check", "elems"]
    for i in range(n + 3):
        L += ["del %d" % rng.randrange(d + 1), "dump", "check"]
        if rng.random() < 0.2:
            L += ["eq %d" % rng.randrange(d), "ge %d" % rng.randrange(d + 1)]
    L += ["elems"]
    return L


def gen_big(rng, t, nops, univ, dump_every):
    L = ["new %d" % t]
    for i in range(nops):
        r = rng.random(); k = rng.randrange(univ)
        grow = (i // max(1, nops // 6)) % 2 == 0
        if r < (0.6 if grow else 0.25): L.append("ins %d %d" % (k, i))
        elif r < 0.9: L.append("del %d" % k)
        elif r < 0.93: L.append("eq %d" % k)
        elif r < 0.97: L.append("ge %d" % k)
        elif r < 0.98: L.append("min")
        elif r < 0.99: L.append("max")
        else: L.append("check")
        if i % dump_every == dump_every - 1:
            L += ["dump", "check"]
    L += ["dump", "check", "elems"]
    return L


def edge_histories():
    """the "malformed" stream: uses at the edge of the interface."""
    H = []
    for t in TS:
        H.append(["new %d" % t, "min", "max", "eq 0", "ge 0", "del 0", "check", "elems", "dump", "nmap", "dump"])
        H.append(["new %d" % t, "ins 5 1", "del 5", "dump", "del 5", "min", "max", "ins 5 2", "ins 5 3", "del 5",
                  "dump", "elems", "ge 5", "ge 6", "eq 5", "del 5", "del 5", "dump", "check"])
    # F3 of DESIGN.md (repaired): delete of an absent key
    H.append(["new 2"] + ["ins %d %d" % (k, k) for k in (10, 20, 30, 40, 50)] + ["dump", "del 35", "dump", "check",
             "del 5", "del 55", "del 25", "dump", "elems"])
    return H


# ------------------------------------------------------------------ running
def run_script(exe, lines, timeout=600):
    rc, out, err = C.run([exe], input="\n".join(lines) + "\n", timeout=timeout)
    return rc, out.split("\n")[:-1] if out.endswith("\n") else out.split("\n"), err


def first_problem(lines, impl_out, model_out, rc):
    orc = Oracle()
    for i in range(len(lines)):
        io = impl_out[i] if i < len(impl_out) else None
        if io is None:
            return i, "crash", "implementation produced no answer (exit status %s)" % rc
        try:
            bad = orc.check(lines[i], io)
        except Exception as e:
            bad = "unparsable answer %r (%r)" % (io[:80], e)
        if bad:
            return i, "oracle", bad
        if model_out is not None:
            mo = model_out[i] if i < len(model_out) else None
            if mo != io:
                return i, "model", "implementation %r, model %r" % (_short(io), _short(mo))
    return None


def shrink(hexe, mexe, lines, deadline):
    def bad(ls):
        rc, io, _ = run_script(hexe, ls, 5)
        _, mo, _ = run_script(mexe, ls, 20)
        return first_problem(ls, io, mo, rc) is not None
    head, ops = lines[0], lines[1:]
    rc, io, _ = run_script(hexe, lines, 20)
    _, mo, _ = run_script(mexe, lines, 120)
    fp = first_problem(lines, io, mo, rc)
    if fp:
        ops = ops[:fp[0]]
    n = 2
    while len(ops) >= 2 and time.time() < deadline:
        chunk = max(1, len(ops) // n)
        reduced = False
        for s in range(0, len(ops), chunk):
            cand = ops[:s] + ops[s + chunk:]
            if cand and bad([head] + cand):
                ops = cand; n = max(n - 1, 2); reduced = True
                break
        if not reduced:
            if chunk == 1:
                break
            n = min(len(ops), 2 * n)
    return [head] + ops


def report_problem(rep, hexe, mexe, lines, tag):
    small = shrink(hexe, mexe, lines, time.time() + 25)
    rc, io, err = run_script(hexe, small, 10)
    _, mo, _ = run_script(mexe, small, 60)
    fp = first_problem(small, io, mo, rc)
    if fp is None:
        small = lines
        rc, io, err = run_script(hexe, small, 20); _, mo, _ = run_script(mexe, small, 120)
        fp = first_problem(small, io, mo, rc)
        if fp is None:
            return
    orc_fp = first_problem(small, io, None, rc)
    obj = {"part": "btree", "history": small, "implementation": io[-6:], "model": mo[-6:],
           "first_problem": {"line": fp[0], "kind": fp[1], "what": fp[2]}, "found_by": tag}
    if orc_fp is not None:
        obj["first_problem"] = {"line": orc_fp[0], "kind": orc_fp[1], "what": orc_fp[2]}
        rep.violation("btree.c: %s (history of %d operations, %s)" % (orc_fp[2][:160], len(small) - 1, small[0]), obj,
                      key="btree:%s" % re.sub(r"-?\d+", "N", orc_fp[2])[:60])
    else:
        rep.violation("correspondence btree (coq/BTree/Model.v vs btree.c) no longer checks: %s" % fp[2][:160],
                      obj, no_input=True)


def builds():
    files = C.makefile_am_sources("libport_a_SOURCES") + C.makefile_am_sources("libgen_a_SOURCES")
    hexe = C.build_harness("btree", "btree/h.c", files)
    mexe = C.build_ocaml("btree_model_drv", [C.COQ + "/BTree/extracted/btree_model.mli",
                                             C.COQ + "/BTree/extracted/btree_model.ml"],
                         C.COQ + "/BTree/driver.ml")
    return hexe, mexe


def correspond(rep, tier, state):
    t0 = time.time()
    hexe, mexe = builds()
    rng = C.rng("c20-btree")
    quick = tier == "quick"
    H = []
    cdir = C.VERIF + "/corpus/C20"
    if os.path.isdir(cdir):
        for f in sorted(os.listdir(cdir)):
            if f.startswith("btree-") and f.endswith(".json"):
                try:
                    H.append(("corpus:" + f, json.load(open(os.path.join(cdir, f)))["history"]))
                except Exception:
                    pass
    for h in edge_histories():
        H.append(("edge", h))
    for t in TS:
        sizes = {2: [4, 9, 16, 40], 3: [6, 12, 30, 70], 16: [31, 32, 48, 80, 200]}[t]
        for n in sizes:
            for order in ("asc", "desc", "rand"):
                for dorder in (("asc", "desc", "rand") if not quick else (rng.choice(["asc", "desc", "rand"]),)):
                    H.append(("fill_drain", gen_fill_drain(rng, t, n, order, dorder)))
        for _ in range(4 if quick else 60):
            univ = rng.choice([5, 12, 40] if t < 16 else [40, 120, 400])
            H.append(("small", gen_small(rng, t, rng.choice([60, 150] if quick else [100, 300, 800]), univ)))
        for _ in range(2 if quick else 20):
            H.append(("dups", gen_dups(rng, t, rng.choice([10, 25] if t < 16 else [70, 140]))))
        for _ in range(1 if quick else 6):
            H.append(("big", gen_big(rng, t, 1500 if quick else 60000,
                                     rng.choice([300, 2000]) if quick else rng.choice([500, 5000, 50000]),
                                     50 if quick else 500)))
    script = [l for _, h in H for l in h]
    rc, io, err = run_script(hexe, script, 200 if quick else 1500)
    rc2, mo, err2 = run_script(mexe, script, 1500)
    state["ran"] = True
    nops = len(script)
    kinds, events, per_t = {}, {}, {}
    problems = 0
    pos = 0

    def ev(k):
        events[k] = events.get(k, 0) + 1
    for tag, h in H:
        seg_io, seg_mo = io[pos:pos + len(h)], mo[pos:pos + len(h)]
        pos += len(h)
        kinds[tag.split(":")[0]] = kinds.get(tag.split(":")[0], 0) + 1
        t = int(h[0].split()[1]); per_t[t] = per_t.get(t, 0) + len(h)
        fp = first_problem(h, seg_io, seg_mo, rc)
        if fp is not None:
            problems += 1
            if problems <= 3:
                report_problem(rep, hexe, mexe, h, tag)
            continue
        # structural events between consecutive dumps with exactly one insert / delete in between
        prev, pending = None, None
        for l, o in zip(h, seg_io):
            w = l.split()
            if w[0] in ("ins", "del"):
                pending = (w[0], int(w[1]), o) if pending is None else "many"
            elif w[0] == "dump":
                try:
                    tr = parse_tree(o[5:]); hh, counts, elems, _ = tree_stats(tr)
                except Exception:
                    prev, pending = None, None
                    continue
                if prev is not None and pending not in (None, "many"):
                    ph, pcounts, ptr = prev
                    op, k, res = pending
                    dn = len(counts) - len(pcounts)
                    if hh is not None and ph is not None and hh != ph:
                        ev("t%d_%s_height_%+d" % (t, op, hh - ph))
                    if op == "ins":
                        ev("t%d_ins_splits_%d" % (t, min(dn, 3)))
                    else:
                        where = _locate(ptr, k)
                        ev("t%d_del_%s" % (t, where))
                        if dn < 0:
                            ev("t%d_del_merges_%d" % (t, min(-dn, 3)))
                        if dn == 0 and where != "absent" and _count_changes(pcounts, counts) > 1:
                            ev("t%d_del_rotation" % t)
                        if dn == 0 and where == "absent" and pcounts != counts:
                            ev("t%d_del_absent_rotation" % t)
                        if dn < 0 and where == "absent":
                            ev("t%d_del_absent_merge" % t)
                prev, pending = (hh, counts, tr), None
            elif w[0] in ("new", "nmap"):
                prev, pending = None, None
    orc = Oracle()
    for l, o in zip(script, io):
        try:
            orc.check(l, o)
        except Exception:
            pass
    if len(io) < nops and problems == 0:
        rep.violation("btree harness stopped after %d of %d operations (exit status %s): %s" % (
            len(io), nops, rc, err[-200:]), {"part": "btree", "stderr": err[-2000:]}, no_input=True)
    mt = mixed_btree_t()
    rep.add_cov(evaluations=nops, traces_validated_against_impl=len(H) - problems,
                distinct_nontrivial=len({tuple(h) for _, h in H}))
    rep.add_cov(btree={
        "histories": len(H), "history_kinds": kinds, "operations": nops, "operations_per_t": per_t,
        "operation_mix": orc.cov,
        "structural_events (between two dumps with one insert/delete in between)": dict(sorted(events.items())),
        "MixedBTreeT_in_store.c": mt,
        "compared": "every output line: delete's *pe, search results (index and the node's keys), btreeCheck's value, "
                    "in-order listing, full tree dumps (every node, key, entry)",
        "mismatching_histories": problems,
        "seconds": round(time.time() - t0, 1)})
    if mt is not None and mt not in TS:
        rep.notes.append("store.c uses MixedBTreeT=%s, not among the tested degrees %s" % (mt, TS))
    rep.add_cov(samples=[{"part": "btree", "history": h[:8], "kind": tag} for tag, h in H[len(H) // 2:len(H) // 2 + 2]])
    return problems


def _locate(tr, k):
    kind, keys, kids = tr
    if any(kk == k for kk, _ in keys):
        return "present_in_leaf" if kind == "L" else "present_in_interior"
    if kind == "L":
        return "absent"
    i = 0
    while i < len(keys) and k > keys[i][0]:
        i += 1
    return _locate(kids[i], k)


def _count_changes(a, b):
    return sum(1 for x, y in zip(a, b) if x != y) + abs(len(a) - len(b))


def run_part(rep, tier):
    state = {"ran": False}

    def searcher(log):
        correspond(rep, tier, state)

    C.proof_stage(rep, ID, TARGETS, PROPS, searcher)
    if not state["ran"]:
        correspond(rep, tier, state)
    rep.assume(
        "btree: extraction (ExtrOcamlBasic only) and coq/BTree/driver.ml (decimal <-> Z / nat conversion and printing only) are trusted",
        "btree: harness/btree/h.c (prints what it reads from the C structures) is trusted",
        "btree: theorems are about coq/BTree/Model.v; the tie to btree.c is the correspondence (shape-exact) on the "
        "generated histories, not a proof about C",
        "btree: theorems assume t >= 2 and a well-formed tree (every tree reachable from btreeNew is)",
        "btree: not modelled: " + MANIFEST_PART["not_modelled"])


def replay_part(obj):
    hexe, mexe = builds()
    h = list(obj["history"])
    rc, io, _ = run_script(hexe, h, 300)
    _, mo, _ = run_script(mexe, h, 300)
    fp = first_problem(h, io, mo, rc)
    print("btree replay:", "no problem" if fp is None else "line %d (%s): %s [%s]" % (fp[0], h[fp[0]], fp[2], fp[1]))
    return 0 if fp is None else 1
