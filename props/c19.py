"""C19 -- Floating-point constants keep their exact value.

Coq proof (coq/XFloat) of the portable float codec of xfloat.c + the run-time
dissemble/assemble pair, tied to /repo's CURRENT sources by
  * Gen/XFloatParams.v: every format constant, regenerated on every run by a probe
    compiled against the current headers and the current xfloat.c, plus the call
    shapes of the literal conversion extracted from of_cfold.c / foam_c.c / fint.c / genc.c;
  * a correspondence run: extracted OCaml model versus a C harness that links the
    current xfloat.c / util.c / foam_c.c;
  * a direct oracle on the C side (round trip identity etc.), exhaustive over all 2^32
    single patterns in the thorough tier.
"""
import json, os, re, struct, sys, time, concurrent.futures
from vlib import common as C

ID = "C19"
LEVEL = "proof"
MANIFEST = {
    "level_text": "Machine-checked proof (Coq 8.16.1) that, in a function-for-function model of xfloat.c, "
                  "xsfToNative(xsfFrNative b) = b for ALL 2^32 single and xdfToNative(xdfFrNative b) = b for ALL 2^64 "
                  "double bit patterns (zero/subnormal/normal/Inf/NaN case split, NaN payload and sign included), that "
                  "dissemble/assemble (sf/df and the run-time fiSFlo/fiDFlo pair) is the identity, that folder and run "
                  "time apply the same libc conversion to a literal (the folder declining exactly the non-finite results), and "
                  "that util.c DFloatSprint (the text route into generated C, Lisp and .fm) keeps the sign of zero and hands every "
                  "other value to printf with 17 digits; the model is tied to the current sources by "
                  "regenerated constants and a model-versus-C correspondence run; the C side is additionally checked "
                  "exhaustively over all 2^32 singles (thorough); an extreme-constant family is followed end to end through "
                  "interpreter, executable from generated C, reloaded .fm and the .lsp text against the exact bits.",
    "level_note": "Trusted: Coq kernel; extraction (ExtrOcamlBasic) + ocamlopt for the correspondence only; gcc and the "
                  "harness; libc atof/strtod and the hardware double->float conversion (named oracles, never "
                  "instantiated); IEEE little-endian host (the S370/VAX branches are modelled but the theorems fix the "
                  "generated parameter values). Literal part is partial: same function on same text, not numerical "
                  "correctness of atof.",
    "technique": "Coq proof of XFloat model + correspondence (extracted OCaml vs C harness on current sources) + exhaustive C-side oracle",
    "design_ref": "DESIGN.md section 4 / C19",
}

GEN_REL = "Gen/XFloatParams.v"
PROPS_REL = "Props/Properties_C19.v"
TARGETS = ["Props/Properties_C19.vo", "XFloat/Extract.vo"]

# ------------------------------------------------------------------ building

_h = {}


def lib_files():
    gen = C.makefile_am_sources("libgen_a_SOURCES")
    port = C.makefile_am_sources("libport_a_SOURCES")
    return [f for f in gen + port if f not in ("xfloat.c", "test.c")]


def harness():
    """C harness built from the CURRENT tree (xfloat.c is #included by h.c)."""
    if "exe" not in _h:
        _h["exe"] = C.build_harness("xfloat", "xfloat/h.c", lib_files())
    return _h["exe"]


# ------------------------------------------------------------------ translator

PARAM_NAMES = None


def probe_params():
    rc, out, err = C.run([harness(), "params"], timeout=60)
    if rc != 0:
        raise C.BuildError("xfloat probe failed rc=%d: %s" % (rc, err[-500:]))
    d = {}
    order = []
    for ln in out.split("\n"):
        p = ln.split()
        if len(p) == 2:
            d[p[0]] = p[1]
            order.append(p[0])
    return d, order


def strip_comments(t):
    t = re.sub(r"/\*.*?\*/", " ", t, flags=re.S)
    return re.sub(r"//[^\n]*", " ", t)


def norm_ws(t):
    return re.sub(r"\s+", " ", t).strip()


def func_body(text, name):
    """Body (between the outermost braces) of the C function definition `name`."""
    m = re.search(r"^%s\s*\(([^)]*)\)\s*\{" % re.escape(name), text, re.M)
    if not m:
        return None, None
    i = m.end()
    depth = 1
    while i < len(text) and depth:
        if text[i] == "{":
            depth += 1
        elif text[i] == "}":
            depth -= 1
        i += 1
    return m.group(1), text[m.end():i - 1]


TYPE_WORDS = {"SFloat": "type_SFloat", "DFloat": "type_DFloat", "FiSFlo": "type_FiSFlo",
              "FiDFlo": "type_FiDFlo", "float": "float", "double": "double"}
STRING_TYPES = ("String", "char *", "char*", "CString", "const char *", "FiArr", "Pointer")


class LitParse:
    """Tiny parser for  expr := '(' TYPE ')' expr | IDENT '(' expr ')' | '(' expr ')' | IDENT ."""

    def __init__(self, text, textvar, types):
        self.toks = re.findall(r"[A-Za-z_][A-Za-z_0-9]*|\*|\(|\)|\S", text)
        self.i = 0
        self.textvar = textvar
        self.types = types
        self.ok = True

    def peek(self, k=0):
        return self.toks[self.i + k] if self.i + k < len(self.toks) else None

    def eat(self, t=None):
        x = self.peek()
        if x is None or (t is not None and x != t):
            self.ok = False
            return None
        self.i += 1
        return x

    def type_at(self):
        """If a parenthesised type name starts here return (kind, ntoks)."""
        if self.peek() != "(":
            return None
        j = self.i + 1
        words = []
        while j < len(self.toks) and self.toks[j] != ")":
            words.append(self.toks[j])
            j += 1
        if j >= len(self.toks):
            return None
        w = " ".join(words)
        if w in TYPE_WORDS:
            k = TYPE_WORDS[w]
            k = self.types.get(k, k)
            return (("arith", k), j + 1 - self.i)
        if w.replace(" ", "") in [s.replace(" ", "") for s in STRING_TYPES]:
            return (("string", w), j + 1 - self.i)
        return None

    def expr(self):
        ty = self.type_at()
        if ty:
            self.i += ty[1]
            e = self.expr()
            if ty[0][0] == "string":
                return e                       # pointer casts do not change the text
            if ty[0][1] not in ("float", "double"):
                self.ok = False
                return ("other",)
            return ("cast", ty[0][1], e)
        if self.peek() == "(":
            self.eat("(")
            e = self.expr()
            self.eat(")")
            return e
        name = self.eat()
        if name is None or not re.match(r"[A-Za-z_]", name):
            self.ok = False
            return ("other",)
        if self.peek() == "(":
            self.eat("(")
            a = self.expr()
            self.eat(")")
            if a == ("text",):
                return ("call", name)
            self.ok = False
            return ("other",)
        if name == self.textvar:
            return ("text",)
        self.ok = False
        return ("other",)

    def parse(self):
        e = self.expr()
        if self.i != len(self.toks) or e == ("text",):
            self.ok = False
        return e if self.ok else None


def coq_str(s):
    return '"' + s.replace('"', '""') + '"'


def lexp_coq(e, raw):
    if e is None:
        return "(LOther %s)" % coq_str(norm_ws(raw))
    if e[0] == "call":
        return "(LCall %s)" % coq_str(e[1])
    if e[0] == "cast":
        return "(LCast %s %s)" % ("CFloat" if e[1] == "float" else "CDouble", lexp_coq(e[2], raw))
    return "(LOther %s)" % coq_str(norm_ws(raw))


COPY_NUL_BODY = norm_ws("""String s; int i; s = strAlloc(foamArgc(arr));
 for(i=0; i < foamArgc(arr)-1; i++) s[i] = arr->foamArr.eltv[i]; s[i] = '\\0'; return s;""")


def extract_literal_sites(types):
    """-> dict name -> (glue_coq, dest_coq, lexp_coq, raw_text) for the four conversion
    sites, plus the routing facts of fint.c / genc.c."""
    sites = {}
    cf = strip_comments(open(C.SRC + "/of_cfold.c").read())
    fc = strip_comments(open(C.SRC + "/foam_c.c").read())
    fh = strip_comments(open(C.SRC + "/foam.h").read())
    fi = strip_comments(open(C.SRC + "/fint.c").read())
    gc = strip_comments(open(C.SRC + "/genc.c").read())

    def cty(name):
        k = TYPE_WORDS.get(name, name)
        k = types.get(k, k)
        return {"float": "CFloat", "double": "CDouble"}.get(k)

    params, body = func_body(cf, "cfoldArrToString")
    copy_ok = body is not None and norm_ws(body).replace(" ", "") == COPY_NUL_BODY.replace(" ", "")

    for kind in ("SFlo", "DFlo"):
        # --- folder
        m = re.search(r"case\s+FOAM_BVal_ArrTo%s\s*:(.*?)\bbreak\s*;" % kind, cf, re.S)
        raw = norm_ws(m.group(1)) if m else "<case not found>"
        glue, dest, le = 'GOther %s' % coq_str(raw[:200]), None, None
        guard = False
        if m:
            body = norm_ws(m.group(1))
            # optional trailing guard (a5dd6ea): if (!isfinite(foam->foamXFlo.XFloData)) { foamFreeNode(foam); foam = bcall; }
            g = re.search(r"if \( ?! ?isfinite ?\( ?foam ?-> ?foam%s ?\. ?%sData ?\) ?\) ?\{ ?foamFreeNode ?\( ?foam ?\) ?; ?foam ?= ?bcall ?; ?\}$" % (kind, kind), body)
            if g:
                guard = True
                body = body[:g.start()]
            stmts = [norm_ws(x) for x in body.split(";") if norm_ws(x) and not norm_ws(x).startswith("assert")]
            # expected: s = cfoldArrToString(argv[0]) ; foam = foamNewXFlo(EXPR) ; strFree(s)
            ms = [re.match(r"(\w+)\s*=\s*cfoldArrToString\s*\(\s*argv\s*\[\s*0\s*\]\s*\)$", x) for x in stmts]
            var = next((x.group(1) for x in ms if x), None)
            mf = next((re.match(r"foam\s*=\s*(foamNew\w+)\s*\((.*)\)$", x) for x in stmts
                       if re.match(r"foam\s*=", x)), None)
            others = [x for x in stmts if not re.match(r"(\w+)\s*=\s*cfoldArrToString", x)
                      and not re.match(r"foam\s*=", x) and not re.match(r"strFree\s*\(", x)]
            if var and mf and not others:
                glue = "GCopyNul" if copy_ok else "GOther %s" % coq_str("cfoldArrToString body changed")
                mp = re.search(r"extern\s+Foam\s+%s\s*\(\s*(\w+)\s*\)" % mf.group(1), fh)
                dest = cty(mp.group(1)) if mp else None
                le = lexp_coq(LitParse(mf.group(2), var, types).parse(), mf.group(2))
                sites["foldsrc_" + kind.lower()] = (var, mf.group(2), mp.group(1) if mp else None)
        sites["guard_fold_" + kind.lower()] = guard
        sites["fold_" + kind.lower()] = (glue, dest or "CDouble", le or "(LOther %s)" % coq_str(raw[:200]), raw,
                                         dest is not None)
        # --- run time
        m = re.search(r"^(\w+)\s*\n\s*fiArrTo%s\s*\(\s*FiArr\s+(\w+)\s*\)\s*\{(.*?)\}" % kind, fc, re.S | re.M)
        raw = norm_ws(m.group(0)) if m else "<fiArrTo%s not found>" % kind
        glue, dest, le = 'GOther %s' % coq_str(raw[:200]), None, None
        if m:
            stmts = [norm_ws(s) for s in m.group(3).split(";") if norm_ws(s)]
            if len(stmts) == 1 and stmts[0].startswith("return"):
                ex = stmts[0][len("return"):]
                le = lexp_coq(LitParse(ex, m.group(2), types).parse(), ex)
                dest = cty(m.group(1))
                glue = "GArrayItself"
        sites["rt_" + kind.lower()] = (glue, dest or "CDouble", le or "(LOther %s)" % coq_str(raw[:200]), raw,
                                       dest is not None)

    routes = {}
    for kind in ("SFlo", "DFlo"):
        m = re.search(r"case\s+FOAM_BVal_ArrTo%s\s*:(.*?)\bbreak\s*;" % kind, fi, re.S)
        mm = re.search(r"=\s*(\w+)\s*\(\s*\(\s*FiArr\s*\)\s*expr1\s*\.\s*fiArr\s*\)", m.group(1)) if m else None
        routes["fint_" + kind.lower()] = mm.group(1) if mm else "?"
        m = re.search(r"\{\s*FOAM_BVal_ArrTo%s\s*,\s*(\w+)\s*,\s*\w+\s*,\s*\"(\w+)\"" % kind, gc)
        routes["genc_" + kind.lower()] = m.group(2) if (m and m.group(1) == "CCO_FCall") else "?"
    return sites, routes


def preprocess_if01(text):
    """Resolve `#if 0` / `#if 1` ... [#else ...] #endif (the only conditionals inside
    DFloatSprint).  Any other directive is left in place (and then breaks the shape match)."""
    out, stack = [], []
    for ln in text.split("\n"):
        st = ln.strip()
        m = re.match(r"#\s*if\s+([01])\s*$", st)
        if m:
            stack.append(m.group(1) == "1")
            continue
        if stack and re.match(r"#\s*else\b", st):
            stack[-1] = not stack[-1]
            continue
        if stack and re.match(r"#\s*endif\b", st):
            stack.pop()
            continue
        if all(stack):
            out.append(ln)
    return "\n".join(out)


SPRINT_BRANCH = re.compile(
    r'if \( ?d == 0\.0 ?\) sprintf ?\( ?buf, ?"((?:[^"\\]|\\.)*)" ?(?:, ?(.*?))? ?\) ?; '
    r'else sprintf ?\( ?buf, ?"((?:[^"\\]|\\.)*)" ?, ?([A-Za-z_0-9+ ]+?) ?, ?d ?\) ?;$')


def extract_sprint_modes(consts):
    """util.c:DFloatSprint -> {'default': mode, 'floatrep': mode}; mode is a dict with the
    fields of TextShape.sprint_mode plus the source text of the precision expression."""
    ut = open(C.SRC + "/util.c").read()
    m = re.search(r"^DFloatSprint\s*\(([^)]*)\)\s*\{", ut, re.M)
    bad = {"ok": False, "signed": False, "neg": "", "pos": "", "body": "", "fmt": "", "prec": 0, "prec_src": "?"}
    if not m:
        return {"default": dict(bad), "floatrep": dict(bad)}, "<DFloatSprint not found>"
    i = m.end()
    depth = 1
    while i < len(ut) and depth:
        depth += {"{": 1, "}": -1}.get(ut[i], 0)
        i += 1
    body = norm_ws(strip_comments(preprocess_if01(ut[m.end():i - 1])))
    mm = re.fullmatch(r"if \( ?cmdFloatRepFlag ?\) \{ ?(.*?) ?\} else \{ ?(.*?) ?\} return buf ?;", body)
    modes = {}
    for name, txt in (("floatrep", mm.group(1) if mm else None), ("default", mm.group(2) if mm else None)):
        d = dict(bad)
        b = SPRINT_BRANCH.match(txt) if txt else None
        if b:
            zfmt, zarg, gfmt, prec = b.group(1), b.group(2), b.group(3), b.group(4).strip()
            try:
                pv = int(eval(prec, {"__builtins__": {}}, {"DBL_DIG": consts.get("DBL_DIG", 0),
                                                            "FLT_DIG": consts.get("FLT_DIG", 0)}))
            except Exception:
                pv = None
            ok = pv is not None and "\\" not in zfmt and "\\" not in gfmt
            if zarg is None:
                ok = ok and "%" not in zfmt
                d.update(signed=False, neg="", pos="", body=zfmt)
            else:
                za = re.fullmatch(r'signbit ?\( ?d ?\) \? "([^"\\]*)" : "([^"\\]*)"', zarg.strip())
                ok = ok and za is not None and zfmt.startswith("%s") and "%" not in zfmt[2:]
                if za:
                    d.update(signed=True, neg=za.group(1), pos=za.group(2), body=zfmt[2:])
            d.update(ok=bool(ok), fmt=gfmt, prec=pv or 0, prec_src=prec)
        modes[name] = d
    return modes, body


def sprint_mode_coq(d):
    return "Build_sprint_mode %s %s %s %s %s %s %s" % (
        "true" if d["ok"] else "false", "true" if d["signed"] else "false", coq_str(d["neg"]), coq_str(d["pos"]),
        coq_str(d["body"]), coq_str(d["fmt"]), ("(%d)" % d["prec"]) if d["prec"] < 0 else str(d["prec"]))


SX_WRITER = re.compile(
    r'case SX_Float ?: ?\{ ?char buf ?\[ ?MAX_FLOAT_SIZE ?\] ?; ?char ?\* ?c ?; ?'
    r'DFloatSprint ?\( ?buf ?, ?sxiToFloat ?\( ?s ?\) ?\) ?; ?'
    r'for ?\( ?c ?= ?buf ?; ?\* ?c ?; ?c ?\+\+ ?\) ?if ?\( ?isalpha ?\( ?\* ?c ?\) ?\) ?\{ ?\* ?c ?= ?s ?-> ?sxFloat ?\. ?marker ?; ?break ?; ?\} ?'
    r'if ?\( ?! ?\* ?c ?\) ?\{ ?(.*?) ?\* ?c ?\+\+ ?= ?s ?-> ?sxFloat ?\. ?marker ?; ?\* ?c ?\+\+ ?= ?\'0\' ?; ?\* ?c ?= ?\'\\0\' ?; ?\} ?'
    r'sxiIoBufPuts ?\( ?buf ?\) ?; ?break ?; ?\}')
SX_PAD = re.compile(r"if ?\( ?c ?> ?buf ?&& ?c ?\[ ?-1 ?\] ?== ?'\.' ?\) ?\* ?c ?\+\+ ?= ?'0' ?;")


def extract_sx_writer():
    """sexpr.c sxiWrUnscanToken, case SX_Float -> (shape_ok, pads_trailing_point, markers)."""
    sx = strip_comments(open(C.SRC + "/sexpr.c").read())
    params, body = func_body(sx, "int sxiWrUnscanToken")
    if body is None:
        m0 = re.search(r"sxiWrUnscanToken\s*\([^)]*\)\s*\{", sx)
        body = sx[m0.end():] if m0 else ""
    m = SX_WRITER.search(norm_ws(body))
    mk = re.search(r'"([A-Za-z]+)"\s*;\s*while\s*\(\s*\*\s*s\s*\)\s*sxiIoTable\s*\[\s*\*\s*s\s*\+\+\s*\]\s*\|=\s*sxiIoExptMarker', sx)
    markers = mk.group(1) if mk else ""
    if not m:
        return False, False, markers
    extra = m.group(1).strip()
    if extra == "":
        return True, False, markers
    if SX_PAD.fullmatch(extra):
        return True, True, markers
    return False, False, markers


def generate():
    """Text of coq/Gen/XFloatParams.v from the current tree."""
    d, order = probe_params()
    types = {k: v for k, v in d.items() if k.startswith("type_")}
    sites, routes = extract_literal_sites(types)
    L = ["(* GENERATED on every run by props/c19.py from the current sources -- do not edit.",
         "   Constants: compiled probe (harness/xfloat/h.c params) against cport.h / xfloat.h / xfloat.c.",
         "   Literal sites: text of of_cfold.c, foam_c.c, foam.h, fint.c, genc.c. *)",
         "Require Import ZArith String.",
         "Require Import AV.XFloat.LitShape AV.XFloat.TextShape.",
         "Local Open Scope Z_scope.",
         "Local Open Scope string_scope.",
         "Module XP.",
         ""]
    for k in order:
        if k.startswith("type_"):
            continue
        v = d[k]
        L.append("Definition %s : Z := %s." % (k, ("(%s)" % v) if v.startswith("-") else v))
    L.append("")
    for k in sorted(types):
        L.append("Definition %s : string := %s." % (k, coq_str(types[k])))
    L.append("")
    for name in ("fold_sflo", "rt_sflo", "fold_dflo", "rt_dflo"):
        glue, dest, le, raw, _ = sites[name]
        L.append("(* %s *)" % raw.replace("(*", "( *").replace("*)", "* )")[:300])
        L.append("Definition %s : litsite := Build_litsite (%s) %s %s %s." % (
            name, glue, dest, le, "true" if sites.get("guard_" + name) else "false"))
    L.append("")
    for k in sorted(routes):
        L.append("Definition %s : string := %s." % (k, coq_str(routes[k])))
    consts = {k: int(v) for k, v in d.items() if re.fullmatch(r"-?\d+", v)}
    modes, body = extract_sprint_modes(consts)
    L.append("")
    L.append("(* util.c DFloatSprint: %s *)" % body.replace("(*", "( *").replace("*)", "* )")[:600])
    L.append("(* precision expressions: default `%s`, -Wfloatrep `%s` *)" % (modes["default"]["prec_src"],
                                                                             modes["floatrep"]["prec_src"]))
    L.append("Definition sprint_default : sprint_mode := %s." % sprint_mode_coq(modes["default"]))
    L.append("Definition sprint_floatrep : sprint_mode := %s." % sprint_mode_coq(modes["floatrep"]))
    ok, pad, markers = extract_sx_writer()
    L.append("")
    L.append("(* sexpr.c sxiWrUnscanToken, case SX_Float: first letter := marker; without a letter")
    L.append("   [a '0' after a trailing point (5586a2c),] marker and '0' are appended *)")
    L.append("Definition sx_writer_ok : bool := %s." % ("true" if ok else "false"))
    L.append("Definition sx_pad_point : bool := %s." % ("true" if pad else "false"))
    L.append("Definition sx_expt_markers : string := %s." % coq_str(markers))
    L += ["", "End XP.", ""]
    return "\n".join(L)


# ------------------------------------------------------------------ literal harness

LIT_C = r'''/* GENERATED by props/c19.py: folder-side conversion expressions copied verbatim from
 * of_cfold.c (case FOAM_BVal_ArrToSFlo / ArrToDFlo) against the real run-time functions
 * fiArrToSFlo / fiArrToDFlo of the current foam_c.c. */
#include "axlgen.h"
#include "foam_c.h"
#include <stdio.h>
#include <stdlib.h>
#include <string.h>
#include <stdint.h>
static @TS@ fold_sflo(String @VS@) { return @ES@; }
static @TD@ fold_dflo(String @VD@) { return @ED@; }
int main(void) {
	static char line[8192];
	while (fgets(line, sizeof line, stdin)) {
		size_t n = strlen(line);
		char *s; float a, b; double c, d; uint32_t ua, ub; uint64_t uc, ud;
		while (n && (line[n-1] == '\n' || line[n-1] == '\r')) line[--n] = 0;
		/* folder glue (cfoldArrToString): copy the characters, append NUL */
		s = malloc(n + 1); memcpy(s, line, n); s[n] = 0;
		a = (float) fold_sflo(s);  b = (float) fiArrToSFlo((FiArr) line);
		c = (double) fold_dflo(s); d = (double) fiArrToDFlo((FiArr) line);
		memcpy(&ua, &a, 4); memcpy(&ub, &b, 4); memcpy(&uc, &c, 8); memcpy(&ud, &d, 8);
		printf("%08x %08x %016llx %016llx\n", ua, ub, (unsigned long long) uc, (unsigned long long) ud);
		free(s);
	}
	return 0;
}
'''


def lit_harness():
    if "lit" in _h:
        return _h["lit"]
    d, _ = probe_params()
    types = {k: v for k, v in d.items() if k.startswith("type_")}
    sites, _routes = extract_literal_sites(types)
    fs, fd = sites.get("foldsrc_sflo"), sites.get("foldsrc_dflo")
    if not fs or not fd or not fs[2] or not fd[2]:
        raise C.BuildError("literal conversion expression of of_cfold.c could not be extracted")
    txt = (LIT_C.replace("@TS@", fs[2]).replace("@VS@", fs[0]).replace("@ES@", fs[1])
           .replace("@TD@", fd[2]).replace("@VD@", fd[0]).replace("@ED@", fd[1]))
    sd = C.scratch("c19lit")
    p = os.path.join(sd, "lit.c")
    open(p, "w").write(txt)
    _h["lit"] = C.build_harness("xfloatlit", p, lib_files() + ["xfloat.c"])
    return _h["lit"]


# ------------------------------------------------------------------ input generation

def frac_boundaries(fb, rng, nrand, dense):
    """Boundary fractions of an fb-bit fraction field."""
    top = (1 << fb) - 1
    s = {0, 1, 2, 3, top, top - 1, 1 << (fb - 1), (1 << (fb - 1)) + 1, (1 << (fb - 1)) - 1,
         int("55" * 8, 16) & top, int("aa" * 8, 16) & top}
    ks = range(fb) if dense else sorted(set([0, 1, 7, 8, 9, 15, 16, 17, fb - 9, fb - 8, fb - 2, fb - 1]) & set(range(fb)))
    for k in ks:
        s.add(1 << k)
        if dense:
            s.add((1 << k) - 1)
            s.add(top ^ ((1 << k) - 1))
    for _ in range(nrand):
        s.add(rng.getrandbits(fb))
    return sorted(s)


def single_patterns(rng, tier):
    fr = frac_boundaries(23, rng, 8, True)
    out = []
    for e in range(256):
        for f in fr:
            for sg in (0, 1):
                out.append((sg << 31) | (e << 23) | f)
    for _ in range(4000 if tier == "quick" else 40000):
        out.append(rng.getrandbits(32))
    return out


def double_patterns(rng, tier):
    dense = tier != "quick"
    fr = frac_boundaries(52, rng, 4 if not dense else 16, dense)
    out = []
    for e in range(2048):
        for f in fr:
            for sg in (0, 1):
                out.append((sg << 63) | (e << 52) | f)
    for _ in range(4000 if tier == "quick" else 40000):
        out.append(rng.getrandbits(64))
    return out


def x_patterns(rng, nb, excess_nat, enan_nat, n):
    """Portable byte strings that need not be images of FrNative (the malformed stream):
    exponent fields around every threshold of xxToNative, boundary fractions."""
    fbits = 8 * nb
    es = set([0, 1, 2, 0x7fff, 0x7ffe, 0x7ffd, 0x3ffe, 0x3fff, 0x3ffd])
    for c in (16382 + enan_nat, 16382 - excess_nat, 16382 - excess_nat - fbits, 16382 - excess_nat - (fbits - nb - 4)):
        for dlt in range(-3, 4):
            if 0 <= c + dlt <= 0x7fff:
                es.add(c + dlt)
    fs = [0, 1, 1 << (fbits - 1), (1 << fbits) - 1, 1 << (fbits // 2), 0x200, 0x1000]
    out = []
    for e in sorted(es):
        for f in fs + [rng.getrandbits(fbits) for _ in range(3)]:
            for sg in (0, 1):
                out.append((((sg << 15) | e) << fbits) | f)
    for _ in range(n):
        e = rng.choice([rng.randrange(0x8000), 16382 + rng.randint(-excess_nat - fbits - 4, enan_nat + 4)])
        out.append((((rng.getrandbits(1) << 15) | (e & 0x7fff)) << fbits) | rng.getrandbits(fbits))
    return out


def helper_ops(rng, n):
    ops = []
    for nb in (1, 2, 4, 8, 10):
        for nsh in sorted(set([0, 1, 7, 8, 9, 8 * nb - 1, 8 * nb, 8 * nb + 1, 8 * nb + 9])):
            for v in (0, 1, 1 << (8 * nb - 1), (1 << (8 * nb)) - 1, rng.getrandbits(8 * nb)):
                ops.append("shu %d %0*x %d" % (nb, 2 * nb, v, nsh))
                for b1 in (0, 1):
                    ops.append("shd %d %0*x %d %d" % (nb, 2 * nb, v, nsh, b1))
                if nsh < 8:
                    ops.append("shdo %d %0*x %d" % (nb, 2 * nb, v, nsh))
        for k in range(8 * nb):
            v = (1 << k) | (rng.getrandbits(k) if k else 0)
            ops.append("ff1 %d %0*x" % (nb, 2 * nb, v))
            ops.append("fnorm %d %d %0*x" % (rng.randint(-1100, 1100), nb, 2 * nb, v))
        ops.append("ff1 %d %0*x" % (nb, 2 * nb, 0))
        ops.append("fnorm 5 %d %0*x" % (nb, 2 * nb, 0))
    for _ in range(n):
        nb = rng.choice([4, 8])
        emin = rng.choice([-127, -1023, -64])
        ops.append("fden %d %d %d %0*x %d %d" % (emin + rng.randint(-8 * nb - 3, 3), emin, nb, 2 * nb,
                                                  rng.getrandbits(8 * nb), rng.choice([0, 0, 2]), rng.randint(0, 1)))
        ops.append("shu %d %0*x %d" % (nb, 2 * nb, rng.getrandbits(8 * nb), rng.randint(0, 8 * nb + 4)))
        ops.append("shd %d %0*x %d %d" % (nb, 2 * nb, rng.getrandbits(8 * nb), rng.randint(0, 8 * nb + 4), rng.randint(0, 1)))
    return ops


def build_ops(rng, tier):
    """-> list of op lines (phase 1)."""
    ops = []
    S = single_patterns(rng, tier)
    D = double_patterns(rng, tier)
    sub = 1 if tier != "quick" else 5          # dissemble/classify/fi ops on every sub-th pattern
    for i, b in enumerate(S):
        ops.append("srt %08x" % b)
        if i % sub == 0:
            ops.append("sdis %08x" % b)
            ops.append("scl %08x" % b)
            ops.append("fsd %08x %016x" % (b, rng.getrandbits(64)))
    for i, b in enumerate(D):
        ops.append("drt %016x" % b)
        if i % sub == 0:
            ops.append("ddis %016x" % b)
            ops.append("dcl %016x" % b)
            ops.append("fdd %016x" % b)
    nx = 3000 if tier == "quick" else 30000
    for x in x_patterns(rng, 4, 127, 128, nx):
        ops += ["sto %012x" % x, "xsdis %012x" % x, "xscl %012x" % x]
    for x in x_patterns(rng, 8, 1023, 1024, nx):
        ops += ["dto %020x" % x, "xddis %020x" % x, "xdcl %020x" % x]
    # assemble with arbitrary (also out-of-range) arguments
    for _ in range(nx):
        ops.append("sasm %d %d %08x" % (rng.choice([0, 1, 2]), rng.randint(-300, 300), rng.getrandbits(32)))
        ops.append("dasm %d %d %016x" % (rng.choice([0, 1, 2]), rng.randint(-2100, 2100), rng.getrandbits(64)))
        ops.append("xsasm %d %d %08x" % (rng.choice([0, 1, 2]), rng.randint(-40000, 40000), rng.getrandbits(32)))
        ops.append("xdasm %d %d %016x" % (rng.choice([0, 1, 2]), rng.randint(-40000, 40000), rng.getrandbits(64)))
        ops.append("fsa %d %d %016x" % (rng.choice([0, 1, 2, -1, 2 ** 32, 2 ** 32 + 1]), rng.randint(-300, 300),
                                        rng.getrandbits(64)))
        ops.append("fda %d %d %016x %016x" % (rng.choice([0, 1, 2, -1, 2 ** 32, 2 ** 32 + 1]),
                                              rng.randint(-2100, 2100), rng.getrandbits(64), rng.getrandbits(64)))
    ops += helper_ops(rng, nx)
    # syntactically malformed lines: both sides must answer ERR
    ops += ["srt", "srt zz", "srt 123456789", "drt 12345678901234567", "bogus 1", "shu 0 00 1", "shu 4 00000000 -1",
            "shdo 4 00000000 8", "sto 1234567890123", "ff1 17 00"]
    return ops


# ------------------------------------------------------------------ reference (direct oracle)

def sfields(b):
    return b >> 31, (b >> 23) & 0xff, b & 0x7fffff


def dfields(b):
    return b >> 63, (b >> 52) & 0x7ff, b & ((1 << 52) - 1)


def ieee_class(e, f, emax):
    if e == 0:
        return "zero" if f == 0 else "sub"
    if e == emax:
        return "inf" if f == 0 else "nan"
    return "norm"


CLS_CODE = {"norm": 0, "sub": 1, "zero": 2, "nan": 3, "inf": 4}


def bswap_int(v, n):
    return int.from_bytes(v.to_bytes(n, "big"), "little")


def oracle(op, out, consts):
    """Direct check of the property statement (and of the naive field reference) on ONE
    implementation result.  -> None if fine, else (kind, text)."""
    t = op.split()
    k = t[0]
    width = {"srt": 8, "drt": 16, "sdis": 8, "ddis": 16, "scl": 8, "dcl": 16, "fsd": 8, "fdd": 16}
    if k in width and (len(t) != (3 if k == "fsd" else 2) or not re.fullmatch(r"[0-9a-fA-F]{1,%d}" % width[k], t[1])):
        # syntactically malformed line: the harness must refuse it
        return None if out == "ERR" else ("format", "malformed line %r answered %r instead of ERR" % (op, out))
    try:
        if k in ("srt", "drt"):
            w = 8 if k == "srt" else 16
            b = int(t[1], 16)
            m = re.match(r"X=([0-9a-f]+) back=([0-9a-f]+)$", out)
            if not m:
                return ("format", "unparsable result %r" % out)
            back = int(m.group(2), 16)
            if back != b:
                s, e, f = sfields(b) if k == "srt" else dfields(b)
                s2, e2, f2 = sfields(back) if k == "srt" else dfields(back)
                emax = 255 if k == "srt" else 2047
                c = ieee_class(e, f, emax)
                if c == "nan" and ieee_class(e2, f2, emax) == "nan":
                    return ("nan-payload", "NaN %0*x came back as the different NaN %0*x" % (w, b, w, back))
                return ("roundtrip/" + c, "%s %0*x came back as %0*x through portable bytes %s" % (
                    "single" if k == "srt" else "double", w, b, w, back, m.group(1)))
            return None
        if k in ("sdis", "ddis"):
            b = int(t[1], 16)
            if k == "sdis":
                s, e, f = sfields(b); want = "%d %d %08x %d" % (s, e - consts["SF_Excess"], f << 9, int(e == 0 and f == 0))
            else:
                s, e, f = dfields(b); want = "%d %d %016x %d" % (s, e - consts["DF_Excess"], f << 12, int(e == 0 and f == 0))
            if out != want:
                return ("dissemble", "%s gave %r, sign/exponent/fraction fields are %r" % (op, out, want))
            return None
        if k in ("scl", "dcl"):
            b = int(t[1], 16)
            s, e, f = sfields(b) if k == "scl" else dfields(b)
            want = CLS_CODE[ieee_class(e, f, 255 if k == "scl" else 2047)]
            if out != str(want):
                return ("classify", "%s gave %r, IEEE class code is %d" % (op, out, want))
            return None
        if k == "fsd":
            b = int(t[1], 16); j = int(t[2], 16)
            s, e, f = sfields(b)
            want = "%d %d %016x" % (s, e - consts["SF_Excess"], (j >> 32 << 32) | bswap_int(f << 9, 4))
            if out != want:
                return ("fi-dissemble", "%s gave %r, expected %r" % (op, out, want))
            return None
        if k == "fdd":
            b = int(t[1], 16)
            s, e, f = dfields(b)
            want = "%d %d %016x" % (s, e - consts["DF_Excess"], bswap_int(f << 12, 8))
            if out != want:
                return ("fi-dissemble", "%s gave %r, expected %r" % (op, out, want))
            return None
    except (ValueError, IndexError, OverflowError):
        return ("format", "unparsable op/result %r -> %r" % (op, out))
    return None


def phase2_ops(ops, outs):
    """Reassembly ops built from the implementation's own dissemble results; each carries
    the value it must reproduce."""
    p2 = []
    for op, out in zip(ops, outs):
        t = op.split()
        o = out.split()
        if t[0] == "sdis" and len(o) == 4:
            p2.append(("sasm %s %s %s" % (o[0], o[1], o[2]), t[1]))
        elif t[0] == "ddis" and len(o) == 4:
            p2.append(("dasm %s %s %s" % (o[0], o[1], o[2]), t[1]))
        elif t[0] == "fsd" and len(o) == 3:
            p2.append(("fsa %s %s %s" % (o[0], o[1], o[2]), t[1]))
        elif t[0] == "fdd" and len(o) == 3:
            p2.append(("fda %s %s %s %016x" % (o[0], o[1], o[2], 0x5A5A5A5A5A5A5A5A), t[1]))
        elif t[0] in ("srt", "drt"):
            m = re.match(r"X=([0-9a-f]+) back=", out)
            if m:   # classification of the portable form
                p2.append((("xscl " if t[0] == "srt" else "xdcl ") + m.group(1), "cls:" + t[1] + ":" + t[0]))
    return p2


def run_ops(exe, args, ops, timeout=600):
    rc, out, err = C.run([exe] + args, input="\n".join(ops) + "\n", timeout=timeout)
    lines = out.split("\n")
    if lines and lines[-1] == "":
        lines.pop()
    return rc, lines, err


# ------------------------------------------------------------------ literals

def shortest_f32(bits):
    x = struct.unpack(">f", struct.pack(">I", bits))[0]
    for p in range(1, 18):
        s = "%.*g" % (p, x)
        try:
            if struct.pack(">f", float(s)) == struct.pack(">f", x):
                return s
        except OverflowError:
            pass
    return repr(x)


def literal_corpus(rng, tier):
    from fractions import Fraction
    from decimal import Decimal, getcontext
    getcontext().prec = 1200
    lits = ["0", "0.0", "-0.0", "1", "1.0", "0.1", "1e0", "1.e5", ".5", "1e-400", "1e400", "-1e400",
            "4.9e-324", "2.4703282292062327e-324", "2.4703282292062328e-324", "1.7976931348623157e308",
            "1.7976931348623158e308", "1.7976931348623159e308", "2.2250738585072011e-308",
            "2.2250738585072014e-308", "1.401298464324817e-45", "7.006492321624085e-46", "7.0064923216240854e-46",
            "3.4028234663852886e38", "3.4028235677973366e38", "3.4028235677973367e38", "1.17549435e-38",
            "1.00000005960464477539062500000000000000001", "1.000000059604644775390625",
            "0.3", "2.5", "123456789012345678901234567890", "9007199254740993", "9007199254740992.9999999",
            "0.1e1", "100e-2", "0.000000000000000000000000000000000000000000001", "1e22", "1e23", "8.5e-1"]
    n = 300 if tier == "quick" else 3000
    # shortest round-trip renderings of boundary values
    for e in list(range(0, 2047, 97 if tier == "quick" else 13)) + [0, 1, 2, 2045, 2046]:
        for f in (0, 1, (1 << 52) - 1, rng.getrandbits(52)):
            x = struct.unpack(">d", struct.pack(">Q", (e << 52) | f))[0]
            lits.append(repr(x))
            if rng.random() < 0.3:
                lits.append("-" + repr(x))
    for e in list(range(0, 255, 11 if tier == "quick" else 2)) + [0, 1, 254]:
        for f in (0, 1, (1 << 23) - 1, rng.getrandbits(23)):
            lits.append(shortest_f32((e << 23) | f))
    # hard-to-round: exact midpoints between adjacent floats / doubles, nudged by 1e-60 relative
    for _ in range(n):
        e = rng.randrange(0, 254); f = rng.getrandbits(23)
        lo = Fraction(struct.unpack(">f", struct.pack(">I", (e << 23) | f))[0])
        hi = Fraction(struct.unpack(">f", struct.pack(">I", ((e << 23) | f) + 1))[0])
        mid = (lo + hi) / 2
        d = Decimal(mid.numerator) / Decimal(mid.denominator)
        base = format(d, "f") if mid > Fraction(1, 10 ** 30) else format(d, "e")
        lits.append(base)
        if "e" not in base.lower():
            if "." not in base:
                base += "."
            lits.append(base + "0" * 25 + "1")
    for _ in range(n):
        e = rng.randrange(0, 2046); f = rng.getrandbits(52)
        lo = Fraction(struct.unpack(">d", struct.pack(">Q", (e << 52) | f))[0])
        hi = Fraction(struct.unpack(">d", struct.pack(">Q", ((e << 52) | f) + 1))[0])
        mid = (lo + hi) / 2
        d = Decimal(mid.numerator) / Decimal(mid.denominator)
        getcontext().prec = 60
        lits.append(format(+d, "e"))
        getcontext().prec = 1200
        if 1000 < e < 1100:
            base = format(d, "f")
            if "." not in base:
                base += "."
            lits.append(base + "0" * 5 + "1")
            lits.append(base)
    out, seen = [], set()
    for l in lits:
        if l not in seen and len(l) < 4000 and "\n" not in l:
            seen.add(l)
            out.append(l)
    return out


def check_literals(rep, tier, stats):
    """Folder-side expression versus the real run-time function, on the same text."""
    try:
        exe = lit_harness()
    except C.BuildError as e:
        rep.notes.append("literal harness not built: " + str(e)[:300])
        return None
    lits = literal_corpus(C.rng("C19/lit"), tier)
    rc, lines, err = run_ops(exe, [], lits, timeout=300)
    if rc != 0 or len(lines) != len(lits):
        rep.violation("literal harness failed rc=%d (%d/%d results)" % (rc, len(lines), len(lits)),
                      {"stderr": err[-500:]}, no_input=True)
        return 0
    bad = 0
    ref_agree = 0
    for l, ln in zip(lits, lines):
        p = ln.split()
        if len(p) != 4:
            continue
        if p[0] != p[1] or p[2] != p[3]:
            bad += 1
            if bad <= 3:
                rep.violation("literal %r: folder converts it to %s / %s, run time to %s / %s (single / double bits)" % (
                    l[:80], p[0], p[2], p[1], p[3]),
                    {"kind": "literal", "literal": l, "fold_sflo": p[0], "rt_sflo": p[1], "fold_dflo": p[2],
                     "rt_dflo": p[3]}, key="C19/literal/" + l[:40])
        try:
            if struct.pack(">d", float(l)).hex() == p[3]:
                ref_agree += 1
        except (ValueError, OverflowError):
            pass
    stats["literals"] = len(lits)
    stats["literals_agree_with_python_strtod"] = ref_agree
    return len(lits)


# ------------------------------------------------------------------ bulk C-side oracle

def parse_bulk(out):
    st = {}
    for ln in out.split("\n"):
        p = ln.split()
        if not p:
            continue
        if p[0] in ("bulkS", "bulkD"):
            for kv in p[1:]:
                k, v = kv.split("=")
                st[k] = v if k == "xsum" else int(v)
        elif p[0].startswith("fail_"):
            st[p[0]] = (int(p[1]), p[2:])
    return st


FAIL_WHAT = {
    "fail_weak": ("roundtrip", "does not survive xxFrNative ; xxToNative"),
    "fail_rt": ("nan-payload", "NaN comes back as a different NaN through xxFrNative ; xxToNative"),
    "fail_da": ("dissemble-assemble", "xxDissemble ; xxAssemble is not the identity on"),
    "fail_fi": ("fi-dissemble-assemble", "fiXFloDissemble ; fiXFloAssemble is not the identity on"),
    "fail_cls": ("classify", "xxClassify (native or portable form) is wrong on"),
}


def run_bulk(rep, jobs, stats):
    """jobs: list of argv tails (['bulkS', lo, hi] / ['bulkD', seed, n]). Runs them NCPU at a
    time, reports every failing pattern class once. Returns number of patterns checked."""
    exe = harness()
    total = 0

    def one(j):
        return j, C.run([exe] + [str(a) for a in j], timeout=3000)
    with concurrent.futures.ThreadPoolExecutor(C.NCPU) as ex:
        results = list(ex.map(one, jobs))
    found = {}       # (single?, kind, class) -> [count, smallest example, examples]
    # distinct single patterns covered: union of the [lo,hi) slices
    iv = sorted((int(j[1]), int(j[2])) for j in jobs if j[0] == "bulkS")
    cur_lo, cur_hi, uni = None, None, 0
    for lo, hi in iv:
        if cur_hi is None or lo > cur_hi:
            if cur_hi is not None:
                uni += cur_hi - cur_lo
            cur_lo, cur_hi = lo, hi
        else:
            cur_hi = max(cur_hi, hi)
    if cur_hi is not None:
        uni += cur_hi - cur_lo
    stats["bulk_distinct_singles"] = stats.get("bulk_distinct_singles", 0) + uni
    stats["bulk_sampled_doubles"] = stats.get("bulk_sampled_doubles", 0) + sum(int(j[2]) for j in jobs if j[0] == "bulkD")
    for j, (rc, out, err) in results:
        st = parse_bulk(out)
        if rc != 0 or "n" not in st:
            rep.violation("bulk oracle %s failed rc=%d" % (j, rc), {"job": j, "stderr": err[-500:]}, no_input=True)
            continue
        total += st["n"]
        for c in ("zero", "sub", "norm", "inf", "nan"):
            stats["bulk_" + c] = stats.get("bulk_" + c, 0) + st.get(c, 0)
        single = j[0] == "bulkS"
        weak_ex = set(st.get("fail_weak", (0, []))[1])
        for fk, (kind, what) in FAIL_WHAT.items():
            cnt, exs = st.get(fk, (0, []))
            if fk == "fail_rt":
                exs = [x for x in exs if x not in weak_ex]       # strict-only failures: payload changed
                cnt = cnt - st.get("fail_weak", (0, []))[0]
            if cnt <= 0 or not exs:
                continue
            for x in exs:
                b = int(x, 16)
                s_, e, f = sfields(b) if single else dfields(b)
                cls = ieee_class(e, f, 255 if single else 2047)
                ent = found.setdefault((single, kind, cls), [0, x, []])
                if int(x, 16) % (1 << (31 if single else 63)) < int(ent[1], 16) % (1 << (31 if single else 63)):
                    ent[1] = x
                if len(ent[2]) < 8:
                    ent[2].append(x)
            found[(single, kind, ieee_class(*((sfields if single else dfields)(int(exs[0], 16))[1:]),
                                             255 if single else 2047))][0] += cnt
    for (single, kind, cls), (cnt, x, exs) in sorted(found.items(), key=lambda kv: (not kv[0][0], kv[0][1], kv[0][2])):
        what = [w for k_, (kd, w) in FAIL_WHAT.items() if kd == kind][0]
        prec = "single" if single else "double"
        if kind in ("roundtrip", "nan-payload"):
            op = ("srt " if single else "drt ") + x
        elif kind == "dissemble-assemble":
            op = ("sda " if single else "dda ") + x
        elif kind == "fi-dissemble-assemble":
            op = ("fsr " + x + " 0123456789abcdef") if single else ("fdr " + x)
        else:
            op = ("scl " if single else "dcl ") + x
        if kind == "nan-payload":
            # the property only demands that a NaN stays a NaN: the implementation is within the
            # property but no longer what the (bit-exact) model describes
            rep.violation("correspondence xfloat no longer checks: %s %s (>= %d patterns)" % (what, x, cnt),
                          {"kind": kind, "op": op, "examples": exs, "count": cnt}, no_input=True)
        else:
            rep.violation("%s %s %s %s (>= %d patterns; e.g. %s)" % (prec, cls, what, x, cnt, " ".join(exs[:4])),
                          {"kind": kind, "op": op, "bits": x, "class": cls, "examples": exs, "count": cnt},
                          key="C19/%s/%s/%s" % (prec, kind, cls))
    return total


def run_bulk_bf(rep, tier, stats):
    """util.c bit-field helpers against integer arithmetic, on the C side."""
    exe = harness()
    n = 20000 if tier == "quick" else 400000
    rc, out, err = C.run([exe, "bulkBF", str(C.rng("C19/bf").getrandbits(63)), str(n)], timeout=1200)
    m = re.search(r"bulkBF n=(\d+) fail=(\d+) first=(.*)", out)
    if rc != 0 or not m:
        rep.violation("bit-field oracle failed rc=%d" % rc, {"stderr": err[-300:]}, no_input=True)
        return 0
    stats["bitfield_calls_checked"] = int(m.group(1))
    if int(m.group(2)):
        op = m.group(3).strip()
        rep.violation("correspondence xfloat no longer checks: util.c `%s` differs from the integer shift / leading-one "
                      "position the model uses (%s failing calls)" % (op, m.group(2)),
                      {"kind": "correspondence", "op": op, "count": int(m.group(2))}, no_input=True)
    return int(m.group(1))


def bulk_jobs(tier, rng):
    jobs = []
    if tier == "thorough":
        step = 1 << 26                   # 64 slices of 2^26: all 2^32 single patterns
        for lo in range(0, 1 << 32, step):
            jobs.append(["bulkS", lo, lo + step])
        for i in range(64):              # 64 x 2^20 = 2^26 sampled doubles
            jobs.append(["bulkD", rng.getrandbits(63), 1 << 20])
    else:
        w = 1 << 15
        for c in (0, 0x00800000, 0x3f800000, 0x7f800000, 0x80000000, 0x80800000, 0xff800000, 1 << 32):
            lo, hi = max(0, c - w), min(1 << 32, c + w)
            jobs.append(["bulkS", lo, hi])
        for i in range(8):
            lo = rng.randrange(0, (1 << 32) - (1 << 17))
            jobs.append(["bulkS", lo, lo + (1 << 17)])
        for i in range(16):
            jobs.append(["bulkD", rng.getrandbits(63), 1 << 17])
    return jobs


# ------------------------------------------------------------------ model driver

def model_driver():
    if "ml" in _h:
        return _h["ml"]
    ex = C.COQ + "/XFloat/extracted"
    ml, mli = ex + "/xfloat.ml", ex + "/xfloat.mli"
    if not (os.path.exists(ml) and os.path.exists(mli)):
        return None
    _h["ml"] = C.build_ocaml("xfloat", [mli, ml], C.COQ + "/XFloat/driver.ml")
    return _h["ml"]


def run_parallel(exe, args, ops, nchunk=None):
    """Run an op stream through a one-line-in/one-line-out driver in parallel chunks."""
    nchunk = nchunk or C.NCPU
    size = max(1, (len(ops) + nchunk - 1) // nchunk)
    chunks = [ops[i:i + size] for i in range(0, len(ops), size)]

    def one(ch):
        return run_ops(exe, args, ch, timeout=900)
    outs = []
    with concurrent.futures.ThreadPoolExecutor(C.NCPU) as ex:
        for ch, (rc, lines, err) in zip(chunks, ex.map(one, chunks)):
            if rc != 0 or len(lines) != len(ch):
                raise C.BuildError("driver %s failed rc=%d (%d/%d lines): %s" % (
                    os.path.basename(exe), rc, len(lines), len(ch), err[-300:]))
            outs += lines
    return outs


# ops whose direct property check is a round trip that must reproduce the input
RT_OPS = {"srt": None, "drt": None, "sda": "dissemble-assemble", "dda": "dissemble-assemble",
          "fsr": "fi-dissemble-assemble", "fdr": "fi-dissemble-assemble"}


def shrink(op, differs):
    """Clear set bits of the hex operand(s) of `op` while `differs(op)` stays true."""
    t = op.split()
    idx = [i for i in range(1, len(t)) if re.fullmatch(r"[0-9a-f]{8,}", t[i])]
    cur = t
    for i in idx:
        v = int(cur[i], 16)
        w = len(cur[i])
        changed = True
        rounds = 0
        while changed and rounds < 4:
            changed = False
            rounds += 1
            cands = []
            for bit in range(4 * w):
                if v >> bit & 1:
                    c = list(cur)
                    c[i] = "%0*x" % (w, v & ~(1 << bit))
                    cands.append((bit, " ".join(c)))
            if not cands:
                break
            res = differs([c for _, c in cands])
            for (bit, c), d in zip(cands, res):
                if d and (v >> bit & 1):
                    # accept greedily, re-validated in the next round
                    v2 = v & ~(1 << bit)
                    c2 = list(cur)
                    c2[i] = "%0*x" % (w, v2)
                    if differs([" ".join(c2)])[0]:
                        v = v2
                        cur = c2
                        changed = True
    return " ".join(cur)


def c_property_check(op, cexe, consts):
    """Evaluate the property statement on the implementation for the input of `op`.
    -> (kind, text) if the implementation violates it, else None."""
    t = op.split()
    k = t[0]
    probes = []
    if k in ("srt", "sdis", "scl", "sda"):
        probes = ["srt " + t[1], "sda " + t[1], "sdis " + t[1], "scl " + t[1], "fsr " + t[1] + " 0123456789abcdef"]
    elif k in ("drt", "ddis", "dcl", "dda", "fdd"):
        probes = ["drt " + t[1], "dda " + t[1], "ddis " + t[1], "dcl " + t[1], "fdr " + t[1]]
    elif k in ("fsd", "fsr"):
        probes = ["fsr " + t[1] + " " + t[2], "fsd " + t[1] + " " + t[2], "srt " + t[1]]
    else:
        return None
    rc, lines, err = run_ops(cexe, ["ops"], probes)
    for p, o in zip(probes, lines):
        r = oracle(p, o, consts)
        if r:
            return r[0], r[1], p
        pk = p.split()[0]
        if pk in ("sda", "dda", "fsr", "fdr") and o != p.split()[1]:
            return RT_OPS[pk], "%s returned %s" % (p, o), p
    return None


def correspondence(rep, tier, stats):
    consts = {k: int(v) for k, v in probe_params()[0].items() if re.fullmatch(r"-?\d+", v)}
    cexe = harness()
    rng = C.rng("C19/ops")
    ops = []
    # corpus first
    cdir = os.path.join(C.VERIF, "corpus", ID)
    if os.path.isdir(cdir):
        for fn in sorted(os.listdir(cdir)):
            if fn.endswith(".ops"):
                ops += [l.strip() for l in open(os.path.join(cdir, fn)) if l.strip() and not l.startswith("#")]
    ncorpus = len(ops)
    ops += build_ops(rng, tier)
    couts = run_parallel(cexe, ["ops"], ops)
    # ---- direct oracle on every implementation result
    nviol = 0
    reported = set()
    seen_kinds = set()
    evaluations = 0
    for op, out in zip(ops, couts):
        r = oracle(op, out, consts)
        if op.split()[0] in ("srt", "drt", "sdis", "ddis", "scl", "dcl", "fsd", "fdd"):
            evaluations += 1
        if r and r[0] not in seen_kinds:
            seen_kinds.add(r[0])
            reported.add((r[0], op))
            nviol += 1
            if r[0] == "nan-payload":
                rep.violation("correspondence xfloat no longer checks: " + r[1], {"kind": r[0], "op": op, "c": out},
                              no_input=True)
            else:
                rep.violation(r[1], {"kind": r[0], "op": op, "c": out}, key="C19/op/" + r[0])
    # phase 2: reassemble what the implementation itself took apart
    p2 = phase2_ops(ops, couts)
    p2outs = run_parallel(cexe, ["ops"], [p for p, _ in p2])
    for (p, want), out in zip(p2, p2outs):
        evaluations += 1
        if want.startswith("cls:"):
            _, hx_, rt = want.split(":")
            b = int(hx_, 16)
            s, e, f = sfields(b) if rt == "srt" else dfields(b)
            c = ieee_class(e, f, 255 if rt == "srt" else 2047)
            wc = CLS_CODE["norm" if c == "sub" else c]
            if out != str(wc) and "xclassify" not in seen_kinds:
                seen_kinds.add("xclassify")
                rep.violation("portable form %s of %s %s is classified %s, expected %d" % (p.split()[1], c, hx_, out, wc),
                              {"kind": "xclassify", "op": p, "bits": hx_}, key="C19/op/xclassify")
        elif out != want:
            kind = "dissemble-assemble" if p.split()[0] in ("sasm", "dasm") else "fi-dissemble-assemble"
            if kind not in seen_kinds:
                seen_kinds.add(kind)
                rep.violation("%s of the implementation's own dissemble result returns %s, not %s" % (p, out, want),
                              {"kind": kind, "op": ("sda " if p.startswith("sasm") else "dda " if p.startswith("dasm")
                                                    else "fsr " if p.startswith("fsa") else "fdr ") + want +
                               (" 0123456789abcdef" if p.startswith("fsa") else ""), "asm": p},
                              key="C19/op/" + kind)
    stats["oracle_evaluations"] = evaluations
    dist = set()
    for op in ops:
        t = op.split()
        if t[0] in ("srt", "drt", "sdis", "ddis", "scl", "dcl", "fsd", "fdd") and len(t) >= 2:
            try:
                if int(t[1], 16) & ((1 << (31 if len(t[1]) <= 8 else 63)) - 1):
                    dist.add((len(t[1]) <= 8, t[1]))
            except ValueError:
                pass
    stats["distinct_op_patterns"] = len(dist)
    # ---- model versus implementation
    mexe = model_driver()
    if mexe is None:
        rep.notes.append("extracted model not available (proof stage failed before extraction): correspondence skipped")
        return ops, couts, 0
    allops = ops + [p for p, _ in p2]
    allc = couts + p2outs
    mouts = run_parallel(mexe, [], allops)
    mism = [(o, c, m) for o, c, m in zip(allops, allc, mouts) if c != m]
    stats["model_vs_impl_compared"] = len(allops)
    stats["model_vs_impl_mismatches"] = len(mism)
    if mism:
        def differs(cands):
            _, a, _ = run_ops(cexe, ["ops"], cands)
            _, b, _ = run_ops(mexe, [], cands)
            return [x != y for x, y in zip(a, b)]
        done = set()
        for o, c, m in mism:
            k = o.split()[0]
            if k in done or len(done) >= 6:
                continue
            done.add(k)
            small = shrink(o, differs)
            sc = (run_ops(cexe, ["ops"], [small])[1] or ["?"])[0]
            sm = (run_ops(mexe, [], [small])[1] or ["?"])[0]
            # searcher: does the implementation violate the property on this input?
            pv = c_property_check(small, cexe, consts)
            if "VERIF_REPO" not in os.environ:      # minimised failure joins the corpus (real tree only)
                os.makedirs(cdir, exist_ok=True)
                import hashlib
                with open(os.path.join(cdir, "found-%s.ops" % hashlib.sha1(small.encode()).hexdigest()[:8]), "w") as fp:
                    fp.write("# model/implementation difference found %s\n%s\n" % (time.strftime("%Y-%m-%d"), small))
            if pv and pv[0] != "nan-payload" and (pv[0], pv[2]) in reported:
                continue                     # the direct oracle already reported exactly this input
            if pv and pv[0] != "nan-payload":
                rep.violation("%s (found from model/implementation difference on `%s`)" % (pv[1], small),
                              {"kind": pv[0], "op": pv[2], "model": sm, "c": sc, "from": o},
                              key="C19/op/" + pv[0])
            else:
                n = sum(1 for x in mism if x[0].split()[0] == k)
                rep.violation("correspondence xfloat no longer checks: `%s` gives %s in the implementation, %s in the "
                              "model (%d differing %s operations; property statement still holds on this input)" % (
                                  small, sc, sm, n, k),
                              {"kind": "correspondence", "op": small, "c": sc, "model": sm, "first": o}, no_input=True)
    return ops, couts, len(allops)


E2E_DOUBLES = ["4.9e-324", "5.0e-324", "3.0e-320", "1.0e-310", "2.225073858507201e-308", "2.2250738585072014e-308",
               "0.1", "1.0e23", "123456.789e3", "9007199254740993.0", "1.7976931348623157e308", "8.98846567431158e307"]
E2E_SINGLES = ["1.0e-45", "7.1e-46", "1.1754942e-38", "1.17549435e-38", "0.1", "16777217.0", "3.4028234e38"]


def fm_consts(text):
    """(DFlo x) / (SFlo x) constants of a FOAM s-expression dump, as bit patterns, in order."""
    out = []
    for kind, num in re.findall(r"\((DFlo|SFlo)\s+([-+0-9.eEsS]+)\)", text):
        try:
            v = float(num.replace("s", "e").replace("S", "e"))
        except ValueError:
            out.append((kind, num))
            continue
        if kind == "DFlo":
            out.append((kind, struct.pack(">d", v).hex()))
        else:
            try:
                out.append((kind, struct.pack(">f", v).hex()))
            except OverflowError:
                out.append((kind, num))
    return out


def e2e_constants(rep, tier, stats):
    """Extreme constants through the real compiler built from the current tree:
    literal text -> folder -> FOAM constant -> .ao (bufWrDFloat/bufWrSFloat = xxFrNative)
    -> reload (bufRdDFloat/bufRdSFloat = xxToNative) -> FOAM dump.  The constants dumped
    from the reloaded .ao must be the ones dumped before it was written, and must be the
    correctly rounded values of the literals."""
    src = ['#include "aldor"', '#include "aldorio"', "import from DoubleFloat;", "import from SingleFloat;"]
    for i, l in enumerate(E2E_DOUBLES):
        src.append("x%d: DoubleFloat := %s;" % (i, l))
        src.append("stdout << x%d << newline;" % i)
    for i, l in enumerate(E2E_SINGLES):
        src.append("y%d: SingleFloat := %s;" % (i, l))
        src.append("stdout << y%d << newline;" % i)
    try:
        exe = C.build_compiler()
    except C.BuildError as e:
        rep.notes.append("e2e: compiler build failed: " + str(e)[:200])
        return
    d = C.scratch("c19e2e")
    open(d + "/p.as", "w").write("\n".join(src) + "\n")
    base = C.aldor_base_args(exe)
    rc1, out1, err1 = C.run(base + ["-Q2", "-Fao=p.ao", "-Ffm=p1.fm", "p.as"], cwd=d, env=C.aldor_env(), timeout=300)
    if rc1 != 0 or not os.path.exists(d + "/p.ao") or not os.path.exists(d + "/p1.fm"):
        rep.notes.append("e2e: compile to .ao failed rc=%d: %s (not counted)" % (rc1, (out1 + err1)[-300:]))
        return
    rc2, out2, err2 = C.run(base + ["-Ffm=p2.fm", "p.ao"], cwd=d, env=C.aldor_env(), timeout=300)
    if rc2 != 0 or not os.path.exists(d + "/p2.fm"):
        rep.notes.append("e2e: reload of .ao failed rc=%d: %s (not counted)" % (rc2, (out2 + err2)[-300:]))
        return
    c1 = fm_consts(open(d + "/p1.fm").read())
    c2 = fm_consts(open(d + "/p2.fm").read())
    stats["e2e_constants_compared"] = len(c2)
    if c1 != c2:
        i = next((k for k, (x, y) in enumerate(zip(c1, c2)) if x != y), min(len(c1), len(c2)))
        rep.violation("float constant #%d of the test program is %s in memory and %s after writing and reloading the .ao" % (
            i, c1[i] if i < len(c1) else None, c2[i] if i < len(c2) else None),
            {"kind": "e2e", "before": c1[i] if i < len(c1) else None, "after": c2[i] if i < len(c2) else None,
             "source": src, "cmd": "aldor -Q2 -Fao=p.ao -Ffm=p1.fm p.as ; aldor -Ffm=p2.fm p.ao"},
            key="C19/e2e/ao-reload")
        return
    have_d = {v for k, v in c2 if k == "DFlo"}
    have_s = {v for k, v in c2 if k == "SFlo"}
    miss = []
    for l in E2E_DOUBLES:
        if struct.pack(">d", float(l)).hex() not in have_d:
            miss.append(("DoubleFloat", l, struct.pack(">d", float(l)).hex()))
    for l in E2E_SINGLES:
        if struct.pack(">f", float(l)).hex() not in have_s:
            miss.append(("SingleFloat", l, struct.pack(">f", float(l)).hex()))
    stats["e2e_literals_found"] = len(E2E_DOUBLES) + len(E2E_SINGLES) - len(miss)
    if miss:
        # not a C19 violation by itself (the folder may not have folded it): record
        rep.notes.append("e2e: constants not found with their correctly rounded bits in the reloaded .ao: %s" % miss[:5])


# ------------------------------------------------------------------ text routes (util.c DFloatSprint)

NUM_TOKEN = re.compile(r"-?\d+\.\d*(?:[esEdDfF][-+]?\d+)?$")


def check_sprint(rep, tier, stats):
    """Real DFloatSprint of the current util.c on boundary patterns: (a) against the model's
    decision (zero text / printf format+precision, printf itself evaluated by Python's
    correctly rounding formatter), (b) directly: the text must read back as the same bits
    (default mode, finite values)."""
    cexe = harness()
    mexe = model_driver()
    rng = C.rng("C19/sprint")
    pats = [0, 1 << 63]
    fr = frac_boundaries(52, rng, 4, tier != "quick")
    for e in range(0, 2048):
        for f in (fr if (e < 3 or e > 2044 or e in (1022, 1023, 1024) or tier != "quick") else fr[:6] + fr[-3:]):
            pats.append((rng.getrandbits(1) << 63) | (e << 52) | f)
    for b in single_patterns(rng, "quick")[::7]:          # singles widened exactly to double
        x = struct.unpack(">f", struct.pack(">I", b))[0]
        pats.append(struct.unpack(">Q", struct.pack(">d", x))[0])
    for lo, hi in ((1e16, 1e17), (1e14, 1e15)):          # 17 / 15 integer digits and a bare point
        for _ in range(200):
            pats.append(struct.unpack(">Q", struct.pack(">d", rng.uniform(lo, hi)))[0])
    for _ in range(20000 if tier == "quick" else 200000):
        pats.append(rng.getrandbits(64))
    ops = ["dsp 0 %016x" % b for b in pats] + ["dsp 1 %016x" % b for b in pats[:20000]]
    couts = run_parallel(cexe, ["ops"], ops)
    mouts = run_parallel(mexe, [], ops) if mexe else None
    n_model = n_oracle = lossy15 = nonfinite_text = 0
    seen = set()
    for i, (op, c) in enumerate(zip(ops, couts)):
        _, repflag, hx_ = op.split()
        b = int(hx_, 16)
        x = struct.unpack(">d", struct.pack(">Q", b))[0]
        s_, e_, f_ = dfields(b)
        cls = ieee_class(e_, f_, 2047)
        # (b) direct oracle
        if cls in ("inf", "nan"):
            if not NUM_TOKEN.match(c):
                nonfinite_text += 1               # reported with a program by the end-to-end stage
        else:
            try:
                back = struct.unpack(">Q", struct.pack(">d", float(c)))[0] if NUM_TOKEN.match(c) else None
            except (ValueError, OverflowError):
                back = None
            if repflag == "0":
                n_oracle += 1
                if back != b and ("rb", cls) not in seen:
                    seen.add(("rb", cls))
                    rep.violation("DFloatSprint writes the %s double %016x as `%s`, which reads back as %s" % (
                        "negative zero" if b == 1 << 63 else cls, b, c, "%016x" % back if back is not None else "no number"),
                        {"kind": "sprint", "op": op, "text": c, "class": cls},
                        key="C19/sprint/%s" % ("negzero" if b == 1 << 63 else cls))
            elif back != b:
                if cls == "zero" and ("rb1", cls) not in seen:
                    seen.add(("rb1", cls))
                    rep.violation("DFloatSprint (-Wfloatrep) writes the zero %016x as `%s`: sign lost" % (b, c),
                                  {"kind": "sprint", "op": op, "text": c, "class": cls}, key="C19/sprint/floatrep-zero")
                else:
                    lossy15 += 1
        # (a) model
        if mouts is not None:
            n_model += 1
            m = mouts[i]
            if m.startswith("T "):
                want = m[2:]
            elif m.startswith("P "):
                _, fmt, prec = m.split()
                try:
                    want = fmt % (int(prec), x)
                    if cls == "nan":             # glibc prints the sign of a NaN, Python does not
                        want = ("-" if b >> 63 else "") + want.lstrip("-")
                except (ValueError, TypeError):
                    want = None
            else:
                want = None
            if want != c and ("model", m[:1]) not in seen:
                seen.add(("model", m[:1]))
                rep.violation("correspondence DFloatSprint no longer checks: `%s` gives `%s`, the model says %s -> `%s`" % (
                    op, c, m, want), {"kind": "correspondence", "op": op, "c": c, "model": m}, no_input=True)
    stats["sprint_texts_read_back"] = n_oracle
    stats["sprint_model_compared"] = n_model
    stats["sprint_floatrep_lossy_15_digits"] = lossy15
    stats["sprint_nonfinite_texts_not_numeric"] = nonfinite_text
    return n_oracle


# family of extreme constants: (literal text, class)
TEXT_DOUBLES = [("0.0", "zero"), ("4.9e-324", "minsub"), ("2.225073858507201e-308", "maxsub"),
                ("2.2250738585072014e-308", "minnorm"), ("1.7976931348623157e308", "maxfinite"),
                ("1.0000000000000002", "one+ulp"), ("0.9999999999999999", "one-ulp"),
                ("0.30000000000000004", "17digits"), ("0.1", "17digits"), ("9007199254740993.0", "17digits"),
                ("1.0e23", "17digits"), ("123456789.12345679", "17digits"), ("5.0e-324", "minsub"),
                # [1e16, 1e17): "%#.17g" prints 17 integer digits and a bare point (5586a2c)
                ("1.0e16", "int17"), ("16092042014752768.0", "int17"), ("99999999999999984.0", "int17"),
                ("12345678901234568.0", "int17")]
TEXT_SINGLES = [("0.0", "zero"), ("1.0e-45", "minsub"), ("1.1754942e-38", "maxsub"), ("1.17549435e-38", "minnorm"),
                ("3.4028234e38", "maxfinite"), ("1.0000001", "one+ulp"), ("0.99999994", "one-ulp"),
                ("0.1", "9digits"), ("16777217.0", "9digits"), ("0.3", "9digits"), ("1.00000005960464478", "9digits"),
                ("1.0e16", "int17"), ("1.6092042e16", "int17"), ("9.9999998e16", "int17")]
# -Wfloatrep prints 15 digits: [1e14, 1e15) gets 15 integer digits and a bare point; these
# values are exact in 15 digits, so even the lossy mode must give their bits back
TEXT_FLOATREP_DOUBLES = [("123456789012345.0", "int15"), ("100000000000000.0", "int15"), ("999999999999999.0", "int15")]
TEXT_FLOATREP_SINGLES = [("1.0e14", "int15"), ("4.0e14", "int15")]


def text_family(rng, tier):
    """-> (doubles, singles): lists of (aldor expression, expected bits, class)."""
    dd, ss = [], []
    for lit, cls in TEXT_DOUBLES:
        b = struct.unpack(">Q", struct.pack(">d", float(lit)))[0]
        dd.append((lit, b, cls))
    for lit, cls in TEXT_DOUBLES[:3]:
        b = struct.unpack(">Q", struct.pack(">d", float(lit)))[0]
        dd.append(("-(%s)" % lit, b | (1 << 63), "neg" + cls))
    for _ in range(6 if tier == "quick" else 40):
        b = (rng.randrange(1, 2046) << 52) | rng.getrandbits(52)
        x = struct.unpack(">d", struct.pack(">Q", b))[0]
        r = repr(x)
        if "e" in r and "." not in r:
            r = r.replace("e", ".0e")
        dd.append((r, b, "random"))
    for lit, cls in TEXT_SINGLES:
        b = struct.unpack(">I", struct.pack(">f", float(lit)))[0]
        ss.append((lit, b, cls))
        ss.append(("-(%s)" % lit, b | (1 << 31), "neg" + cls))
    for _ in range(6 if tier == "quick" else 40):
        b = (rng.randrange(1, 254) << 23) | rng.getrandbits(23)
        r = shortest_f32(b)
        if "." not in r:
            r = r.replace("e", ".0e") if "e" in r else r + ".0"
        ss.append((r, b, "random"))
    return dd, ss


def text_program(dd, ss, extra=()):
    L = ['#include "aldor"', '#include "aldorio"', "import from Machine;",
         "import from SingleFloat, DoubleFloat, MachineInteger;"]
    if dd:
        L.append("da: PrimitiveArray DoubleFloat := new(%d, 0.0);" % len(dd))
        for i, (ex, _, _) in enumerate(dd):
            L.append("da.%d := %s;" % (i, ex))
    if ss:
        L.append("sa: PrimitiveArray SingleFloat := new(%d, 0.0);" % len(ss))
        for i, (ex, _, _) in enumerate(ss):
            L.append("sa.%d := %s;" % (i, ex))
    L += list(extra)
    if dd:
        L += ["for i in 0..%d repeat {" % (len(dd) - 1),
              "\t(s, e, m1, m2) := dissemble((da.i)::DFlo);",
              '\tstdout << "D " << i << " " << (s pretend Boolean) << " " << (e pretend MachineInteger) << " " << (m1 pretend MachineInteger) << newline;',
              "}"]
    if ss:
        L += ["for i in 0..%d repeat {" % (len(ss) - 1),
              "\t(s, e, m1) := dissemble((sa.i)::SFlo);",
              '\tstdout << "S " << i << " " << (s pretend Boolean) << " " << (e pretend MachineInteger) << " " << (m1 pretend MachineInteger) << newline;',
              "}"]
    return "\n".join(L) + "\n"


def decode_slots(out, consts):
    """Program output -> {('D'|'S', i): bits} (bits as the run-time dissemble saw them)."""
    res = {}
    for ln in out.split("\n"):
        p = ln.split()
        if len(p) == 5 and p[0] in ("D", "S") and p[2] in ("T", "F"):
            try:
                i, e, m = int(p[1]), int(p[3]), int(p[4])
            except ValueError:
                continue
            sg = 1 if p[2] == "T" else 0
            if p[0] == "D":
                fr = bswap_int(m & ((1 << 64) - 1), 8)
                res[("D", i)] = (sg << 63) | (((e + consts["DF_Excess"]) & 0x7ff) << 52) | (fr >> consts["DF_FracOff"])
            else:
                fr = bswap_int(m & 0xffffffff, 4)
                res[("S", i)] = (sg << 31) | (((e + consts["SF_Excess"]) & 0xff) << 23) | (fr >> consts["SF_FracOff"])
    return res


def parse_text_consts(route, text):
    """Float constants of a text output: [(kind, token, bits or None)]; kind 'D'/'S'
    ('D' for every C literal: the C text carries singles as double literals)."""
    out = []
    if route == "lsp":
        toks = re.findall(r"\(the \|(DFlo|SFlo)\| ([^\s()]+)\)", text)
    elif route == "fm":
        toks = re.findall(r"\((DFlo|SFlo)\s+([^\s()]+)\)", text)
    else:
        toks = [("DFlo", t) for t in re.findall(r"(?<![\w.])(-?\d+\.\d{6,}(?:e[-+]?\d+)?|-?\binf\b|-?\bnan\b)(?![\w.])", text)]
    for k, t in toks:
        m = re.fullmatch(r"(-?\d+\.\d*)(?:[esES]([-+]?\d+))?", t)
        bits = None
        if m:
            try:
                v = float(m.group(1) + "e" + (m.group(2) or "0"))
                bits = struct.unpack(">Q", struct.pack(">d", v))[0] if k == "DFlo" else \
                    struct.unpack(">I", struct.pack(">f", v))[0]
            except (ValueError, OverflowError):
                bits = None
        out.append(("D" if k == "DFlo" else "S", t, bits))
    return out


TEXT_ROUTES = ("interp", "exe", "fm", "lsp")


def run_text_routes(src, routes=TEXT_ROUTES, opt="-Q3", extra=()):
    """Compile `src` with the compiler built from the CURRENT tree and observe its float
    constants on each route.  -> {route: {'slots': {...}} | {'consts': [...]} | {'error': str}}"""
    consts = {k: int(v) for k, v in probe_params()[0].items() if re.fullmatch(r"-?\d+", v)}
    exe = C.build_compiler()
    base0 = C.aldor_base_args(exe)
    base = base0 + list(extra)
    env = C.aldor_env()
    top = C.scratch("c19txt")
    res = {}

    def wd(name):
        d = os.path.join(top, name)
        os.makedirs(d, exist_ok=True)
        open(d + "/p.as", "w").write(src)
        return d
    if "interp" in routes:
        d = wd("interp")
        rc, out, err = C.run(base + [opt, "-ginterp", "p.as"], cwd=d, env=env, timeout=300)
        res["interp"] = {"slots": decode_slots(out, consts), "rc": rc, "log": (out + err)[-400:]}
    if "exe" in routes:
        d = wd("exe")
        rc, out, err = C.run(base + [opt, "-Ccc=%s/aldor/subcmd/unitools/unicl" % C.RB, "-Y%s/aldor/lib/libfoam" % C.RB,
                                     "-laldor", "-Cargs=-Wconfig=%s/aldor/src/aldor.conf -I%s/aldor/src" % (C.RB, C.RB),
                                     "-Fx=p.exe", "p.as"], cwd=d, env=env, timeout=600)
        d2 = wd("ctext")
        C.run(base + [opt, "-Fc=p.c", "p.as"], cwd=d2, env=env, timeout=300)
        ctext = open(d2 + "/p.c").read() if os.path.exists(d2 + "/p.c") else ""
        if not os.path.exists(d + "/p.exe"):
            m = re.search(r"error: [^\n]*", out + err)
            res["exe"] = {"error": "no executable: " + (m.group(0) if m else (out + err)[-300:]), "ctext": ctext}
        else:
            rc2, out2, err2 = C.run([d + "/p.exe"], cwd=d, env=env, timeout=120)
            res["exe"] = {"slots": decode_slots(out2, consts), "rc": rc2, "log": (out2 + err2)[-400:], "ctext": ctext}
    if "fm" in routes or "lsp" in routes:
        d = wd("text")
        rc, out, err = C.run(base + [opt, "-Ffm=p.fm", "-Flsp=p.lsp", "p.as"], cwd=d, env=env, timeout=300)
        fm = open(d + "/p.fm").read() if os.path.exists(d + "/p.fm") else None
        lsp = open(d + "/p.lsp").read() if os.path.exists(d + "/p.lsp") else None
        if "fm" in routes:
            if fm is None:
                res["fm"] = {"error": "no .fm written: " + (out + err)[-300:]}
            else:
                os.remove(d + "/p.as")
                rc2, out2, err2 = C.run(base0 + ["-ginterp", "-laldor", "p.fm"], cwd=d, env=env, timeout=300)
                sl = decode_slots(out2, consts)
                res["fm"] = {"slots": sl, "rc": rc2, "log": (out2 + err2)[-400:], "consts": parse_text_consts("fm", fm), "text": fm}
                if rc2 != 0 and not sl:
                    m = re.search(r"\(Fatal Error\)[^\n]*", out2 + err2)
                    res["fm"]["error"] = "reload of the .fm failed: " + (m.group(0) if m else (out2 + err2)[-300:])
        if "lsp" in routes:
            res["lsp"] = {"error": "no .lsp written"} if lsp is None else {"consts": parse_text_consts("lsp", lsp), "text": lsp}
    return res


def text_presence(route, consts, kind, want_bits):
    """Is a constant with exactly these bits in the text?  -> 'exact' | ('near', token) | 'absent'.
    near = a constant that compares equal as a number (or within 1e-14 relative) but has other
    bits: the text lost information."""
    near = None
    w = struct.unpack(">d", struct.pack(">Q", want_bits))[0] if kind == "D" else \
        struct.unpack(">f", struct.pack(">I", want_bits))[0]
    for k, tok, bits in consts:
        if k != kind or bits is None:
            continue
        if bits == want_bits:
            return "exact"
        v = struct.unpack(">d", struct.pack(">Q", bits))[0] if kind == "D" else struct.unpack(">f", struct.pack(">I", bits))[0]
        if v == w or (w != 0 and abs(v - w) <= 1e-14 * abs(w)):
            near = tok
    return ("near", near) if near is not None else "absent"


def e2e_text_routes(rep, tier, stats, only=None):
    """The text routes a FOLDED constant takes (generated C -> executable, .fm -> reloaded,
    .lsp -> small reader) against the interpreter and against the exact bits."""
    rng = C.rng("C19/text")
    dd, ss = text_family(rng, tier)
    src = text_program(dd, ss)
    try:
        R = run_text_routes(src)
    except C.BuildError as e:
        rep.notes.append("text routes: compiler build failed: " + str(e)[:200])
        return 0
    expected = {("D", i): (b, cls, ex) for i, (ex, b, cls) in enumerate(dd)}
    expected.update({("S", i): (b, cls, ex) for i, (ex, b, cls) in enumerate(ss)})
    checked = 0
    done = set()
    cmd = {"interp": "aldor -Q3 -ginterp p.as", "exe": "aldor -Q3 -Fx=p.exe p.as ; ./p.exe",
           "fm": "aldor -Q3 -Ffm=p.fm p.as ; aldor -ginterp -laldor p.fm", "lsp": "aldor -Q3 -Flsp=p.lsp p.as ; read the (the |DFlo| ...) / (the |SFlo| ...) constants"}
    for route in ("interp", "exe", "fm"):
        r = R.get(route, {})
        if "error" in r or not r.get("slots"):
            rep.violation("text route %s: the extreme-constant program did not run: %s" % (route, r.get("error") or r.get("log", "")[-200:]),
                          {"kind": "textroute", "route": route, "source": src, "cmd": cmd[route], "slot": None},
                          key="C19/text/%s/run" % route)
            continue
        for slot, (b, cls, ex) in sorted(expected.items()):
            got = r["slots"].get(slot)
            checked += 1
            if got != b and (route, cls) not in done:
                done.add((route, cls))
                w = 16 if slot[0] == "D" else 8
                mini = text_program([(ex, b, cls)] if slot[0] == "D" else [], [(ex, b, cls)] if slot[0] == "S" else [])
                rep.violation("%s constant %s (%s, bits %0*x) is %s on route %s (%s)" % (
                    "DoubleFloat" if slot[0] == "D" else "SingleFloat", ex, cls, w, b,
                    ("%0*x" % (w, got)) if got is not None else "missing", route, cmd[route]),
                    {"kind": "textroute", "route": route, "class": cls, "expr": ex, "prec": slot[0], "want": "%0*x" % (w, b),
                     "got": None if got is None else "%0*x" % (w, got), "source": mini, "cmd": cmd[route]},
                    key="C19/text/%s/%s" % (route, cls))
    # text level: the .lsp has no loader here, so its constants are read by a small reader;
    # the .fm and C texts are read the same way as additional evidence.
    #  - SingleFloat stores carry their slot number in all three texts: compared slot by slot;
    #  - DoubleFloat values are boxed (no slot in the text) and their negation is not folded:
    #    every non-zero folded literal must be present with its exact bits; a constant that
    #    is numerically within 1e-14 but has other bits means the text lost information.
    SLOT_RE = {
        "lsp": r"\(\|SetAElt\| \S+ \(the \|SInt\| (\d+)\)\s+\(the \|SFlo\| ([^\s()]+)\)\)",
        "fm-text": r"\(Set\s+\(AElt\s+Word\s+\(SInt\s+(\d+)\)\s+\([^()]*\)\)\s+\(Cast\s+Word\s+\(SFlo\s+([^\s()]+)\)\)\)",
        "c-text": r"fiWORD_FR_SFLO\(\(\(FiWord\*\) \w+\)\[(\d+)L\], ([^\s()]+)\);",
    }
    texts = {"lsp": R.get("lsp", {}).get("text"), "fm-text": R.get("fm", {}).get("text"),
             "c-text": R.get("exe", {}).get("ctext") or None}
    folded = 0
    for route, text in texts.items():
        if text is None:
            rep.violation("text route %s: no output" % route, {"kind": "textroute", "route": route, "source": src, "slot": None},
                          key="C19/text/%s/run" % route)
            continue
        stores = re.findall(SLOT_RE[route], text)
        if not stores:
            rep.notes.append("text route %s: no SingleFloat constant stores recognised (code shape changed?)" % route)
        for idx, tok in stores:
            slot = ("S", int(idx))
            if slot not in expected:
                continue
            b, cls, ex = expected[slot]
            m = re.fullmatch(r"(-?\d+\.\d*)(?:[esES]([-+]?\d+))?", tok)
            try:
                got = struct.unpack(">I", struct.pack(">f", float(m.group(1) + "e" + (m.group(2) or "0"))))[0] if m else None
            except (ValueError, OverflowError):
                got = None
            checked += 1
            folded += 1
            if got != b and (route, cls) not in done:
                done.add((route, cls))
                mini = text_program([], [(ex, b, cls)])
                rep.violation("SingleFloat constant %s (%s, bits %08x) is written to the %s as `%s` = %s" % (
                    ex, cls, b, {"lsp": ".lsp", "fm-text": ".fm", "c-text": "generated C"}[route], tok,
                    "%08x" % got if got is not None else "not a number"),
                    {"kind": "textroute", "route": route, "textonly": True, "class": cls, "expr": ex, "prec": "S",
                     "want": "%08x" % b, "token": tok, "source": mini, "cmd": "aldor -Q3 -Flsp -Ffm -Fc p.as"},
                    key="C19/text/%s/%s" % (route, cls))
        consts_ = parse_text_consts({"lsp": "lsp", "fm-text": "fm", "c-text": "c"}[route], text)
        for slot, (b, cls, ex) in sorted(expected.items()):
            if slot[0] != "D" or cls.startswith("neg") or (b & ((1 << 63) - 1)) == 0:
                continue
            pr = text_presence(route, consts_, "D", b)
            if pr == "exact":
                folded += 1
                checked += 1
            elif pr != "absent" and (route, cls) not in done:
                done.add((route, cls))
                mini = text_program([(ex, b, cls)], [])
                rep.violation("DoubleFloat constant %s (%s, bits %016x) appears in the %s text as `%s`, which is a different value" % (
                    ex, cls, b, route, pr[1]),
                    {"kind": "textroute", "route": route, "textonly": True, "class": cls, "expr": ex, "prec": "D",
                     "want": "%016x" % b, "token": pr[1], "source": mini, "cmd": "aldor -Q3 -Flsp -Ffm -Fc p.as"},
                    key="C19/text/%s/%s" % (route, cls))
    # -Wfloatrep: the .fm written with 15 digits must still load, and values that are exact
    # in 15 digits must keep their bits
    fd = [(l, struct.unpack(">Q", struct.pack(">d", float(l)))[0], c) for l, c in TEXT_FLOATREP_DOUBLES]
    fs = [(l, struct.unpack(">I", struct.pack(">f", float(l)))[0], c) for l, c in TEXT_FLOATREP_SINGLES]
    fsrc = text_program(fd, fs)
    try:
        RF = run_text_routes(fsrc, routes=("fm",), extra=("-Wfloatrep",))
    except C.BuildError:
        RF = {}
    r = RF.get("fm", {})
    if "error" in r or not r.get("slots"):
        rep.violation("text route fm under -Wfloatrep: the program with 15-integer-digit constants did not run: %s" % (
            r.get("error") or r.get("log", "")[-200:]),
            {"kind": "textroute", "route": "fm", "floatrep": True, "source": fsrc,
             "cmd": "aldor -Q3 -Wfloatrep -Ffm=p.fm p.as ; aldor -ginterp -laldor p.fm"}, key="C19/text/fm/run:floatrep")
    else:
        for slot, (b, cls, ex) in sorted({**{("D", i): (b, c, e) for i, (e, b, c) in enumerate(fd)},
                                          **{("S", i): (b, c, e) for i, (e, b, c) in enumerate(fs)}}.items()):
            checked += 1
            got = r["slots"].get(slot)
            if got != b and ("fm:floatrep", cls) not in done:
                done.add(("fm:floatrep", cls))
                rep.violation("constant %s (%s, bits %x) is %s after -Wfloatrep .fm reload" % (ex, cls, b, "%x" % got if got is not None else "missing"),
                              {"kind": "textroute", "route": "fm", "floatrep": True, "class": cls, "expr": ex, "source": fsrc,
                               "cmd": "aldor -Q3 -Wfloatrep -Ffm=p.fm p.as ; aldor -ginterp -laldor p.fm"},
                              key="C19/text/fm/%s:floatrep" % cls)
    stats["text_route_slots_checked"] = checked
    stats["text_constants_found_folded"] = folded
    stats["text_family"] = {"doubles": len(dd), "singles": len(ss)}
    return checked


NONFINITE_PROGRAMS = {
    # (class, cause) -> (doubles, singles) as aldor expressions
    # literal: since /repo a5dd6ea the folder declines an overflowing literal, so it must work on
    #          every route (a failure here is a regression, never a listed finding);
    # folded-arithmetic: 1.0/0.0 and 0.0/0.0 are folded by -Qffold (-Q2 and above).
    ("inf", "literal"): ([("1.0e400", None, "inf")], [("1.0e39", None, "inf")]),
    ("inf", "folded-arithmetic"): ([], [("1.0/0.0", None, "inf"), ("-(1.0/0.0)", None, "inf")]),
    ("nan", "folded-arithmetic"): ([], [("0.0/0.0", None, "nan")]),
}


def slot_class(kind, bits):
    s, e, f = dfields(bits) if kind == "D" else sfields(bits)
    return ieee_class(e, f, 2047 if kind == "D" else 255)


def e2e_nonfinite(rep, tier, stats):
    """Can a constant be an infinity or a NaN, and what do the text routes make of it?"""
    n = 0
    for (cls, cause), (dd, ss) in sorted(NONFINITE_PROGRAMS.items()):
        src = text_program(dd, ss)
        suffix = ":" + cause if cause != "literal" else ":literal"
        try:
            R = run_text_routes(src)
        except C.BuildError as e:
            rep.notes.append("non-finite constants: compiler build failed: " + str(e)[:200])
            return n
        ref = R.get("interp", {}).get("slots", {})
        if not ref or any(slot_class(k[0], v) != cls for k, v in ref.items()):
            # the interpreter is the reference for what the program means: 1.0e400 is +inf,
            # 1.0/0.0 is +inf, 0.0/0.0 is a NaN
            rep.violation("the interpreter at -Q3 does not compute %s for %s: slots %s" % (
                cls, [e for e, _, _ in dd + ss], {"%s%d" % k: "%x" % v for k, v in ref.items()}),
                {"kind": "textroute", "route": "interp", "class": cls, "nonfinite": True, "cause": cause, "source": src},
                key="C19/text/interp/%s%s" % (cls, suffix))
            continue
        fmc = R.get("fm", {}).get("consts") or []
        stats["nonfinite_%s_%s_tokens_in_fm" % (cls, cause)] = [t for _, t, b in fmc if b is None]
        for route, what in (("exe", "c"), ("fm", "fm")):
            r = R.get(route, {})
            n += 1
            bad = None
            if "error" in r:
                bad = r["error"]
            else:
                diff = {k: v for k, v in ref.items() if (cls == "inf" and r.get("slots", {}).get(k) != v) or
                        (cls == "nan" and (r.get("slots", {}).get(k) is None or slot_class(k[0], r["slots"][k]) != "nan"))}
                if diff:
                    bad = "slots differ from the interpreter: want %s, got %s" % (
                        {"%s%d" % k: "%x" % v for k, v in diff.items()},
                        {"%s%d" % k: ("%x" % r["slots"][k]) if k in r.get("slots", {}) else None for k in diff})
            if bad:
                rep.violation("a %s constant from %s (e.g. `%s`) does not survive the %s route: %s" % (
                    cls, "a literal" if cause == "literal" else "folded arithmetic", (dd + ss)[0][0],
                    {"c": "generated C", "fm": ".fm text"}[what], bad[:240]),
                    {"kind": "textroute", "route": route, "class": cls, "nonfinite": True, "cause": cause, "source": src,
                     "error": bad}, key="C19/text/%s/%s%s" % (what, cls, suffix))
        lc = R.get("lsp", {}).get("consts")
        n += 1
        if lc is not None:
            badtok = [t for _, t, b in lc if b is None]
            if badtok:
                rep.violation("a %s constant from %s (e.g. `%s`) is written to the .lsp as `%s`, which is not a number" % (
                    cls, "a literal" if cause == "literal" else "folded arithmetic", (dd + ss)[0][0], badtok[0]),
                    {"kind": "textroute", "route": "lsp", "class": cls, "nonfinite": True, "cause": cause, "source": src,
                     "tokens": badtok}, key="C19/text/lsp/%s%s" % (cls, suffix))
    stats["nonfinite_route_checks"] = n
    return n


# ------------------------------------------------------------------ entry points

def searcher(rep, log, stats):
    """Called when a proof obligation (or the regenerated parameter file) no longer
    checks: look for a concrete input on which the property fails on the implementation."""
    before = len(rep.violations) + len(rep.known)
    before_v = len(rep.violations)
    # name the lemma whose proof broke (file:line of the first coqc error)
    m = re.search(r'File "\./([^"]+)", line (\d+)', log or "")
    if m:
        try:
            src = open(os.path.join(C.COQ, m.group(1))).read().split("\n")[:int(m.group(2))]
            names = [re.match(r"\s*(?:Lemma|Theorem|Example|Definition)\s+([\w']+)", l) for l in src]
            names = [x.group(1) for x in names if x]
            if names:
                rep.notes.append("proof stage failed in %s at line %s, inside `%s`" % (m.group(1), m.group(2), names[-1]))
                stats["failing_lemma"] = names[-1]
        except OSError:
            pass
    try:
        if "TextFacts" in (log or "") or stats.get("failing_lemma", "").startswith("sprint"):
            # a proof about the text route broke: look there first
            check_sprint(rep, "quick", stats)
            e2e_text_routes(rep, "quick", stats)
        if stats.get("failing_lemma", "").startswith("lit_"):
            # a proof about the literal sites broke: differential on literals, then the
            # programs whose literal overflows (the folder must decline those)
            check_literals(rep, "quick", stats)
            if len(rep.violations) == before_v:
                e2e_nonfinite(rep, "quick", stats)
        if len(rep.violations) == before_v:
            run_bulk(rep, bulk_jobs("quick", C.rng("C19/search")), stats)
        if len(rep.violations) == before_v:
            check_literals(rep, "quick", stats)
        if len(rep.violations) == before_v:
            correspondence(rep, "quick", stats)
        if len(rep.violations) == before_v and "TextFacts" not in (log or ""):
            check_sprint(rep, "quick", stats)
            e2e_text_routes(rep, "quick", stats)
        if len(rep.violations) == before_v and not stats.get("failing_lemma", "").startswith("lit_"):
            e2e_nonfinite(rep, "quick", stats)
    except C.BuildError as e:
        rep.notes.append("searcher: " + str(e)[:300])
    stats["searcher_ran"] = True
    if len(rep.violations) == before_v:
        # listed findings that reproduce do not explain a broken proof
        rep.violation("proof obligation no longer checks: %s (no failing input found by the searcher)" % (
            stats.get("failing_lemma") or "see log"), {"log_tail": (log or "")[-2000:], "lemma": stats.get("failing_lemma")},
            no_input=True)


def run(rep, tier):
    stats = {}
    t0 = time.time()
    os.makedirs(C.COQ + "/XFloat/extracted", exist_ok=True)
    # 1. regenerate the parameter file from the current tree
    gen = generate()
    C.write_if_changed(C.COQ + "/" + GEN_REL, gen)
    ex = C.COQ + "/XFloat/extracted/xfloat.ml"
    if not os.path.exists(ex):
        for suf in (".vo", ".vos", ".vok", ".glob"):
            try:
                os.remove(C.COQ + "/XFloat/Extract" + suf)
            except OSError:
                pass
    t1 = time.time()
    # 2. proof stage
    ok = C.proof_stage(rep, ID, TARGETS, PROPS_REL, searcher=lambda log: searcher(rep, log, stats))
    t2 = time.time()
    # 3. correspondence + direct oracle
    nb = 0
    ncmp = 0
    if not stats.get("searcher_ran"):
        ops, couts, ncmp = correspondence(rep, tier, stats)
        nb = run_bulk(rep, bulk_jobs(tier, C.rng("C19/bulk")), stats)
        run_bulk_bf(rep, tier, stats)
        check_literals(rep, tier, stats)
        e2e_constants(rep, tier, stats)
        check_sprint(rep, tier, stats)
        e2e_text_routes(rep, tier, stats)
        e2e_nonfinite(rep, tier, stats)
    t3 = time.time()
    # 4. evidence
    rep.add_cov(
        evaluations=stats.get("oracle_evaluations", 0) + nb + stats.get("literals", 0),
        distinct_nontrivial=stats.get("distinct_op_patterns", 0) + stats.get("bulk_distinct_singles", 0)
                            + stats.get("bulk_sampled_doubles", 0),
        rule="every evaluation = one native bit pattern (or literal) pushed through the CURRENT C code and checked "
             "against the property statement itself (bit-exact round trip through the portable bytes, "
             "dissemble;assemble identity, run-time pair identity, class preserved, folder bits = run-time bits); "
             "distinct_nontrivial = distinct non-zero bit patterns in the op stream + size of the union of the exhaustive single slices + number of sampled doubles (64-bit samples, repeats negligible; the two signed zeros are not subtracted from the slices)",
        traces_validated_against_impl=ncmp,
        input_distribution={
            "bulk_patterns_by_class": {c: stats.get("bulk_" + c, 0) for c in ("zero", "sub", "norm", "inf", "nan")},
            "bulk": "thorough: all 2^32 single patterns + 2^26 sampled doubles; quick: slices around every class boundary + seeded random slices",
            "ops": "all 256 / 2048 exponents x boundary fractions x both signs + random; portable byte strings around every threshold of xxToNative (not necessarily images); out-of-range assemble arguments; bit-field helpers at byte boundaries",
            "literals": stats.get("literals", 0),
        },
        samples=["srt 00000001 -> X=3f6800000000 back=00000001", "srt 80000000 -> X=800000000000 back=80000000",
                 "drt 7ff0000000000001 -> X=7fff0000000000001000 back=7ff0000000000001"],
        model_vs_impl_mismatches=stats.get("model_vs_impl_mismatches", 0),
        bulk_distinct_singles=stats.get("bulk_distinct_singles", 0),
        bulk_sampled_doubles=stats.get("bulk_sampled_doubles", 0),
        bitfield_calls_checked=stats.get("bitfield_calls_checked", 0),
        literals_agree_with_python_strtod=stats.get("literals_agree_with_python_strtod", 0),
        timings_s={"generate": round(t1 - t0, 1), "proof": round(t2 - t1, 1), "correspondence+oracle": round(t3 - t2, 1)},
    )
    rep.add_cov(text_routes={k: stats[k] for k in sorted(stats) if k.startswith(("text_", "sprint_", "nonfinite_"))})
    if "e2e_constants_compared" in stats:
        rep.add_cov(e2e_constants_compared=stats["e2e_constants_compared"],
                    e2e_literals_found=stats.get("e2e_literals_found", 0))
    rep.assume(
        "Coq extraction (ExtrOcamlBasic only) and ocamlopt are trusted for the correspondence run, not for the theorems",
        "gcc -O0 and harness/xfloat/h.c (memcpy between float objects and bit patterns; xfloat.c is #included so that its macros are probed)",
        "host is IEEE-754, little-endian, CHAR_BIT = 8, SFloat = float: checked by theorem xfloat_params_tie on the regenerated constants; the S370 / VAX / CC_SF_is_double branches are modelled but not covered by the theorems",
        "a float/double object moved by C assignment or passed by value keeps its bit pattern (x86-64 SSE; matters for signalling NaNs in bufWrSFloat's `SFloat bs = s`)",
        "byte buffers are modelled by their big-endian integer value; the byte loops of util.c bfShiftUp/bfShiftDn/bfFirst1 are modelled at that level (mul/div by 2^k, Z.log2) and tied by the correspondence run on the shapes xfloat.c uses (in place; out of place only for shifts < 8)",
        "literals: libc atof is a deterministic function of its text (no setlocale in the compiler: locale C at compile time and run time), named oracle `libc` in lit_same_function_partial; hardware double->float conversion named oracle `d2f`",
        "literals: the run-time character array of a literal is its characters followed by NUL (fint.c FOAM_Arr case, C string literal in generated C), the same text cfoldArrToString builds; glue shapes checked by lit_routes, the text equality itself is not proved",
        "text routes: what printf(\"%#.*g\", 17, d) prints and what a reader (strtod, the C compiler's floating constant, the Lisp reader, sexpr.c's scanner via atof) makes of it are libc/gcc behaviour: named hypotheses g17_roundtrip (17 significant digits determine a finite binary64; NOT proved from Flocq here) and reader_reads_zero_text in dfloat_sprint_readback_partial; exercised on real DFloatSprint output re-read by Python's correctly rounding float() (all exponents x boundary fractions)",
        "text routes, end to end: the executable links /repo's pre-built libaldor.a / libfoam.a (C.RB) with C generated by the compiler built from the current tree; the .lsp is not loaded by a Lisp, its constants are read by a small reader in props/c19.py; -Wfloatrep (15 digits) is lossy by design and only its zero case is checked",
        "fiDFloDissemble returns an indeterminate second word (fracb[1] is never written); modelled as an arbitrary value `junk` and ignored by fiDFloAssemble",
    )
    return ok


def replay(path):
    """Re-run one replay file on the current tree. 1 = still violates, 0 = fine."""
    obj = json.load(open(path))
    r = obj.get("replay", {})
    kind = r.get("kind")
    if kind == "literal":
        exe = lit_harness()
        rc, lines, err = run_ops(exe, [], [r["literal"]])
        p = lines[0].split() if lines else []
        bad = len(p) != 4 or p[0] != p[1] or p[2] != p[3]
        print("literal %r -> %s : %s" % (r["literal"], lines[:1], "VIOLATES" if bad else "ok"))
        return 1 if bad else 0
    if kind in ("textroute", "sprint"):
        class _T:
            def __init__(self):
                self.v, self.notes = [], []
            def violation(self, what, obj, key=None, no_input=False):
                self.v.append((key, what))
        rr = _T()
        if kind == "sprint":
            check_sprint(rr, "quick", {})
        elif r.get("nonfinite"):
            e2e_nonfinite(rr, "quick", {})
        else:
            e2e_text_routes(rr, "quick", {})
        hit = [w for k, w in rr.v if k == obj.get("key")]
        print("%s: %s" % (obj.get("key"), ("VIOLATES: " + hit[0][:300]) if hit else "ok"))
        if r.get("source"):
            print("program:\n" + (r.get("minimal") or r["source"]))
        return 1 if hit else 0
    if kind == "e2e":
        class _R:
            notes = []
            def __init__(self):
                self.v = []
            def violation(self, what, obj, key=None, no_input=False):
                self.v.append(what)
        rr = _R()
        e2e_constants(rr, "quick", {})
        print("e2e .ao reload: %s" % ("VIOLATES: " + rr.v[0] if rr.v else "ok " + "; ".join(rr.notes)))
        return 1 if rr.v else 0
    op = r.get("op")
    if not op:
        print("replay carries no input (%s)" % obj.get("what", "")[:200])
        return 1
    cexe = harness()
    consts = {k: int(v) for k, v in probe_params()[0].items() if re.fullmatch(r"-?\d+", v)}
    rc, lines, err = run_ops(cexe, ["ops"], [op])
    out = lines[0] if lines else "<no output>"
    bad = oracle(op, out, consts)
    k = op.split()[0]
    if not bad and k in ("sda", "dda", "fsr", "fdr") and out != op.split()[1]:
        bad = (RT_OPS[k], "%s returned %s" % (op, out))
    if not bad and kind == "xclassify":
        b = int(r["bits"], 16)
        single = len(r["bits"]) == 8
        s, e, f = sfields(b) if single else dfields(b)
        c = ieee_class(e, f, 255 if single else 2047)
        if out != str(CLS_CODE["norm" if c == "sub" else c]):
            bad = ("xclassify", "%s -> %s" % (op, out))
    if not bad and kind == "correspondence":
        mexe = model_driver()
        if mexe:
            _, ml, _ = run_ops(mexe, [], [op])
            if ml and ml[0] != out:
                bad = ("correspondence", "implementation %s, model %s" % (out, ml[0]))
    print("%s -> %s : %s" % (op, out, ("VIOLATES: " + bad[1]) if bad else "ok"))
    return 1 if bad else 0
