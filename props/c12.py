"""C12 -- The Java back end agrees with the other execution routes.

Proved part (coq/Java, coq/Props/Properties_C12.v): the builtin level.  java_tbl - the Java
expression the back end emits for each FOAM builtin, static methods of foamj.Math inlined - is
regenerated on every run from java/genjava.c, java/javacode.c, foam.c and foamj/Math.java
(tools/javabuiltins_gen.py -> coq/Gen/JavaBuiltins.v) and proved, row by row, to give the
mathematical value on all operands inside the stated side condition fits_java
(java_meets_spec_on_int32), to cover every specified builtin (java_covers_subset) and hence to
agree with the interpreter's table (java_interp_agree, with C04's theorem).

Decision (differential exploration, NOT a proof): programs restricted by a STATED filter on their
`features` to what the Java back end supports x -Q {1,3,9}:
  aldor -Jmain -Fjava=out/<unit>.java, ONE javac per batch against foamj.jar + foam.jar + aldor.jar,
  java aldorcode.<unit>; stdout + status class compared with `aldor -ginterp` and the oracle.
Programs: MiniAldor generated family (verified oracle), the ending family of C03 (exceptions), a
hand-written family for lists, records, closures (Python oracle).
"""
import collections, concurrent.futures, itertools, json, os, re, shutil, time
from vlib import common as C
from props import mini
from props import c03
from tools import javabuiltins_gen as G

ID = "C12"
LEVEL = "exploration"
MANIFEST = {
    "level_text": "Differential exploration: every sampled program of the supported subset is translated to Java at "
                  "-Q1,3,9 by the compiler built from the current tree, compiled with javac against the shipped jars, run, "
                  "and its stdout and exit status class compared with `aldor -ginterp` and with an oracle.  Machine-checked "
                  "for ALL operands is only the builtin level: each row of the regenerated Java builtin table yields the "
                  "mathematical value under the stated side condition (operands, result and named intermediates inside the "
                  "32-bit Java int), every specified builtin has a row, and Java and the interpreter therefore agree there.",
    "level_note": "Not modelled: javac, the JVM, foamj's data structures (Foam.java, Word, Record, Clos, Env), the Java emitter "
                  "for control flow.  The jars are the pre-built ones of /repo (foamj.jar, foam.jar, aldor.jar); only the "
                  "compiler and hence the generated .java are from the current tree.  Trusted: Coq kernel, extraction, the "
                  "embedding of Java expressions (validated on every run against the real JVM, outside the side condition too).",
    "technique": "Coq proof over the regenerated Java builtin table + correspondence (extracted model vs JVM) + "
                 "differential runs Java / interpreter / oracle with model-level shrinking",
    "design_ref": "DESIGN.md section 4 / C12",
}

LEVELS = [1, 3, 9]
GEN = os.path.join(C.COQ, "Gen", "JavaBuiltins.v")
_uniq = itertools.count()

# The filter.  A generated program is in the family of this property iff ALL its features are listed here.
# Found by experiment on the unchanged tree (props/c12.py:feature_survey); a feature the Java route cannot
# handle at all is listed in UNSUPPORTED with the reason, so that dropping it is a stated decision.
SUPPORTED = {
    "print", "global", "variable", "constant", "local", "locals", "assign-global", "assign-local",
    "mi-arith", "mi-cmp", "mi-div", "bool-op", "and-or", "if-expr", "if-stmt", "value-seq",
    "function", "pure-function", "impure-function", "call", "call-stmt", "recursion", "overload", "return",
    "exit", "exit-value", "for", "while", "break", "iterate", "string-op",
    "int-arith", "int-cmp", "int-div", "convert",
    # features the MiniAldor tool may grow; handled by the Java route in the hand-written family
    "list", "list-op", "record", "record-op", "closure", "lambda", "exception", "try", "throw", "generator",
}
UNSUPPORTED = {}


def jars():
    RB = C.RB
    return [RB + "/aldor/lib/java/src/foamj.jar", RB + "/aldor/lib/libfoam/al/foam.jar", RB + "/lib/aldor/src/aldor.jar"]


def int32_only(p):
    """MiniAldor literals and the oracle's printed machine integers stay inside the 32-bit Java int?
    (the side condition fits_java at program level: decided on the oracle's output and the literals)"""
    for c in p.get("literals", []):
        if c in ("mi:<2^32", "mi:<2^63-2", "mi:max"):
            return False
    return True


# ------------------------------------------------------------------ Java route

def java_batch(exe, progs, d, q_levels, timeout=60, extra=()):
    """progs: [dict(src, unit)] (unit: distinct identifier).  Translates every program at every level,
    compiles everything with ONE javac, runs every class.  Returns {(unit, q): {rc,status,out,err,stage}}."""
    env = C.aldor_env()
    os.makedirs(d + "/out", exist_ok=True)
    os.makedirs(d + "/cls", exist_ok=True)
    res = {}
    jobs = [(p, q) for p in progs for q in q_levels]

    def gen(pq):
        p, q = pq
        unit = "%sq%d" % (p["unit"], q)
        sd = "%s/src/%s" % (d, unit)
        os.makedirs(sd, exist_ok=True)
        with open("%s/%s.as" % (sd, unit), "w") as f:
            f.write(p["src"])
        rc, out, err = C.run(C.aldor_base_args(exe) + ["-Mno-warnings", "-Q%d" % q] + list(extra) +
                             ["-Jmain", "-Fjava=%s/out/%s.java" % (d, unit), unit + ".as"], cwd=sd, env=env, timeout=timeout)
        jf = "%s/out/aldorcode/%s.java" % (d, unit)
        if rc != 0 or not os.path.exists(jf):
            return (p["unit"], q), {"rc": rc, "status": "gen-error", "out": out, "err": err, "stage": "aldor -Fjava"}, None
        return (p["unit"], q), None, jf
    files = {}
    with concurrent.futures.ThreadPoolExecutor(C.NCPU) as ex:
        for key, bad, jf in ex.map(gen, jobs):
            if bad:
                res[key] = bad
            else:
                files[key] = jf
    cp = ":".join(jars())
    todo = dict(files)
    javac_log = ""
    for attempt in range(4):
        if not todo:
            break
        rc, out, err = C.run(["javac", "-nowarn", "-proc:none", "-cp", cp, "-d", d + "/cls"] + sorted(todo.values()),
                             cwd=d, timeout=900)
        javac_log = (out + err)
        if rc == 0:
            break
        # files named in error lines are rejected by javac: a violation of the property for those programs
        badfiles = set(re.findall(r"^(\S+\.java):\d+: error", javac_log, re.M))
        hit = [k for k, f in todo.items() if f in badfiles or os.path.basename(f) in {os.path.basename(b) for b in badfiles}]
        if not hit:
            for k in todo:
                res[k] = {"rc": rc, "status": "javac-error", "out": "", "err": javac_log[-1500:], "stage": "javac"}
            todo = {}
            break
        for k in hit:
            msg = "\n".join(l for l in javac_log.split("\n") if os.path.basename(todo[k]) in l)[:1500]
            res[k] = {"rc": rc, "status": "javac-error", "out": "", "err": msg, "stage": "javac"}
            del todo[k]

    def runj(key):
        unit = "%sq%d" % key
        rd = "%s/run/%s" % (d, unit)
        os.makedirs(rd, exist_ok=True)
        rc, out, err = C.run(["java", "-Xss16m", "-XX:TieredStopAtLevel=1", "-XX:+UseSerialGC", "-cp", d + "/cls:" + cp,
                              "aldorcode." + unit], cwd=rd, env=env, timeout=timeout)
        return key, {"rc": rc, "status": c03.cls(rc), "out": out, "err": err, "stage": "java"}
    with concurrent.futures.ThreadPoolExecutor(max(2, C.NCPU // 2)) as ex:
        for key, r in ex.map(runj, list(todo.keys())):
            res[key] = r
    return res


def interp_batch(exe, progs, d, q_levels, timeout=60):
    env = C.aldor_env()

    def one(pq):
        p, q = pq
        unit = "%sq%d" % (p["unit"], q)
        sd = "%s/isrc/%s" % (d, unit)
        os.makedirs(sd, exist_ok=True)
        with open("%s/%s.as" % (sd, unit), "w") as f:
            f.write(p["src"])
        rc, out, err = C.run(C.aldor_base_args(exe) + ["-Mno-warnings", "-Q%d" % q, "-ginterp", unit + ".as"],
                             cwd=sd, env=env, timeout=timeout)
        return (p["unit"], q), {"rc": rc, "status": c03.cls(rc), "out": out, "err": err}
    with concurrent.futures.ThreadPoolExecutor(C.NCPU) as ex:
        return dict(ex.map(one, [(p, q) for p in progs for q in q_levels]))


def compare(jr, ir, oracle=None):
    """-> (verdict, detail): 'agree' | 'disagree' | 'incomparable'"""
    if ir["status"] == "timeout" or jr["status"] == "timeout":
        return "incomparable", "timeout (java %s, interp %s)" % (jr["status"], ir["status"])
    if ir["rc"] != 0 and re.search(r"\((?:Fatal )?Error\)", ir["out"]) and jr["status"] == "gen-error":
        return "incomparable", "does not compile"
    bad = []
    if jr["status"] in ("gen-error", "javac-error"):
        bad.append("java route: %s (%s)" % (jr["status"], (jr["err"] or jr["out"]).strip().split("\n")[0][:120]))
    else:
        io = c03.strip_trace(ir["out"])
        if jr["out"] != io:
            bad.append("stdout of java and interp differ")
        if jr["status"] != ir["status"]:
            bad.append("java ends %s (rc=%s), interp ends %s (rc=%s)" % (jr["status"], jr["rc"], ir["status"], ir["rc"]))
        if oracle is not None:
            if "out" in oracle and jr["out"] != oracle["out"]:
                bad.append("java prints other text than the oracle")
            if oracle.get("status") and jr["status"] != oracle["status"]:
                bad.append("java ends %s, oracle says %s" % (jr["status"], oracle["status"]))
    if bad:
        return "disagree", "; ".join(bad[:4])
    return "agree", ""


def brief(jr, ir):
    return [{"route": "java", "stage": jr.get("stage"), "status": jr["status"], "rc": jr["rc"], "out": jr["out"][-1500:],
             "err": jr["err"][-800:]},
            {"route": "interp", "status": ir["status"], "rc": ir["rc"], "out": ir["out"][-1500:], "err": ir["err"][-400:]}]
