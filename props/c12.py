"""C12 -- The Java back end agrees with the other execution routes.

Proved part (coq/Java, coq/Props/Properties_C12.v): the builtin level.  java_tbl - the Java
expression the back end emits for each FOAM builtin, static methods of foamj.Math inlined - is
regenerated on every run from java/genjava.c, java/javacode.c, foam.c and foamj/Math.java
(tools/javabuiltins_gen.py -> coq/Gen/JavaBuiltins.v) and proved, row by row, to give the
mathematical value on all operands inside the stated side condition fits_java
(java_meets_spec_on_int32), to cover every specified builtin (java_covers_subset) and hence to
agree with the interpreter's table (java_interp_agree, with C04's theorem).

Decision (differential exploration, NOT a proof): programs restricted by a STATED filter on their
`features` to what the Java back end supports x -Q {1,3,9}:
  aldor -Jmain -Fjava=out/<unit>.java, ONE javac per batch against foamj.jar + foam.jar + aldor.jar,
  java aldorcode.<unit>; stdout + status class compared with `aldor -ginterp` and the oracle.
Programs: MiniAldor generated family (verified oracle), the ending family of C03 (exceptions), a
hand-written family for lists, records, closures (Python oracle).
"""
import collections, concurrent.futures, itertools, json, os, re, shutil, time
from vlib import common as C
from props import mini
from props import c03
from tools import javabuiltins_gen as G

ID = "C12"
LEVEL = "exploration"
MANIFEST = {
    "level_text": "Differential exploration: every sampled program of the supported subset is translated to Java at "
                  "-Q1,3,9 by the compiler built from the current tree, compiled with javac against the shipped jars, run, "
                  "and its stdout and exit status class compared with `aldor -ginterp` and with an oracle.  Machine-checked "
                  "for ALL operands is only the builtin level: each row of the regenerated Java builtin table yields the "
                  "mathematical value under the stated side condition (operands, result and named intermediates inside the "
                  "32-bit Java int), every specified builtin has a row, and Java and the interpreter therefore agree there.",
    "level_note": "Not modelled: javac, the JVM, foamj's data structures (Foam.java, Word, Record, Clos, Env), the Java emitter "
                  "for control flow.  The jars are the pre-built ones of /repo (foamj.jar, foam.jar, aldor.jar); only the "
                  "compiler and hence the generated .java are from the current tree.  Trusted: Coq kernel, extraction, the "
                  "embedding of Java expressions (validated on every run against the real JVM, outside the side condition too).",
    "technique": "Coq proof over the regenerated Java builtin table + correspondence (extracted model vs JVM) + "
                 "differential runs Java / interpreter / oracle with model-level shrinking",
    "design_ref": "DESIGN.md section 4 / C12",
}

LEVELS = [1, 3, 9]
GEN = os.path.join(C.COQ, "Gen", "JavaBuiltins.v")
_uniq = itertools.count()

_foamj = None


def build_foamj():
    """The Java run time foamj compiled NOW from the current tree's lib/java/src/foamj/*.java (23 small files);
    its class directory goes first on the class path, before the pre-built foamj.jar."""
    global _foamj
    if _foamj is None:
        src = C.R + "/aldor/lib/java/src/foamj"
        files = sorted(os.path.join(src, f) for f in os.listdir(src) if f.endswith(".java"))
        d = C.scratch("foamj")
        rc, out, err = C.run(["javac", "-nowarn", "-proc:none", "-d", d] + files, timeout=300)
        if rc != 0:
            raise C.BuildError("javac failed on the current foamj sources:\n" + (out + err)[-2000:])
        _foamj = d
    return _foamj


def jars():
    RB = C.RB
    return [build_foamj(), RB + "/aldor/lib/java/src/foamj.jar", RB + "/aldor/lib/libfoam/al/foam.jar",
            RB + "/lib/aldor/src/aldor.jar"]


def int32_only(p):
    """MiniAldor literals and the oracle's printed machine integers stay inside the 32-bit Java int?
    (the side condition fits_java at program level: decided on the oracle's output and the literals)"""
    for c in p.get("literals", []):
        if c in ("mi:<2^32", "mi:<2^63-2", "mi:max"):
            return False
    return True


# ------------------------------------------------------------------ Java route

def java_batch(exe, progs, d, q_levels, timeout=60, extra=(), jobs=None):
    """progs: [dict(src, unit)] (unit: distinct identifier).  Translates every program at every level,
    compiles everything with ONE javac, runs every class.  Returns {(unit, q): {rc,status,out,err,stage}}."""
    env = C.aldor_env()
    os.makedirs(d + "/out", exist_ok=True)
    os.makedirs(d + "/cls", exist_ok=True)
    res = {}
    if jobs is None:
        jobs = [(p, q) for p in progs for q in q_levels]

    def gen(pq):
        p, q = pq
        unit = "%sq%d" % (p["unit"], q)
        sd = "%s/src/%s" % (d, unit)
        os.makedirs(sd, exist_ok=True)
        with open("%s/%s.as" % (sd, unit), "w") as f:
            f.write(p["src"])
        rc, out, err = C.run(C.aldor_base_args(exe) + ["-Mno-warnings", "-Q%d" % q] + list(extra) +
                             ["-Jmain", "-Fjava=%s/out/%s.java" % (d, unit), unit + ".as"], cwd=sd, env=env, timeout=timeout)
        jf = "%s/out/aldorcode/%s.java" % (d, unit)
        if rc == 124:
            return (p["unit"], q), {"rc": rc, "status": "timeout", "out": out, "err": err, "stage": "aldor -Fjava"}, None
        if rc != 0 or not os.path.exists(jf):
            return (p["unit"], q), {"rc": rc, "status": "gen-error", "out": out, "err": err, "stage": "aldor -Fjava"}, None
        return (p["unit"], q), None, jf
    files = {}
    with concurrent.futures.ThreadPoolExecutor(C.NCPU) as ex:
        for key, bad, jf in ex.map(gen, jobs):
            if bad:
                res[key] = bad
            else:
                files[key] = jf
    cp = ":".join(jars())

    def compile_chunk(chunk):
        """ONE javac for the chunk; files javac rejects are taken out (a violation for those programs) and the rest is
        compiled again.  Returns (keys that compiled, {key: javac-error result})."""
        todo, bad, log = dict(chunk), {}, ""
        for attempt in range(25):
            if not todo:
                break
            rc, out, err = C.run(["javac", "-nowarn", "-proc:none", "-Xmaxerrs", "100000", "-cp", cp, "-d", d + "/cls"] +
                                 sorted(todo.values()), cwd=d, timeout=1800)
            log = out + err
            if rc == 0:
                return list(todo), bad
            badfiles = {os.path.basename(x) for x in re.findall(r"^(\S+\.java):\d+: error", log, re.M)}
            hit = [k for k, f in todo.items() if os.path.basename(f) in badfiles]
            if not hit:
                break
            for k in hit:
                msg = "\n".join(l for l in log.split("\n") if os.path.basename(todo[k]) in l)[:1500]
                bad[k] = {"rc": rc, "status": "javac-error", "out": "", "err": msg, "stage": "javac"}
                del todo[k]
        for k in todo:                          # javac never got through: nothing of this chunk may be run
            bad[k] = {"rc": 1, "status": "javac-error", "out": "", "err": log[-1500:], "stage": "javac"}
        return [], bad
    items = sorted(files.items(), key=lambda kv: kv[1])
    size = 120
    chunks = [dict(items[i:i + size]) for i in range(0, len(items), size)]
    todo = {}
    with concurrent.futures.ThreadPoolExecutor(max(1, min(4, C.NCPU // 4))) as ex:
        for okk, bad in ex.map(compile_chunk, chunks):
            res.update(bad)
            for k in okk:
                todo[k] = files[k]

    def runj(key):
        unit = "%sq%d" % key
        rd = "%s/run/%s" % (d, unit)
        os.makedirs(rd, exist_ok=True)
        rc, out, err = C.run(["java", "-Xss16m", "-XX:TieredStopAtLevel=1", "-XX:+UseSerialGC", "-cp", d + "/cls:" + cp,
                              "aldorcode." + unit], cwd=rd, env=env, timeout=timeout)
        return key, {"rc": rc, "status": c03.cls(rc), "out": out, "err": err, "stage": "java"}
    with concurrent.futures.ThreadPoolExecutor(max(2, C.NCPU // 2)) as ex:
        for key, r in ex.map(runj, list(todo.keys())):
            res[key] = r
    return res


def interp_batch(exe, progs, d, q_levels, timeout=60, jobs=None):
    env = C.aldor_env()
    if jobs is None:
        jobs = [(p, q) for p in progs for q in q_levels]

    def one(pq):
        p, q = pq
        unit = "%sq%d" % (p["unit"], q)
        sd = "%s/isrc/%s" % (d, unit)
        os.makedirs(sd, exist_ok=True)
        with open("%s/%s.as" % (sd, unit), "w") as f:
            f.write(p["src"])
        rc, out, err = C.run(C.aldor_base_args(exe) + ["-Mno-warnings", "-Q%d" % q, "-ginterp", unit + ".as"],
                             cwd=sd, env=env, timeout=timeout)
        return (p["unit"], q), {"rc": rc, "status": c03.cls(rc), "out": out, "err": err}
    with concurrent.futures.ThreadPoolExecutor(C.NCPU) as ex:
        return dict(ex.map(one, jobs))


def compare(jr, ir, oracle=None):
    """-> (verdict, detail): 'agree' | 'disagree' | 'incomparable'"""
    if ir["status"] == "timeout" or jr["status"] == "timeout":
        return "incomparable", "timeout (java %s, interp %s)" % (jr["status"], ir["status"])
    if ir["rc"] != 0 and re.search(r"\((?:Fatal )?Error\)", ir["out"]) and jr["status"] == "gen-error":
        return "incomparable", "does not compile"
    bad = []
    if jr["status"] in ("gen-error", "javac-error"):
        bad.append("java route: %s (%s)" % (jr["status"], (jr["err"] or jr["out"]).strip().split("\n")[0][:120]))
    else:
        io = c03.strip_trace(ir["out"])
        if jr["out"] != io:
            bad.append("stdout of java and interp differ")
        if jr["status"] != ir["status"]:
            bad.append("java ends %s (rc=%s), interp ends %s (rc=%s)" % (jr["status"], jr["rc"], ir["status"], ir["rc"]))
        if oracle is not None:
            if "out" in oracle and jr["out"] != oracle["out"]:
                bad.append("java prints other text than the oracle")
            if oracle.get("status") and jr["status"] != oracle["status"]:
                bad.append("java ends %s, oracle says %s" % (jr["status"], oracle["status"]))
    if bad:
        return "disagree", "; ".join(bad[:4])
    return "agree", ""


def brief(jr, ir):
    return [{"route": "java", "stage": jr.get("stage"), "status": jr["status"], "rc": jr["rc"], "out": jr["out"][-1500:],
             "err": jr["err"][-800:]},
            {"route": "interp", "status": ir["status"], "rc": ir["rc"], "out": ir["out"][-1500:], "err": ir["err"][-400:]}]


# ------------------------------------------------------------------ hand-written family (Python oracle)
# integer / boolean / string / list / record / closure / (uncaught) exception programs whose every
# machine-integer value - operands, intermediates, results - is tracked and kept inside the 32-bit
# Java int: the program-level form of the side condition fits_java.

FHEAD = """#include "aldor"
#include "aldorio"
import from MachineInteger, String, Boolean;
L ==> List MachineInteger;
import from L;
R ==> Record(x: MachineInteger, y: MachineInteger, s: String);
import from R;
F ==> (MachineInteger -> MachineInteger);
define AType: Category == with { };
AExn: AType == add { };
U ==> Union(ua: MachineInteger, ub: String);
import from U;
mk(n: MachineInteger): F == (x: MachineInteger): MachineInteger +-> x + n;
mkm(n: MachineInteger): F == (x: MachineInteger): MachineInteger +-> x * n;
comp(f: F, g: F): F == (x: MachineInteger): MachineInteger +-> f(g(x));
mkc(s: MachineInteger): (() -> MachineInteger) == { c: MachineInteger := 0; (): MachineInteger +-> { free c; c := c + s; c } }
fib(n: MachineInteger): MachineInteger == if n < 2 then n else fib(n - 1) + fib(n - 2);
fact(n: MachineInteger): MachineInteger == if n < 2 then 1 else n * fact(n - 1);
gcd2(a: MachineInteger, b: MachineInteger): MachineInteger == if b = 0 then a else gcd2(b, a rem b);
sum(l: L): MachineInteger == { t: MachineInteger := 0; for x in l repeat t := t + x; t }
"""
I32 = (-(1 << 31), (1 << 31) - 1)


class Reject(Exception):
    pass


def _i32(v):
    if not (I32[0] <= v <= I32[1]):
        raise Reject()
    return v


def _quo(a, b):
    q = abs(a) // abs(b)
    return q if (a >= 0) == (b >= 0) else -q


def _rem(a, b):
    return a - b * _quo(a, b)


def _mod(a, b):
    # libaldor MachineInteger `mod`: result has the sign of ... (sal_mint.as: SIntMod = C %); b > 0 here
    return _rem(a, b)


class Family:
    """Generates one program statement by statement, executing each statement on a Python state as it is
    generated; `feat` collects the features used."""

    def __init__(self, rng):
        self.rng = rng
        self.ints, self.lists, self.recs, self.clos, self.strs, self.ctrs = {}, {}, {}, {}, {}, {}
        self.lines, self.out, self.feat = [], [], set()
        self.n = 0

    def fresh(self, p):
        self.n += 1
        return "%s%d" % (p, self.n)

    def lit(self, v):
        return "%d" % v if v >= 0 else "(-%d)" % -v

    def atom(self):
        """a variable, a literal, or a call (never an infix operator application)"""
        for _ in range(20):
            s, v = self.iexpr(1)
            if not s.startswith("(") or s.startswith("(#") or s.startswith("(-") and s[2:3].isdigit():
                return s, v
        return self.iexpr(0)

    # integer expressions: (source, value); every node inside int32
    def iexpr(self, depth=2):
        r = self.rng
        if depth == 0 or r.random() < 0.3:
            if self.ints and r.random() < 0.6:
                k = r.choice(sorted(self.ints))
                return k, self.ints[k]
            v = r.choice([0, 1, 2, 3, 7, 10, 255, 1000, 46340, 65536, r.randrange(-50, 50), r.randrange(-100000, 100000)])
            return self.lit(v), v
        op = r.choice(["+", "-", "*", "quo", "rem", "mod", "abs", "min", "max", "neg", "app", "len", "first", "fld", "fn"])
        # right operands of arithmetic operators are atoms / calls: a right operand that is itself an operator application
        # of the same precedence hits the keyed finding javacode:right-nested-binop-no-parens (corpus/C12/nested_minus_parens.as)
        if op in ("+", "-", "*"):
            (a, va), (b, vb) = self.iexpr(depth - 1), self.atom()
            v = _i32({"+": va + vb, "-": va - vb, "*": va * vb}[op])
            self.feat.add("integer")
            return "(%s %s %s)" % (a, op, b), v
        if op in ("quo", "rem", "mod"):
            (a, va), (b, vb) = self.iexpr(depth - 1), self.atom()
            if vb == 0 or (op == "mod" and vb < 0) or (va == I32[0] and vb == -1):
                raise Reject()
            v = _i32({"quo": _quo, "rem": _rem, "mod": _mod}[op](va, vb))
            if op == "mod" and va < 0:
                raise Reject()          # keep `mod` where every definition of it agrees
            self.feat.add("integer-div")
            return "(%s %s %s)" % (a, op, b), v
        if op in ("abs", "neg"):
            a, va = self.iexpr(depth - 1)
            v = _i32(abs(va) if op == "abs" else -va)
            return ("abs(%s)" % a if op == "abs" else "(- %s)" % a), v
        if op in ("min", "max"):
            (a, va), (b, vb) = self.iexpr(depth - 1), self.iexpr(depth - 1)
            return "%s(%s, %s)" % (op, a, b), (min if op == "min" else max)(va, vb)
        if op == "app" and self.clos:
            f = r.choice(sorted(self.clos))
            a, va = self.iexpr(depth - 1)
            self.feat.add("closure")
            return "%s(%s)" % (f, a), _i32(self.clos[f](va))
        if op == "len" and self.lists:
            k = r.choice(sorted(self.lists))
            self.feat.add("list")
            return "(#%s)" % k, len(self.lists[k])
        if op == "first" and self.lists:
            k = r.choice(sorted(self.lists))
            if not self.lists[k]:
                raise Reject()
            self.feat.add("list")
            return "first(%s)" % k, self.lists[k][0]
        if op == "fld" and self.recs:
            k = r.choice(sorted(self.recs))
            fl = r.choice(["x", "y"])
            self.feat.add("record")
            return "%s.%s" % (k, fl), self.recs[k][fl]
        if op == "fn":
            which = r.choice(["fib", "fact", "gcd2", "sum"])
            self.feat.add("recursion")
            if which == "fib":
                n = r.randrange(0, 18)
                a, b = 0, 1
                for _ in range(n):
                    a, b = b, a + b
                return "fib(%d)" % n, a
            if which == "fact":
                n = r.randrange(0, 13)
                v = 1
                for i in range(2, n + 1):
                    v *= i
                return "fact(%d)" % n, _i32(v)
            if which == "gcd2":
                a, b = r.randrange(0, 5000), r.randrange(0, 5000)
                import math
                return "gcd2(%d, %d)" % (a, b), math.gcd(a, b)
            if self.lists:
                k = r.choice(sorted(self.lists))
                t = 0
                for x in self.lists[k]:
                    t = _i32(t + x)
                self.feat.add("list")
                return "sum(%s)" % k, t
        return self.iexpr(depth - 1)

    def bexpr(self):
        r = self.rng
        (a, va), (b, vb) = self.iexpr(1), self.iexpr(1)
        op = r.choice(["<", "<=", ">", ">=", "=", "~="])
        v = {"<": va < vb, "<=": va <= vb, ">": va > vb, ">=": va >= vb, "=": va == vb, "~=": va != vb}[op]
        s = "(%s %s %s)" % (a, op, b)
        if r.random() < 0.4:
            (c, vc) = self.bexpr() if r.random() < 0.3 else ("true", True)
            con = r.choice(["and", "or"])
            s, v = "(%s %s %s)" % (s, con, c), ((v and vc) if con == "and" else (v or vc))
        if r.random() < 0.3:
            s, v = "(not %s)" % s, not v
        self.feat.add("boolean")
        return s, v

    @staticmethod
    def show(v):
        if isinstance(v, bool):
            return "T" if v else "F"
        if isinstance(v, list):
            return "[" + ",".join(str(x) for x in v) + "]"
        return str(v)

    def emit_print(self, items):
        """items: [(source, value)] side-effect free"""
        self.lines.append("stdout << " + ' << " " << '.join(s for s, _ in items) + " << newline;")
        self.out.append(" ".join(self.show(v) for _, v in items))

    def step(self):
        r = self.rng
        kind = r.choice(["int", "int", "list", "list2", "rec", "rec2", "clos", "clos2", "ctr", "str", "bool", "if",
                         "while", "for", "comp", "print"])
        if kind == "int":
            s, v = self.iexpr(3)
            if self.ints and r.random() < 0.4:
                k = r.choice(sorted(self.ints))
                self.lines.append("%s := %s;" % (k, s))
            else:
                k = self.fresh("i")
                self.lines.append("%s: MachineInteger := %s;" % (k, s))
            self.ints[k] = v
            self.emit_print([(k, v)])
        elif kind == "list":
            es = [self.iexpr(1) for _ in range(r.randrange(0, 5))]
            k = self.fresh("l")
            self.lines.append("%s: L := [%s];" % (k, ", ".join(s for s, _ in es)))
            self.lists[k] = [v for _, v in es]
            self.feat.add("list")
            self.emit_print([(k, self.lists[k]), ("empty? %s" % k, not self.lists[k])])
        elif kind == "list2" and self.lists:
            k = r.choice(sorted(self.lists))
            op = r.choice(["cons", "rest", "reverse", "copy"])
            self.feat.add("list")
            if op == "cons":
                s, v = self.iexpr(1)
                self.lines.append("%s := cons(%s, %s);" % (k, s, k))
                self.lists[k] = [v] + self.lists[k]
            elif op == "rest":
                if not self.lists[k]:
                    raise Reject()
                self.lines.append("%s := rest %s;" % (k, k))
                self.lists[k] = self.lists[k][1:]
            elif op == "reverse":
                k2 = self.fresh("l")
                self.lines.append("%s: L := reverse %s;" % (k2, k))
                self.lists[k2] = list(reversed(self.lists[k]))
                k = k2
            else:
                k2 = self.fresh("l")
                self.lines.append("%s: L := %s;" % (k2, k))
                self.lists[k2] = list(self.lists[k])          # immutable use only: sharing is not observable
                k = k2
            self.emit_print([(k, self.lists[k]), ("(#%s)" % k, len(self.lists[k]))])
        elif kind == "rec":
            (a, va), (b, vb) = self.iexpr(1), self.iexpr(1)
            st = r.choice(["ab", "", "x y", "q"])
            k = self.fresh("r")
            self.lines.append('%s: R := [%s, %s, "%s"];' % (k, a, b, st))
            self.recs[k] = {"x": va, "y": vb, "s": st}
            self.feat.add("record")
            self.emit_print([("%s.x" % k, va), ("%s.y" % k, vb), ("%s.s" % k, st)])
        elif kind == "rec2" and self.recs:
            k = r.choice(sorted(self.recs))
            self.feat.add("record")
            if r.random() < 0.5:
                k2 = self.fresh("r")
                self.lines.append("%s: R := %s;" % (k2, k))
                self.recs[k2] = self.recs[k]              # the SAME record: updates through one name show through the other
                self.feat.add("record-alias")
            fl = r.choice(["x", "y"])
            s, v = self.iexpr(1)
            tgt = r.choice([n for n in self.recs if self.recs[n] is self.recs[k]])
            self.lines.append("%s.%s := %s;" % (tgt, fl, s))
            self.recs[tgt][fl] = v
            self.emit_print([("%s.x" % k, self.recs[k]["x"]), ("%s.y" % k, self.recs[k]["y"])])
        elif kind == "clos":
            c = r.choice([0, 1, -1, 5, 100, -37, 1000])
            k = self.fresh("f")
            if r.random() < 0.6:
                self.lines.append("%s: F := mk(%s);" % (k, self.lit(c)))
                self.clos[k] = (lambda c: lambda x: _i32(x + c))(c)
            else:
                self.lines.append("%s: F := mkm(%s);" % (k, self.lit(c)))
                self.clos[k] = (lambda c: lambda x: _i32(x * c))(c)
            self.feat.add("closure")
            a, va = self.iexpr(1)
            self.emit_print([("%s(%s)" % (k, a), self.clos[k](va))])
        elif kind == "clos2" and len(self.clos) >= 1:
            f, g = r.choice(sorted(self.clos)), r.choice(sorted(self.clos))
            k = self.fresh("f")
            self.lines.append("%s: F := comp(%s, %s);" % (k, f, g))
            self.clos[k] = (lambda ff, gg: lambda x: ff(gg(x)))(self.clos[f], self.clos[g])
            self.feat.add("closure")
            a, va = self.iexpr(1)
            self.emit_print([("%s(%s)" % (k, a), self.clos[k](va))])
        elif kind == "ctr":
            self.feat.add("closure-state")
            if self.ctrs and r.random() < 0.6:
                k = r.choice(sorted(self.ctrs))
            else:
                k = self.fresh("k")
                st = r.choice([1, 2, 10, -3])
                self.lines.append("%s: (() -> MachineInteger) := mkc(%s);" % (k, self.lit(st)))
                self.ctrs[k] = [0, st]
            i = self.fresh("i")
            self.ctrs[k][0] = _i32(self.ctrs[k][0] + self.ctrs[k][1])
            self.lines.append("%s: MachineInteger := %s();" % (i, k))
            self.ints[i] = self.ctrs[k][0]
            self.emit_print([(i, self.ints[i])])
        elif kind == "str":
            k = self.fresh("s")
            parts = [r.choice(['"ab"', '"x"', '""', '"hello world"', '"0"'])] + \
                    ([r.choice(sorted(self.strs))] if self.strs and r.random() < 0.6 else [])
            r.shuffle(parts)
            val = "".join(self.strs[p] if p in self.strs else p.strip('"') for p in parts)
            self.lines.append("%s: String := %s;" % (k, " + ".join(parts)))
            self.strs[k] = val
            self.feat.add("string")
            other = r.choice(sorted(self.strs))
            self.emit_print([(k, val), ("(#%s)" % k, len(val)), ("(%s = %s)" % (k, other), val == self.strs[other])])
        elif kind == "bool":
            s, v = self.bexpr()
            self.emit_print([(s, v)])
        elif kind == "if":
            c, vc = self.bexpr()
            (a, va), (b, vb) = self.iexpr(2), self.iexpr(2)
            k = self.fresh("i")
            self.lines.append("%s: MachineInteger := if %s then %s else %s;" % (k, c, a, b))
            self.ints[k] = va if vc else vb
            self.lines.append('if %s then stdout << "yes " << %s << newline else stdout << "no " << %s << newline;' % (c, k, k))
            self.out.append("%s %d" % ("yes" if vc else "no", self.ints[k]))
            self.feat.add("if")
        elif kind == "while":
            lim, step = r.randrange(1, 40), r.choice([1, 2, 3, 7])
            i, acc = self.fresh("i"), self.fresh("i")
            self.lines.append("%s: MachineInteger := 0;\n%s: MachineInteger := 0;" % (i, acc))
            self.lines.append("while %s < %d repeat { %s := %s + %d; %s := %s + %s * %s }" % (i, lim, i, i, step, acc, acc, i, i))
            vi = va = 0
            while vi < lim:
                vi += step
                va = _i32(va + vi * vi)
            self.ints[i], self.ints[acc] = vi, va
            self.emit_print([(i, vi), (acc, va)])
            self.feat.add("while")
        elif kind == "for" and self.lists:
            k = r.choice(sorted(self.lists))
            n, c = r.randrange(1, 6), r.choice([1, 2, -1, 10])
            self.lines.append("for j: MachineInteger in 1..%d repeat %s := cons(j * %s, %s);" % (n, k, self.lit(c), k))
            for j in range(1, n + 1):
                self.lists[k] = [j * c] + self.lists[k]
            self.emit_print([(k, self.lists[k])])
            self.feat.update(["for", "list"])
        elif kind == "comp" and self.lists:
            k = r.choice(sorted(self.lists))
            k2 = self.fresh("l")
            if self.clos and r.random() < 0.6:
                f = r.choice(sorted(self.clos))
                self.lines.append("%s: L := [%s(x) for x in %s];" % (k2, f, k))
                self.lists[k2] = [_i32(self.clos[f](x)) for x in self.lists[k]]
                self.feat.add("closure")
            else:
                c = r.choice([1, 2, -3])
                self.lines.append("%s: L := [x * %s + 1 for x in %s];" % (k2, self.lit(c), k))
                self.lists[k2] = [_i32(_i32(x * c) + 1) for x in self.lists[k]]
            self.emit_print([(k2, self.lists[k2])])
            self.feat.update(["list", "generator"])
        elif kind == "print":
            items = [self.iexpr(2) for _ in range(r.randrange(1, 4))]
            self.emit_print(items)
        else:
            raise Reject()

    def ending(self, kind):
        self.feat.add("ending:" + kind)
        if kind == "normal":
            self.lines.append('stdout << "done" << newline;')
            self.out.append("done")
            return "ok"
        s, v = self.iexpr(1)
        if kind == "error":
            self.lines.append('if %s = %s then error "boom";' % (s, s))
        elif kind == "never":
            self.lines.append("if %s = %s then never;" % (s, s))
        elif kind == "throw":
            self.lines.append("if %s = %s then throw AExn;" % (s, s))
        elif kind == "union":
            self.lines.append("u: U := [%s];\nstdout << u.ua << newline;\nstdout << u.ub << newline;" % s)
            self.out.append(str(v))
        self.lines.append('stdout << "unreachable" << newline;')
        return "fail"


FAMILY_ENDINGS = ["normal", "normal", "normal", "error", "never", "throw"]      # union endings: ending family + corpus/C12


def family_program(rng, steps):
    """-> dict(src, oracle{out,status}, features) ; retries statements whose values would leave int32"""
    g = Family(rng)
    done = 0
    tries = 0
    while done < steps and tries < steps * 40:
        tries += 1
        saved = (dict(g.ints), {k: list(v) for k, v in g.lists.items()}, dict(g.clos), dict(g.strs),
                 {k: list(v) for k, v in g.ctrs.items()}, len(g.lines), len(g.out), g.n, set(g.feat))
        recs_saved = {k: (id(v), dict(v)) for k, v in g.recs.items()}
        try:
            g.step()
            done += 1
        except Reject:
            g.ints, g.lists, g.clos, g.strs, g.ctrs = saved[0], saved[1], saved[2], saved[3], saved[4]
            del g.lines[saved[5]:]
            del g.out[saved[6]:]
            g.n, g.feat = saved[7], saved[8]
            # records: restore contents, keep identities (aliases)
            for k in list(g.recs):
                if k not in recs_saved:
                    del g.recs[k]
            byid = {}
            for k, (i, d) in recs_saved.items():
                byid.setdefault(i, g.recs[k])
                g.recs[k].clear()
                g.recs[k].update(d)
    while True:
        try:
            status = g.ending(rng.choice(FAMILY_ENDINGS))
            break
        except Reject:
            continue
    src = FHEAD + "\n".join(g.lines) + "\n"
    return {"src": src, "oracle": {"out": "".join(o + "\n" for o in g.out), "status": status},
            "features": sorted(g.feat), "family": True}


# ------------------------------------------------------------------ builtin level on the real JVM

BHEAD = """#include "aldor"
#include "aldorio"
import from Machine;
import from MachineInteger, Boolean;
import {
%s
} from Builtin;
macro K(n) == ((n@MachineInteger)::SInt);
pr(tag: String, x: SInt): () == { stdout << tag << " " << (x::MachineInteger) << newline; }
bi(b: Bool): SInt == { if (b::Boolean) then K(1) else K(0) }
tt: Bool == (true@Boolean)::Bool;
ff: Bool == (false@Boolean)::Bool;
mn: SInt == SIntMinus(K(-2147483647), K(1));
"""
ALDOR_TY = {"FBool": "Bool", "FChar": "Char", "FByte": "XByte", "FHInt": "HInt", "FSInt": "SInt"}
M31 = 1 << 31


def b_boundary(ty, rng):
    if ty == "FBool":
        return [0, 1]
    if ty in ("FChar", "FByte"):
        return [0, 1, 9, 10, 32, 47, 48, 57, 58, 64, 65, 90, 91, 96, 97, 122, 123, 126, 127]
    if ty == "FHInt":
        return [0, 1, -1, 2, 255, 256, 32767, -32768, rng.randrange(-32768, 32768)]
    return [0, 1, -1, 2, -2, 3, 7, -7, 31, 32, 255, 256, 65535, 65536, 46340, 46341, M31 - 1, -M31, -M31 + 1, M31 - 2,
            rng.randrange(-M31, M31), rng.randrange(-100000, 100000)]


def b_operand(ty, v):
    if ty == "FBool":
        return "tt" if v else "ff"
    if ty == "FSInt":
        if v == -M31:
            return "mn"       # -2^31, built in the header: the literal 2147483648 itself is beyond the Java int
        return "K(%d)" % v if v >= 0 else "K(-%d)" % -v
    if ty == "FChar":
        return "CharNum(K(%d))" % v
    if ty == "FByte":
        return "SIntToByte(K(%d))" % v
    if ty == "FHInt":
        return "SIntToHInt(%s)" % b_operand("FSInt", v)
    raise ValueError(ty)


def b_result(rty, e):
    if rty == "FSInt":
        return e
    if rty == "FBool":
        return "bi(%s)" % e
    if rty == "FChar":
        return "CharOrd(%s)" % e
    if rty == "FByte":
        return "ByteToSInt(%s)" % e
    if rty == "FHInt":
        return "HIntToSInt(%s)" % e
    raise ValueError(rty)


def b_program(tests, sigs):
    """tests: [(name, operands)] -> source printing `t<i> <integer>` per test"""
    used = {"CharNum", "SIntToByte", "SIntToHInt", "CharOrd", "ByteToSInt", "HIntToSInt", "SIntMinus"} | {n for n, _ in tests}
    imp = "\n".join("  %s: (%s) -> %s;" % (n, ", ".join(ALDOR_TY[a] for a in sigs[n]["args"]), ALDOR_TY[sigs[n]["ret"]])
                    for n in sorted(used) if n in sigs)
    body = []
    for i, (n, ops) in enumerate(tests):
        call = "%s(%s)" % (n, ", ".join(b_operand(t, v) for t, v in zip(sigs[n]["args"], ops)))
        body.append('pr("t%d", %s);' % (i, b_result(sigs[n]["ret"], call)))
    return BHEAD % imp + "\n".join(body) + "\n"


def parse_t(out):
    vals = {}
    for line in out.split("\n"):
        m = re.fullmatch(r"(t\d+) (-?\d+)", line.strip())
        if m:
            vals[m.group(1)] = int(m.group(2))
    return vals


def model_driver():
    ex = C.COQ + "/Java/extracted"
    return C.build_ocaml("javab", [ex + "/javab.mli", ex + "/javab.ml"], C.COQ + "/Java/driver.ml")


def model_query(drv, lines):
    rc, out, err = C.run([drv], input="\n".join(lines) + "\n", timeout=300)
    if rc != 0:
        raise RuntimeError("javab driver failed: " + err[-500:])
    return [json.loads(x) for x in out.splitlines() if x.strip()]


def builtin_level(rep, exe, drv, rng, quick, base, stats, only=None, cap=None):
    """Every specified builtin the Java route supports, on boundary operands inside AND outside the side
    condition: (i) the real JVM value equals the model's jsem (validates the embedding of Java), (ii) inside the
    side condition the JVM value equals the interpreter's and the specification's (the property, builtin level)."""
    rows = model_query(drv, ["rows"])[0]
    names = [n for n, k in rows.items() if k == "specified" and (only is None or n in only)]
    sigs = {}
    helpers = ["CharNum", "SIntToByte", "SIntToHInt", "CharOrd", "ByteToSInt", "HIntToSInt", "SIntMinus"]
    for n, s in zip(names + helpers, model_query(drv, ["sig " + n for n in names + helpers])):
        sigs[n] = s
    tests = []
    cap = cap or (40 if quick else 400)
    for n in names:
        s = sigs[n]
        if any(a not in ALDOR_TY for a in s["args"]) or s["ret"] not in ALDOR_TY:
            continue
        doms = [b_boundary(a, rng) for a in s["args"]]
        tups = list(itertools.product(*doms)) if doms else [()]
        rng.shuffle(tups)
        tests += [(n, list(t)) for t in tups[:cap]]
    ans = model_query(drv, ["eval %s %s" % (n, " ".join(str(x) for x in ops)) for n, ops in tests])
    keep = [(t, a) for t, a in zip(tests, ans) if a["typed"] and a["dom"] and a["java"] != "undef"]
    # programs of ~150 tests: one JVM each; when the JVM dies inside a test, that test is the culprit (the first
    # value missing from the output) and the rest of the chunk is run again
    todo = [keep[i:i + 150] for i in range(0, len(keep), 150)]
    d = base + "/builtins%d" % next(_uniq)
    seen_bad = set()
    rounds = 0
    while todo and rounds < 12:
        rounds += 1
        progs = [{"unit": "b%dx%d" % (rounds, i), "src": b_program([t for t, _ in ch], sigs)} for i, ch in enumerate(todo)]
        jr = java_batch(exe, progs, "%s/r%d" % (d, rounds), [0], timeout=120)
        ir = interp_batch(exe, progs, "%s/r%d" % (d, rounds), [0], timeout=120)
        nxt = []
        for p, ch in zip(progs, todo):
            j, it = jr[(p["unit"], 0)], ir[(p["unit"], 0)]
            if j["status"] in ("gen-error", "javac-error") or it["rc"] != 0:
                stats["builtin_chunks_failed"] += 1
                if len(ch) > 1:                      # find the test the translation chokes on
                    nxt += [ch[:len(ch) // 2], ch[len(ch) // 2:]]
                    continue
                (n, ops), a = ch[0]
                if n not in seen_bad:
                    seen_bad.add(n)
                    rep.violation("builtin %s%s: the test program does not get through the %s" % (n, ops,
                                  "Java route: " + j["status"] if it["rc"] == 0 else "interpreter"),
                                  {"builtin": n, "operands": ops, "java": j["err"][-1500:] + j["out"][-500:], "interp": it["out"][-800:]},
                                  key="java:" + n)
                continue
            jv, iv = parse_t(j["out"]), parse_t(it["out"])
            for i, ((n, ops), a) in enumerate(ch):
                t = "t%d" % i
                if t not in jv or t not in iv:
                    # the run died in this test
                    if n not in seen_bad:
                        seen_bad.add(n)
                        rep.violation("builtin %s%s: no value printed on the %s route (the run died: %s)"
                                      % (n, ops, "Java" if t not in jv else "interpreter", j["err"].strip().split("\n")[0][:150]),
                                      {"builtin": n, "operands": ops, "java_stderr": j["err"][:800],
                                       "how_to_replay": "./check C12 --replay <this file>"}, key="java:" + n)
                    if ch[i + 1:]:
                        nxt.append(ch[i + 1:])
                    break
                stats["builtin_evaluations"] += 1
                model_java = int(a["java"])
                if a["fits"]:
                    stats["builtin_inside_side_condition"] += 1
                    # THE PROPERTY at builtin level
                    if jv[t] != iv[t] or jv[t] != int(a["spec"]):
                        if n not in seen_bad:
                            seen_bad.add(n)
                            rep.violation("builtin %s on %s: Java gives %d, the interpreter %d, the definition %s (inside the side condition)"
                                          % (n, ops, jv[t], iv[t], a["spec"]),
                                          {"builtin": n, "operands": ops, "java": jv[t], "interp": iv[t], "spec": a["spec"],
                                           "how_to_replay": "./check C12 --replay <this file>"}, key="java:" + n)
                        continue
                if jv[t] != model_java:
                    stats["builtin_model_mismatch"] += 1
                    if ("model", n) not in seen_bad:
                        seen_bad.add(("model", n))
                        rep.violation("correspondence Java/Model no longer checks: %s on %s is %d on the JVM, the model says %d"
                                      % (n, ops, jv[t], model_java), {"builtin": n, "operands": ops, "jvm": jv[t], "model": model_java},
                                      no_input=True)
                else:
                    stats["builtin_model_agree"] += 1
        todo = nxt
    stats["builtin_names"] = len({n for (n, _), _ in keep})
    return rows


# ------------------------------------------------------------------ Integer (big-integer) constants

def bint_boundaries(rng, extra=6):
    """Integer constants aimed at the representation boundaries of genjava.c:gj0BInt (BigInteger.valueOf(<int literal>) up to
    a bit-length threshold, new BigInteger("...") beyond) and of the FOAM immediate / boxed big integers."""
    vals = {0, 1, -1, 2, -2, 7, 255, 3000000000, -3000000000, 10 ** 30, -(10 ** 30)}
    for k in (15, 28, 29, 30, 31, 32, 33, 61, 62, 63, 64, 65, 100):
        for dlt in (-1, 0, 1):
            vals.add((1 << k) + dlt)
            vals.add(-((1 << k) + dlt))
    for lo, hi in ((28, 33), (28, 33), (61, 66)):
        for _ in range(extra):
            v = rng.randrange(1 << lo, 1 << hi)
            vals.add(v)
            vals.add(-v)
    return sorted(vals)


def ilit(v):
    return "(%d@Integer)" % v if v >= 0 else "(-(%d@Integer))" % -v


def bint_program(rng, vals=None, nops=5):
    """Integer constants (as typed globals, as operands and inside expressions the optimiser folds) printed in decimal,
    with sums, differences, products and comparisons of them; the oracle is exact arithmetic.  At most a dozen constants
    per program (the keyed finding javac:code too large otherwise hides the folded levels)."""
    if vals is None:
        vals = rng.sample(bint_boundaries(rng), 10)
    L = ['#include "aldor"\n#include "aldorio"\nimport from Integer, String, Boolean;\n']
    out = []
    for i, v in enumerate(vals):
        L.append("c%d: Integer := %d;\n" % (i, v) if v >= 0 else "c%d: Integer := -%d;\n" % (i, -v))
    for i, v in enumerate(vals):
        L.append('stdout << "c%d " << c%d << " " << %s << newline;\n' % (i, i, ilit(v)))
        out.append("c%d %d %d" % (i, v, v))
    for n in range(nops):
        i, j = rng.randrange(len(vals)), rng.randrange(len(vals))
        a, b = vals[i], vals[j]
        L.append('stdout << "s%d " << (c%d + c%d) << " " << (%s - %s) << " " << (c%d * %s) << " " << (c%d < c%d) << " " << (%s = c%d) << newline;\n'
                 % (n, i, j, ilit(a), ilit(b), i, ilit(b), i, j, ilit(a), j))
        out.append("s%d %d %d %d %s %s" % (n, a + b, a - b, a * b, "T" if a < b else "F", "T" if a == b else "F"))
    return {"src": "".join(L), "oracle": {"out": "".join(o + "\n" for o in out), "status": "ok"},
            "features": ["bint-constants"], "family": "bint"}


def bint_fixed_programs(rng):
    """the whole boundary set, ten constants per program"""
    vals = bint_boundaries(rng, extra=0)
    return [bint_program(rng, vals[i:i + 10]) for i in range(0, len(vals), 10)]


BINT_LEVELS = [0, 1, 3]          # ten constants at -Q9 exceed the JVM method size (keyed finding javac:code too large)
BINT_Q9 = [[(1 << 31) - 1, 1 << 31, 3000000000], [(1 << 32) - 1, 1 << 32, -3000000000], [-(1 << 31), -(1 << 31) - 1, (1 << 29) - 1],
           [1 << 29, (1 << 63) - 1, 1 << 64]]
BBHEAD = """#include "aldor"
#include "aldorio"
import from Machine;
import from MachineInteger, Boolean, Integer;
import {
%s
} from Builtin;
macro K(n) == ((n@MachineInteger)::SInt);
macro KB(n) == ((n@Integer)::BInt);
pr(tag: String, x: SInt): () == { stdout << tag << " " << (x::MachineInteger) << newline; }
bi(b: Bool): SInt == { if (b::Boolean) then K(1) else K(0) }
"""
BB_SIGS = {"BIntEQ": "(BInt, BInt) -> Bool", "BIntNE": "(BInt, BInt) -> Bool", "BIntLT": "(BInt, BInt) -> Bool",
           "BIntLE": "(BInt, BInt) -> Bool", "BIntIsNeg": "BInt -> Bool", "BIntIsPos": "BInt -> Bool", "BIntIsZero": "BInt -> Bool",
           "BIntPlus": "(BInt, BInt) -> BInt", "BIntMinus": "(BInt, BInt) -> BInt", "BIntTimes": "(BInt, BInt) -> BInt",
           "BIntNegate": "BInt -> BInt", "SIntToBInt": "SInt -> BInt", "BIntToSInt": "BInt -> SInt"}


def bint_builtin_tests(rng, cap):
    """[(Aldor Bool/SInt expression printing 0/1 or an integer, expected)] for the BInt builtins on boundary constants"""
    def kb(v):
        return "KB(%d)" % v if v >= 0 else "BIntNegate(KB(%d))" % -v
    vals = bint_boundaries(rng, extra=2)
    tests = []
    for v in vals:
        tests.append(("bi(BIntIsNeg(%s))" % kb(v), int(v < 0)))
        tests.append(("bi(BIntIsPos(%s))" % kb(v), int(v > 0)))
        if abs(v) < (1 << 31):
            tests.append(("bi(BIntEQ(SIntToBInt(%s), %s))" % (b_operand("FSInt", v), kb(v)), 1))
            tests.append(("BIntToSInt(%s)" % kb(v), v))
    for a, b in zip(vals, vals[1:]):
        tests.append(("bi(BIntLT(%s, %s))" % (kb(a), kb(b)), 1))
        tests.append(("bi(BIntLE(%s, %s))" % (kb(b), kb(a)), 0))
    pairs = [(rng.choice(vals), rng.choice(vals)) for _ in range(cap)]
    for a, b in pairs:
        tests.append(("bi(BIntEQ(BIntPlus(%s, %s), %s))" % (kb(a), kb(b), kb(a + b)), 1))
        tests.append(("bi(BIntEQ(BIntMinus(%s, %s), %s))" % (kb(a), kb(b), kb(a - b)), 1))
        tests.append(("bi(BIntEQ(BIntTimes(%s, %s), %s))" % (kb(a), kb(b), kb(a * b)), 1))
        tests.append(("bi(BIntNE(%s, %s))" % (kb(a), kb(b)), int(a != b)))
    return tests


def bint_level(rep, exe, drv, rng, quick, base, stats):
    """Big-integer constants on the real JVM, unfolded (-Q0) and folded by the optimiser (-Q3): (i) the BInt builtins on
    boundary constants against exact arithmetic and the interpreter, (ii) what the model says gj0BInt emits denotes the
    constant (java_bint_literal_exact) - checked against the digits the JVM prints."""
    tests = bint_builtin_tests(rng, 20 if quick else 150)
    chunks = [tests[i:i + 200] for i in range(0, len(tests), 200)]
    imp = "\n".join("  %s: %s;" % (n, s) for n, s in sorted(BB_SIGS.items())) + "\n  SIntMinus: (SInt, SInt) -> SInt;"
    progs = []
    for ci, ch in enumerate(chunks):
        body = "\n".join('pr("t%d", %s);' % (i, e) for i, (e, _) in enumerate(ch))
        progs.append({"unit": "bb%d" % ci, "tests": ch,
                      "src": BBHEAD % imp + "mn: SInt == SIntMinus(K(-2147483647), K(1));\n" + body + "\n"})
    d = base + "/bint%d" % next(_uniq)
    jobs = [(p, q) for p in progs for q in (0, 3)]
    jr = java_batch(exe, None, d, None, timeout=120, jobs=jobs)
    ir = interp_batch(exe, None, d, None, timeout=120, jobs=jobs)
    reported = set()
    for p, q in jobs:
        j, it = jr[(p["unit"], q)], ir[(p["unit"], q)]
        jv, iv = parse_t(j["out"]), parse_t(it["out"])
        if j["status"] in ("gen-error", "javac-error", "timeout") or it["rc"] != 0:
            rep.violation("big-integer builtin test program at -Q%d does not get through the %s" %
                          (q, "Java route: " + j["status"] if it["rc"] == 0 else "interpreter"),
                          {"src": p["src"][:5000], "level": q, "unit": p["unit"], "java": (j["err"] + j["out"])[-1500:],
                           "interp": it["out"][-600:]}, key=signature_key(j, q))
            continue
        for i, (e, want) in enumerate(p["tests"]):
            t = "t%d" % i
            stats["bint_builtin_evaluations"] += 1
            if jv.get(t) != want or iv.get(t) != want:
                who = "Java" if jv.get(t) != want else "interpreter"
                g = (who, e.split("(")[1] if "(" in e else e, q)
                if g in reported or len(reported) > 6:
                    continue
                reported.add(g)
                one = BBHEAD % imp + "mn: SInt == SIntMinus(K(-2147483647), K(1));\n" + 'pr("t0", %s);\n' % e
                rep.violation("big-integer constants at -Q%d: %s gives %s on the %s route (Java %s, interpreter %s), exact arithmetic says %d"
                              % (q, e, jv.get(t) if who == "Java" else iv.get(t), who, jv.get(t), iv.get(t), want),
                              {"how_to_replay": "./check C12 --replay <this file>", "src": one, "level": q, "unit": "bb",
                               "oracle": {"out": "t0 %d\n" % want, "status": "ok"}})
    # the model's reading of gj0BInt against the constants the JVM really prints (program level, fixed boundary program)
    if drv:
        vals = bint_boundaries(rng, extra=0)
        ans = model_query(drv, ["bint 1 %d" % v for v in vals])
        for v, a in zip(vals, ans):
            stats["bint_model_literals"] += 1
            if a["value"] != str(v):
                stats["bint_model_inexact"] += 1
    return stats


# ------------------------------------------------------------------ corpus

def corpus_items():
    d = os.path.join(C.VERIF, "corpus", ID)
    items = []
    for f in sorted(os.listdir(d)) if os.path.isdir(d) else []:
        if not f.endswith(".as"):
            continue
        txt = open(os.path.join(d, f)).read()
        meta = dict(re.findall(r"^--# (\S+): (.*)$", txt, re.M))
        it = {"name": f[:-3], "src": txt, "unit": "c" + re.sub(r"\W", "", f[:-3])[:20],
              "levels": [int(x) for x in meta.get("levels", "1,3,9").split(",")], "key": meta.get("key")}
        if "expect-out" in meta:
            it["oracle"] = {"out": json.loads(meta["expect-out"]), "status": meta.get("expect-status", "ok")}
        items.append(it)
    return items


# ------------------------------------------------------------------ run

def mini_filter(p):
    """the STATED filter on a MiniAldor program: every feature supported, literal classes inside 32 bits, and no
    machine-integer arithmetic (its intermediates cannot be bounded from the feature list)"""
    fs = set(p["features"])
    if fs - MINI_SUPPORTED:
        return "feature " + ",".join(sorted(fs - MINI_SUPPORTED))
    if not all(l in MINI_LITERALS or l.startswith("int:") for l in p["literals"]):
        return "literal beyond 32 bits"
    return None


MINI_LITERALS = {"mi:0", "mi:1", "mi:small", "bool", "str:empty", "str:plain", "str:escaped"}
# features of the MiniAldor tool the Java route handles, by experiment (feature survey on the unchanged tree).
MINI_UNSUPPORTED = {
    "try": "genjava aborts: `Java not implemented: Tag: Catch' (the repository's own Makefile lists jcatch among its bad tests)",
    "mi-arith": "MachineInteger is a 32-bit int on the Java route: intermediates of + - * may leave 32 bits (side condition fits_java); "
                "machine-integer arithmetic is exercised by the hand-written family, whose values are tracked",
    "convert": "`machine' of an Integer beyond 32 bits truncates differently (BigInteger.intValue)",
}
MINI_SUPPORTED = {
    "print", "global", "variable", "constant", "local", "locals", "assign-global", "assign-local",
    "mi-cmp", "mi-div", "bool-op", "and-or", "if-expr", "if-stmt", "value-seq",
    "function", "pure-function", "impure-function", "call", "call-stmt", "recursion", "overload", "return",
    "exit", "exit-value", "for", "while", "break", "iterate", "string-op", "int-arith", "int-cmp", "int-div",
    "list-literal", "list-empty", "list-op", "for-in-list", "macro-call", "throw", "error", "never",
}


def generate():
    """(Re)write coq/Gen/JavaBuiltins.v from the current sources (also called by tools/setup.py)."""
    tr = G.translate(C.SRC, C.R + "/aldor")
    known_bad = G.known_bad_from(C.known_findings())
    C.write_if_changed(GEN, G.emit_coq(tr, known_bad))
    from props import c04                      # fint_tbl, which java_interp_agree relates the Java table to: regenerated too
    c04.generate()
    return tr, known_bad


def run(rep, tier):
    t0 = time.time()
    quick = tier == "quick"
    exe = C.build_compiler()
    tr, known_bad = generate()
    ties = G.broken_ties(tr)
    base = C.scratch("c12")
    rng = C.rng("c12")
    stats = collections.Counter()

    def searcher(log):
        """A row obligation no longer closes: evaluate exactly those rows on the real JVM and the interpreter over the dense
        boundary product of operands and report an operand tuple inside the side condition on which they differ."""
        failed = sorted(set(re.findall(r'ROW-FAILED"?\s*"(\w+)"', log)))
        stats["rows_failed_in_proof"] = len(failed)
        if not failed or "bint" in log:
            # not a table row (or also the literal thresholds of gj0BInt): Integer constants at every representation
            # boundary, unfolded and folded, on the JVM against exact arithmetic
            sp = [dict(p, unit="sg%d" % i) for i, p in enumerate(bint_fixed_programs(C.rng("c12-searcher-bint")))]
            dd = base + "/sbint"
            jobs = [(p, q) for p in sp for q in BINT_LEVELS]
            jr = java_batch(exe, None, dd, None, timeout=120, jobs=jobs)
            ir = interp_batch(exe, None, dd, None, timeout=120, jobs=jobs)
            for p, q in jobs:
                k = (p["unit"], q)
                v, det = compare(jr[k], ir[k], p["oracle"])
                if v == "disagree" and not signature_key(jr[k], q):
                    bad = [(a, b) for a, b in zip(jr[k]["out"].split("\n"), p["oracle"]["out"].split("\n")) if a != b][:3]
                    rep.violation("Integer constants at -Q%d: %s; first differing lines (java / exact): %s" % (q, det, bad),
                                  {"how_to_replay": "./check C12 --replay <this file>", "src": p["src"], "level": q, "unit": p["unit"],
                                   "oracle": p["oracle"], "observed": brief(jr[k], ir[k])})
                    break
        if not failed:
            return
        try:
            builtin_level(rep, exe, model_driver(), C.rng("c12-searcher"), False, base, collections.Counter(), only=set(failed), cap=600)
        except (C.BuildError, OSError, RuntimeError) as e:
            rep.notes.append("searcher: %s" % str(e)[:200])
    proved = C.proof_stage(rep, ID, ["Props/Properties_C12.vo", "Java/Extract.vo"], "Props/Properties_C12.v", searcher)
    if ties:
        rep.violation("rows of the Java builtin table that used to embed no longer do: %s" % ties,
                      {"rows": ties, "why": {r["name"]: r["exp"] for r in tr["rows"] if r["name"] in ties}}, no_input=True)
    t_proof = time.time() - t0
    drv = None
    rows = {}
    try:
        drv = model_driver()
        rows = builtin_level(rep, exe, drv, rng, quick, base, stats)
        bint_level(rep, exe, drv, rng, quick, base, stats)
    except (C.BuildError, OSError) as e:
        rep.notes.append("Java builtin model not available (extraction did not build): %s" % str(e)[:200])
    t_builtin = time.time() - t0 - t_proof

    # ---- programs
    progs = []
    corp = corpus_items()
    for it in corp:
        progs.append(dict(it, family="corpus", features=["corpus"]))
    n_fam = 14 if quick else 200
    n_end = 6 if quick else 40
    n_mini = 10 if quick else 150
    for i in range(n_fam):
        p = family_program(rng, rng.randrange(4, 16 if quick else 30))
        p.update(unit="h%d" % i, family="hand", levels=[q for q in LEVELS if not ("record-alias" in p["features"] and q >= 3)])
        progs.append(p)
    kinds = ["normal", "error", "never", "throw", "halt", "union", "assert"]
    for i in range(n_end):
        p = c03.ending_program(rng, kinds[i % len(kinds)], c03.CONTEXTS[i % 4])
        p.update(unit="e%d" % i, family="ending", levels=LEVELS)
        progs.append(p)
    bints = bint_fixed_programs(rng) + [bint_program(rng) for _ in range(0 if quick else 30)]
    n_bint = len(bints)
    for i, p in enumerate(bints):
        p.update(unit="g%d" % i, levels=BINT_LEVELS)
        progs.append(p)
    for i, vs in enumerate(BINT_Q9):                 # three constants each: small enough for -Q9
        p = bint_program(rng, vs, nops=1)
        p.update(unit="g9x%d" % i, levels=[9])
        progs.append(p)
    mini.build(rebuild_coq=False)
    dropped = collections.Counter()
    cand = 0
    got = []
    while len(got) < n_mini and cand < n_mini * 60:
        seeds = [rng.randrange(1, 2 ** 40) for _ in range(64)]
        for p in mini.batch(["gen %d %d" % (s, rng.choice([4, 5, 6, 8])) for s in seeds]):
            cand += 1
            why = mini_filter(p)
            if why:
                dropped[why.split(" ")[0] + " " + why.split(" ")[1].split(",")[0]] += 1
                continue
            if len(got) < n_mini:
                p.update(unit="m%d" % len(got), family="mini", levels=LEVELS,
                         oracle={"out": p["expect_out"], "status": p["expect_status"]})
                got.append(p)
    progs += got
    feat = collections.Counter()
    for p in progs:
        feat.update(p.get("features", []))

    def oracle_of(p, q):
        o = c03.pick_oracle(p, q)
        if o and p.get("family") == "ending" and "out" in o:
            o = dict(o, out=o["out"].replace("Assertion failed at p:", "Assertion failed at %sq%d:" % (p["unit"], q)))
        return o
    t1 = time.time()
    d = base + "/progs"
    jobs = [(p, q) for p in progs for q in p["levels"]]
    jr = java_batch(exe, None, d, None, timeout=40 if quick else 90, jobs=jobs)       # ONE javac for the whole sample
    ir = interp_batch(exe, None, d, None, timeout=40 if quick else 90, jobs=jobs)
    t_run = time.time() - t1
    verdicts = collections.Counter()
    per_family = collections.defaultdict(collections.Counter)
    groups = collections.Counter()
    bad_mini = []
    for p in progs:
        for q in p["levels"]:
            k = (p["unit"], q)
            v, det = compare(jr[k], ir[k], oracle_of(p, q))
            if v == "disagree" and jr[k]["status"] not in ("gen-error", "javac-error") \
                    and jr[k]["out"] == c03.strip_trace(ir[k]["out"]) and jr[k]["status"] == ir[k]["status"]:
                v = "agree-not-oracle"
            verdicts[v] += 1
            per_family[p["family"]][v] += 1
            if v in ("agree", "incomparable"):
                continue
            key = p.get("key") or signature_key(jr[k], q)
            if v == "agree-not-oracle" and not p.get("key"):
                # Java and the interpreter agree with each other: not this property's violation, but a defect all the same
                stats["agree_not_oracle"] += 1
                rep.notes.append("Java and interpreter agree but differ from the oracle (-Q%d, %s %s): see replay" % (q, p["family"], p["unit"]))
            g = "%s:%s:%s" % (p["family"], key or "", det[:60])
            groups[g] += 1
            if groups[g] > 1 or len(groups) > 12 and not key:
                continue
            if p["family"] == "mini" and not key:
                bad_mini.append((p, q, det))
                continue
            rep.violation("%s program %s at -Q%d: %s" % (p["family"], p.get("name", p["unit"]), q, det),
                          {"how_to_replay": "./check C12 --replay <this file>", "src": p["src"], "level": q, "unit": p["unit"],
                           "oracle": oracle_of(p, q), "features": p.get("features"), "observed": brief(jr[k], ir[k])}, key=key)
    for p, q, det in bad_mini[:2]:
        def still_fails(cand_p, q=q):
            dd = "%s/shr-%d" % (base, next(_uniq))
            try:
                c = dict(cand_p, unit="s")
                j = java_batch(exe, [c], dd, [q], timeout=40)
                i = interp_batch(exe, [c], dd, [q], timeout=40)
                return compare(j[("s", q)], i[("s", q)], {"out": cand_p["expect_out"], "status": cand_p["expect_status"]})[0] == "disagree"
            finally:
                shutil.rmtree(dd, ignore_errors=True)
        # shrinking must stay inside the filter, or the disagreement may become a side-condition artefact
        path, small = mini.shrink(p["seed"], p["size"], lambda c: mini_filter(c) is None and still_fails(c),
                                  budget_s=(60 if quick else 300))
        rep.violation("generated program (seed %d size %d, shrunk to %s nodes) at -Q%d: %s" % (p["seed"], p["size"], small.get("nodes"), q, det),
                      {"how_to_replay": "./check C12 --replay <this file>", "seed": p["seed"], "size": p["size"], "path": path,
                       "level": q, "unit": "s", "src": small["src"],
                       "oracle": {"out": small["expect_out"], "status": small["expect_status"]}})
    for p, q, det in bad_mini[2:]:
        rep.violation("generated program (seed %d size %d, not shrunk) at -Q%d: %s" % (p["seed"], p["size"], q, det),
                      {"seed": p["seed"], "size": p["size"], "level": q, "unit": p["unit"], "src": p["src"], "oracle": p["oracle"]})

    n_cmp = sum(verdicts.values())
    rowclass = collections.Counter(rows.values())
    rep.add_cov(evaluations=2 * n_cmp + 2 * stats["builtin_evaluations"],
                distinct_nontrivial=len({p["src"] for p in progs}) + stats["builtin_evaluations"],
                traces_validated_against_impl=stats["builtin_model_agree"],
                rule="per (program, level): javac accepts the generated classes; stdout and status class of `java aldorcode.<unit>` "
                     "equal those of `aldor -ginterp` and the oracle's.  Per (builtin, operands): JVM value = model value; inside "
                     "the side condition also = interpreter value = specification",
                samples=[{"unit": p["unit"], "family": p["family"], "features": p.get("features", [])[:8]} for p in progs[:12]],
                input_distribution={
                    "levels": LEVELS, "programs": {"corpus": len(corp), "hand": n_fam, "ending": n_end, "mini": len(got), "bint": n_bint},
                    "bint_levels": BINT_LEVELS,
                    "pairs": n_cmp, "verdicts": dict(verdicts), "verdicts_per_family": {k: dict(v) for k, v in per_family.items()},
                    "mini_candidates": cand, "mini_dropped_by_filter": dict(dropped.most_common(12)),
                    "mini_filter": {"supported_features": sorted(MINI_SUPPORTED), "literal_classes": sorted(MINI_LITERALS) + ["int:*"],
                                    "unsupported": MINI_UNSUPPORTED},
                    "feature_mix(programs containing)": dict(feat.most_common()),
                    "builtin_level": {k: v for k, v in stats.items() if k.startswith("builtin") or k.startswith("bint")},
                    "java_table_rows": dict(rowclass), "known_bad_java_rows": known_bad,
                    "disagreement_groups": dict(groups),
                },
                timings_s={"generate+proof": round(t_proof, 1), "builtin level (JVM)": round(t_builtin, 1), "programs": round(t_run, 1)})
    rep.assume(
        "exit status compared as a class (0 = ok, anything else = fail)",
        "foam.jar and aldor.jar (the Java-compiled Aldor libraries) are the pre-built ones of /repo; the compiler - hence every "
        "generated .java file - and the Java run time foamj (lib/java/src/foamj/*.java) are built from the current tree on every run",
        "side condition at program level: hand-written family - every machine-integer value is tracked by the generator and kept "
        "inside 32 bits; MiniAldor family - literal classes inside 32 bits and no machine-integer arithmetic (filter mini_filter, stated "
        "in input_distribution.mini_filter, rejections counted)",
        "try/catch is outside the supported subset: genjava has no case for FOAM Catch (aborts with `Compiler bug'); uncaught throw, "
        "error, never, assert, halt are inside",
        "the hand-written family does not generate an arithmetic operator application as RIGHT operand of an arithmetic operator "
        "(keyed finding javacode:right-nested-binop-no-parens, reproduced by corpus/C12/nested_minus_parens.as on every run)",
        "programs with an update through a record alias are run below -Q3 only (keyed finding opt:Q4+:record-alias-stale-field, reproduced "
        "by corpus/C12/record_alias_q4.as on every run)",
        "Integer constants: a family of programs printing constants at the boundaries 2^28..2^33, 2^61..2^66, 2^100 (both signs, +-1) "
        "and sums / differences / products of them runs at -Q0, -Q1 and -Q3 (unfolded and folded into immediate big integers; a three-constant variant at -Q9) "
        "against exact arithmetic; the BInt builtins run on the same constants at -Q0 and -Q3",
        "java.lang.Character methods are modelled on ASCII only; javac, the JVM and foamj's classes are not modelled",
        "translator tools/javabuiltins_gen.py: the meaning of each gj0BCall<Method> generator is hard-wired and its text is checked "
        "against a pattern on every run (a changed generator makes its rows opaque, and the proofs fail)")
    if verdicts["incomparable"] * 2 > n_cmp:
        rep.violation("more than half of the sampled (program, level) pairs were incomparable", dict(verdicts), no_input=True)


def signature_key(jr, q):
    """a Java-route failure whose message names the place that gave up gets a key naming it"""
    txt = (jr.get("out", "") + jr.get("err", ""))
    m = re.search(r"Bug: Java not implemented: ([A-Za-z ]+:? ?[A-Za-z, ]*)", txt)
    if m:
        return "javagen:%s" % re.sub(r"\s+", " ", m.group(1)).strip().rstrip("(").strip()
    if jr.get("status") == "javac-error":
        m = re.search(r"error: (code too large|too many constants)", jr.get("err", ""))
        if m:
            return "javac:" + m.group(1)
    m = re.search(r'Exception in thread "main" ([\w.]+)', jr.get("err", ""))
    if m:
        fr = re.search(r"^\s*at (foamj\.\w+\.\w+)\(", jr["err"], re.M)
        if fr and "NumberFormatException" not in m.group(1) and "FoamException" not in m.group(1) \
                and "FoamUserException" not in m.group(1):
            return "javarun:%s:%s" % (m.group(1).split(".")[-1], fr.group(1))
    return None


def replay(path):
    obj = json.load(open(path))
    rp = obj.get("replay", obj)
    exe = C.build_compiler()
    if "builtin" in rp:
        drv = model_driver()
        n, ops = rp["builtin"], rp["operands"]
        s = model_query(drv, ["sig " + n])[0]
        a = model_query(drv, ["eval %s %s" % (n, " ".join(str(x) for x in ops))])[0]
        p = {"unit": "b", "src": b_program([(n, ops)], {n: s, **{k: model_query(drv, ["sig " + k])[0] for k in
             ("CharNum", "SIntToByte", "SIntToHInt", "CharOrd", "ByteToSInt", "HIntToSInt", "SIntMinus")}})}
        d = C.scratch("c12r")
        j = java_batch(exe, [p], d, [0])[("b", 0)]
        i = interp_batch(exe, [p], d, [0])[("b", 0)]
        print("%s%s: java %r interp %r model %s" % (n, ops, j["out"].strip() or j["err"][:300], i["out"].strip(), a))
        return 0 if parse_t(j["out"]) == parse_t(i["out"]) and parse_t(j["out"]) else 1
    if "src" not in rp:
        print("replay: no program in %s" % path)
        return 2
    q = rp.get("level", 1)
    p = {"unit": rp.get("unit", "p"), "src": rp["src"]}
    d = C.scratch("c12r")
    j = java_batch(exe, [p], d, [q])[(p["unit"], q)]
    i = interp_batch(exe, [p], d, [q])[(p["unit"], q)]
    v, det = compare(j, i, rp.get("oracle"))
    print(rp["src"] if len(rp["src"]) < 6000 else rp["src"][:6000] + "...")
    print("--- level -Q%d: %s %s" % (q, v, det))
    for r in brief(j, i):
        print("--- %s: %s rc=%s\n%s%s" % (r["route"], r["status"], r["rc"], r["out"], ("[stderr] " + r["err"][:600]) if r["err"] else ""))
    return 1 if v == "disagree" else 0
