"""C16 - Generated C is valid under every C-generation option.

Three layers (DESIGN.md section 4 / C16):

 1. proof      coq/CName/{Model,Facts}.v, generic over the escape table; the table, VAR_HASH, the
               default identifier length, the strHash constants and the tags the callers pass are
               REGENERATED from genc.c / strops.c on every run (coq/Gen/CNameTbl.v, generate()).
 2. tie        extracted OCaml of the model  vs  harness/cname/h.c which `#include "genc.c"` of the
               CURRENT tree, on name families aimed at the case splits (prefix lengths 20..80,
               every table character, operators, limits at the truncation boundary) + a direct
               oracle on every C result that does not use the model (independent python decoder).
 3. end-to-end (level: exploration for this part) generated Aldor programs x option matrix:
               compiler built from the current tree, gcc compile + link + run, output compared
               with the default-option build and with -ginterp; actual name sets compared.
"""
import concurrent.futures, json, os, re, shutil, sys, time
from vlib import common as C

ID = "C16"
LEVEL = "proof"
MANIFEST = {
    "level_text": "Machine-checked proof (Coq) about the C-name encoder of genc.c (escape table is a prefix "
                  "code => injective; valid C identifiers, never keywords; (tag,index) names distinct; "
                  "global names distinct without truncation; truncation never splits an escape; with "
                  "truncation a collision needs equal hash residue: _partial, a 26-bit hash cannot give "
                  "'never'). The rest of the property (every option combination compiles, links, runs "
                  "as the default build) is bounded exploration over generated programs x option matrix.",
    "level_note": "Trusted: Coq kernel; the regex translator of the table/constants (cross-checked against the "
                  "compiled table by the harness); extraction (ExtrOcamlBasic); harness #include of genc.c; gcc. "
                  "Not modelled: ccode.c printing, file splitting (emit.c), gcc: end-to-end only.",
    "technique": "Coq proof of the name-encoder model + translator (table/constants) + correspondence "
                 "(extracted OCaml vs C harness including the current genc.c) + end-to-end option matrix",
    "design_ref": "DESIGN.md section 4 / C16",
}

# ------------------------------------------------------------------ translator

C_ESC = {"n": 10, "t": 9, "\\": 92, "'": 39, '"': 34, "0": 0, "r": 13, "a": 7, "b": 8, "f": 12, "v": 11}


class TranslateError(Exception):
    pass


def _c_char(lit):
    """value of a C character literal body (between the quotes)"""
    if lit.startswith("\\"):
        if lit[1] in C_ESC and len(lit) == 2:
            return C_ESC[lit[1]]
        if lit[1] == "x":
            return int(lit[2:], 16)
        if lit[1].isdigit():
            return int(lit[1:], 8)
        raise TranslateError("char literal %r" % lit)
    if len(lit) != 1:
        raise TranslateError("char literal %r" % lit)
    return ord(lit)


def _c_string(body):
    out, i = [], 0
    while i < len(body):
        if body[i] == "\\":
            if body[i + 1] in C_ESC:
                out.append(C_ESC[body[i + 1]])
                i += 2
                continue
            raise TranslateError("string escape in %r" % body)
        out.append(ord(body[i]))
        i += 1
    return out


def _strip_comments(t):
    return re.sub(r"/\*.*?\*/", " ", t, flags=re.S)


def parse_sources(src=None):
    """Everything the model is generic over, read from the CURRENT sources."""
    src = src or C.SRC
    genc = _strip_comments(open(src + "/genc.c", errors="replace").read())
    strops = _strip_comments(open(src + "/strops.c", errors="replace").read())
    m = re.search(r"struct\s+ccSpecCharId_info\s+ccSpecCharIdTable\s*\[\s*\]\s*=\s*\{(.*?)\n\};", genc, re.S)
    if not m:
        raise TranslateError("ccSpecCharIdTable not found")
    rows, ended = [], False
    for r in re.finditer(r"\{\s*(?:'((?:\\.|[^'\\])+)'|(\d+))\s*,\s*(?:\"((?:\\.|[^\"\\])*)\"|(\d+))\s*\}", m.group(1)):
        ch = _c_char(r.group(1)) if r.group(1) is not None else int(r.group(2))
        if ch == 0:
            ended = True
            break
        if r.group(3) is None:
            raise TranslateError("table row without string for char %d" % ch)
        rows.append((ch, _c_string(r.group(3))))
    if not ended:
        raise TranslateError("ccSpecCharIdTable has no {0,0} terminator")
    n_rows_text = len(re.findall(r"^\s*\{", m.group(1), re.M))
    if n_rows_text != len(rows) + 1:
        raise TranslateError("ccSpecCharIdTable: %d rows in the text, %d translated" % (n_rows_text, len(rows) + 1))

    def define(name, text=genc):
        mm = re.search(r"^\s*#\s*define\s+%s\s+\(?\s*(0[xX][0-9a-fA-F]+|\d+|\"[^\"]*\")\s*\)?\s*$" % name, text, re.M)
        if not mm:
            raise TranslateError("#define %s not found" % name)
        v = mm.group(1)
        return v[1:-1] if v.startswith('"') else int(v, 0)

    def static_init(name):
        mm = re.search(r"^static\s+\w+\s+%s\s*=\s*(\w+)\s*;" % name, genc, re.M)
        if not mm:
            raise TranslateError("static %s not found" % name)
        v = mm.group(1)
        return {"true": 1, "false": 0}.get(v, None) if not v[0].isdigit() else int(v, 0)

    p = {"tbl": rows, "var_hash": define("VAR_HASH"), "var_hash_max": define("VAR_HASH_MAX"),
         "idlen": static_init("gcvIdLen"), "idhash": static_init("gcvIdHash"), "smax": static_init("gcvSMax")}
    if None in (p["idlen"], p["idhash"], p["smax"]):
        raise TranslateError("default of gcvIdLen/gcvIdHash/gcvSMax is not a literal")
    # strHash: the loop body must have the shape the model has; the constants are read.
    mh = re.search(r"\bstrHash\s*\(\s*register\s+String\s+s\s*\)\s*\{(.*?)\n\}", strops, re.S)
    if not mh:
        raise TranslateError("strHash not found")
    body = re.sub(r"\s+", "", mh.group(1))
    mb = re.search(r"while\(\(c=\*s\+\+\)!=0\)\{h\^=\(h<<(\d+)\);h\+=\(c\+(\d+)\);h&=(0[xX][0-9a-fA-F]+|\d+);\}returnh;", body)
    if not mb:
        raise TranslateError("strHash body no longer has the modelled shape: " + body[:200])
    p["hash_shift"], p["hash_add"], p["hash_mask"] = int(mb.group(1)), int(mb.group(2)), int(mb.group(3), 0)
    # the shape of the truncation test and of the table-driven loop (drift alarm for the hand model)
    g = re.sub(r"\s+", "", genc)
    shapes = {
        "gc0UnderIdLen": r"#definegc0UnderIdLen\(buf,i\)\\\(gcvIdLen==0\|\|bufPosition\(buf\)\+gcvIdCharc\[i\]<=gcvIdLen\)",
        "gc0ValidIdInBuf": r"for\(;\*s&&gc0UnderIdLen\(buf,\(int\)\*s\);s\+\+\)\{intk=gcvIdChars\[\(int\)\*s\];if\(k==NOT_CHANGED\)bufAdd1\(buf,\*s\);elseif\(k!=NOT_PRINTABLE\)bufPuts\(buf,ccIdStr\(k\)\);\}",
        "gc0IdHashInBuf": r"hashNum=strHash\(s\)%VAR_HASH;for\(ndig=0;hashNum;hashNum/=36,ndig\+\+\)alphnum\[ndig\]=hashNum%36;",
    }
    p["drift"] = [k for k, rx in shapes.items() if not re.search(rx, g)]
    # tags: first argument of every gc0MultVarId / gc0VarId call
    macros = {}
    for mm in re.finditer(r"^\s*#\s*define\s+(gc\w+)\s+\(?\s*\"([^\"]*)\"\s*\)?\s*$", genc, re.M):
        macros[mm.group(1)] = mm.group(2)
    lits, dyn = set(), set()
    for mm in re.finditer(r"\bgc0(Mult)?VarId\s*\(\s*([^,()]+?)\s*,", genc):
        a = mm.group(2)
        if a.startswith('"'):
            lits.add(a[1:-1])
        elif a in macros:
            lits.add(macros[a])
        elif a in ("String strA", "String str"):
            pass
        else:
            dyn.add(a)
    # dynamic first arguments: local String variables initialised from macros, macro parameters
    for a in sorted(dyn):
        mm = re.search(r"String\s+%s\s*=\s*(\w+)\s*;" % re.escape(a), genc)
        if mm and mm.group(1) in macros:
            lits.add(macros[mm.group(1)])
    for mm in re.finditer(r"\b(?:gc0IdRef|gcFiNew\w*|gcFi\w+)\s*\(\s*\"(\w+)\"", genc):
        pass
    p["tags"] = sorted(lits)
    p["dyn_tags"] = sorted(dyn)
    return p


def coq_str(bs):
    return "[" + "; ".join(str(b) for b in bs) + "]"


def generate(src=None):
    """Text of coq/Gen/CNameTbl.v for the current sources."""
    p = parse_sources(src)
    for ch, s in p["tbl"]:
        if not (0 < ch < 127):
            raise TranslateError("table character %d outside 1..126 (gcvIdChars[CHAR_MAX])" % ch)
    L = ["(* GENERATED by props/c16.py from genc.c / strops.c of the current tree. Do not edit. *)",
         "Require Import NArith List.", "Import ListNotations.", "Local Open Scope N_scope.", "",
         "(* ccSpecCharIdTable, in source order, without the {0,0} terminator *)",
         "Definition tbl : list (N * list N) :=", "  ["]
    def cmt(ch):
        return chr(ch) if chr(ch) not in '"*()' else "chr %d" % ch
    L.append(";\n".join("   (%d, %s) (* %s -> %s *)" % (
        ch, coq_str(s), cmt(ch), "".join(cmt(x) for x in s)) for ch, s in p["tbl"]))
    L += ["  ].", "",
          "Definition var_hash : N := %d.      (* VAR_HASH *)" % p["var_hash"],
          "Definition var_hash_max : N := %d.  (* VAR_HASH_MAX *)" % p["var_hash_max"],
          "Definition idlen_default : N := %d. (* static int gcvIdLen *)" % p["idlen"],
          "Definition idhash_default : bool := %s. (* static Bool gcvIdHash *)" % ("true" if p["idhash"] else "false"),
          "Definition smax_default : N := %d.  (* static int gcvSMax *)" % p["smax"],
          "Definition hash_shift : N := %d.    (* strHash: h ^= (h << K) *)" % p["hash_shift"],
          "Definition hash_add : N := %d.      (* strHash: h += (c + K) *)" % p["hash_add"],
          "Definition hash_mask : N := %d.     (* strHash: h &= K *)" % p["hash_mask"],
          "",
          "(* literal first arguments of gc0MultVarId / gc0VarId in genc.c *)",
          "Definition tags : list (list N) :=", "  ["]
    L.append(";\n".join("   %s (* %s *)" % (coq_str([ord(c) for c in t]), t) for t in p["tags"]))
    L += ["  ].", ""]
    return "\n".join(L), p
