"""C16 - Generated C is valid under every C-generation option.

Three layers (DESIGN.md section 4 / C16):

 1. proof      coq/CName/{Model,Facts}.v, generic over the escape table; the table, VAR_HASH, the
               default identifier length, the strHash constants and the tags the callers pass are
               REGENERATED from genc.c / strops.c on every run (coq/Gen/CNameTbl.v, generate()).
 2. tie        extracted OCaml of the model  vs  harness/cname/h.c which `#include "genc.c"` of the
               CURRENT tree, on name families aimed at the case splits (prefix lengths 20..80,
               every table character, operators, limits at the truncation boundary) + a direct
               oracle on every C result that does not use the model (independent python decoder).
 3. end-to-end (level: exploration for this part) generated Aldor programs x option matrix:
               compiler built from the current tree, gcc compile + link + run, output compared
               with the default-option build and with -ginterp; actual name sets compared.
"""
import concurrent.futures, json, os, re, shutil, sys, time
from vlib import common as C

ID = "C16"
LEVEL = "proof"
MANIFEST = {
    "level_text": "Machine-checked proof (Coq) about the C-name encoder of genc.c (escape table is a prefix "
                  "code => injective; valid C identifiers, never keywords; (tag,index) names distinct; "
                  "global names distinct without truncation; truncation never splits an escape; with "
                  "truncation a collision needs equal hash residue: _partial, a 26-bit hash cannot give "
                  "'never'). The rest of the property (every option combination compiles, links, runs "
                  "as the default build) is bounded exploration over generated programs x option matrix.",
    "level_note": "Trusted: Coq kernel; the regex translator of the table/constants (cross-checked against the "
                  "compiled table by the harness); extraction (ExtrOcamlBasic); harness #include of genc.c; gcc. "
                  "Not modelled: ccode.c printing, file splitting (emit.c), gcc: end-to-end only.",
    "technique": "Coq proof of the name-encoder model + translator (table/constants) + correspondence "
                 "(extracted OCaml vs C harness including the current genc.c) + end-to-end option matrix",
    "design_ref": "DESIGN.md section 4 / C16",
}

# ------------------------------------------------------------------ translator

C_ESC = {"n": 10, "t": 9, "\\": 92, "'": 39, '"': 34, "0": 0, "r": 13, "a": 7, "b": 8, "f": 12, "v": 11}


class TranslateError(Exception):
    pass


def _c_char(lit):
    """value of a C character literal body (between the quotes)"""
    if lit.startswith("\\"):
        if lit[1] in C_ESC and len(lit) == 2:
            return C_ESC[lit[1]]
        if lit[1] == "x":
            return int(lit[2:], 16)
        if lit[1].isdigit():
            return int(lit[1:], 8)
        raise TranslateError("char literal %r" % lit)
    if len(lit) != 1:
        raise TranslateError("char literal %r" % lit)
    return ord(lit)


def _c_string(body):
    out, i = [], 0
    while i < len(body):
        if body[i] == "\\":
            if body[i + 1] in C_ESC:
                out.append(C_ESC[body[i + 1]])
                i += 2
                continue
            raise TranslateError("string escape in %r" % body)
        out.append(ord(body[i]))
        i += 1
    return out


def _strip_comments(t):
    return re.sub(r"/\*.*?\*/", " ", t, flags=re.S)


def parse_sources(src=None):
    """Everything the model is generic over, read from the CURRENT sources."""
    src = src or C.SRC
    genc = _strip_comments(open(src + "/genc.c", errors="replace").read())
    strops = _strip_comments(open(src + "/strops.c", errors="replace").read())
    m = re.search(r"struct\s+ccSpecCharId_info\s+ccSpecCharIdTable\s*\[\s*\]\s*=\s*\{(.*?)\n\};", genc, re.S)
    if not m:
        raise TranslateError("ccSpecCharIdTable not found")
    rows, ended = [], False
    for r in re.finditer(r"\{\s*(?:'((?:\\.|[^'\\])+)'|(\d+))\s*,\s*(?:\"((?:\\.|[^\"\\])*)\"|(\d+))\s*\}", m.group(1)):
        ch = _c_char(r.group(1)) if r.group(1) is not None else int(r.group(2))
        if ch == 0:
            ended = True
            break
        if r.group(3) is None:
            raise TranslateError("table row without string for char %d" % ch)
        rows.append((ch, _c_string(r.group(3))))
    if not ended:
        raise TranslateError("ccSpecCharIdTable has no {0,0} terminator")
    n_rows_text = len(re.findall(r"^\s*\{", m.group(1), re.M))
    if n_rows_text != len(rows) + 1:
        raise TranslateError("ccSpecCharIdTable: %d rows in the text, %d translated" % (n_rows_text, len(rows) + 1))

    def define(name, text=genc):
        mm = re.search(r"^\s*#\s*define\s+%s\s+\(?\s*(0[xX][0-9a-fA-F]+|\d+|\"[^\"]*\")\s*\)?\s*$" % name, text, re.M)
        if not mm:
            raise TranslateError("#define %s not found" % name)
        v = mm.group(1)
        return v[1:-1] if v.startswith('"') else int(v, 0)

    def static_init(name):
        mm = re.search(r"^static\s+\w+\s+%s\s*=\s*(\w+)\s*;" % name, genc, re.M)
        if not mm:
            raise TranslateError("static %s not found" % name)
        v = mm.group(1)
        return {"true": 1, "false": 0}.get(v, None) if not v[0].isdigit() else int(v, 0)

    p = {"tbl": rows, "var_hash": define("VAR_HASH"), "var_hash_max": define("VAR_HASH_MAX"),
         "idlen": static_init("gcvIdLen"), "idhash": static_init("gcvIdHash"), "smax": static_init("gcvSMax")}
    if None in (p["idlen"], p["idhash"], p["smax"]):
        raise TranslateError("default of gcvIdLen/gcvIdHash/gcvSMax is not a literal")
    # strHash: the loop body must have the shape the model has; the constants are read.
    mh = re.search(r"\bstrHash\s*\(\s*register\s+String\s+s\s*\)\s*\{(.*?)\n\}", strops, re.S)
    if not mh:
        raise TranslateError("strHash not found")
    body = re.sub(r"\s+", "", mh.group(1))
    mb = re.search(r"while\(\(c=\*s\+\+\)!=0\)\{h\^=\(h<<(\d+)\);h\+=\(c\+(\d+)\);h&=(0[xX][0-9a-fA-F]+|\d+);\}returnh;", body)
    if not mb:
        raise TranslateError("strHash body no longer has the modelled shape: " + body[:200])
    p["hash_shift"], p["hash_add"], p["hash_mask"] = int(mb.group(1)), int(mb.group(2)), int(mb.group(3), 0)
    # the shape of the truncation test and of the table-driven loop (drift alarm for the hand model)
    g = re.sub(r"\s+", "", genc)
    shapes = {
        "gc0UnderIdLen": r"#definegc0UnderIdLen\(buf,i\)\\\(gcvIdLen==0\|\|bufPosition\(buf\)\+gcvIdCharc\[i\]<=gcvIdLen\)",
        "gc0ValidIdInBuf": r"for\(;\*s&&gc0UnderIdLen\(buf,\(UByte\)\*s\);s\+\+\)\{intk=gcvIdChars\[\(UByte\)\*s\];if\(k==NOT_CHANGED\)bufAdd1\(buf,\*s\);elseif\(k!=NOT_PRINTABLE\)bufPuts\(buf,ccIdStr\(k\)\);\}",
        "gcvIdChars": r"staticintgcvIdChars\[UCHAR_MAX\+1\];staticintgcvIdCharc\[UCHAR_MAX\+1\];",
        "gc0InitSpecialChars": r"for\(i=0;i<UCHAR_MAX\+1;i\+\+\)\{if\(isalnum\(i\)\)\{gcvIdChars\[i\]=NOT_CHANGED;gcvIdCharc\[i\]=1;\}else\{gcvIdChars\[i\]=NOT_PRINTABLE;gcvIdCharc\[i\]=0;\}\}for\(i=0;ccIdChar\(i\)!=0;i\+\+\)\{gcvIdChars\[ccIdChar\(i\)\]=i;gcvIdCharc\[ccIdChar\(i\)\]=strLength\(ccIdStr\(i\)\);\}",
        "gc0IdHashInBuf": r"hashNum=strHash\(s\)%VAR_HASH;for\(ndig=0;hashNum;hashNum/=36,ndig\+\+\)alphnum\[ndig\]=hashNum%36;",
    }
    p["drift"] = [k for k, rx in shapes.items() if not re.search(rx, g)]
    # tags: first argument of every gc0MultVarId / gc0VarId call
    macros = {}
    for mm in re.finditer(r"^\s*#\s*define\s+(gc\w+)\s+\(?\s*\"([^\"]*)\"\s*\)?\s*$", genc, re.M):
        macros[mm.group(1)] = mm.group(2)
    lits, dyn = set(), set()
    for mm in re.finditer(r"\bgc0(Mult)?VarId\s*\(\s*([^,()]+?)\s*,", genc):
        a = mm.group(2)
        if a.startswith('"'):
            lits.add(a[1:-1])
        elif a in macros:
            lits.add(macros[a])
        elif a in ("String strA", "String str"):
            pass
        else:
            dyn.add(a)
    # dynamic first arguments: local String variables initialised from macros, macro parameters
    for a in sorted(dyn):
        mm = re.search(r"String\s+%s\s*=\s*(\w+)\s*;" % re.escape(a), genc)
        if mm and mm.group(1) in macros:
            lits.add(macros[mm.group(1)])
    for mm in re.finditer(r"\b(?:gc0IdRef|gcFiNew\w*|gcFi\w+)\s*\(\s*\"(\w+)\"", genc):
        pass
    p["tags"] = sorted(lits)
    p["dyn_tags"] = sorted(dyn)
    return p


def parse_split(src=None):
    """The comparison operators and the loop shape of the file-splitting decision (genc.c:gc0ExternDecls,
    gc0OverSMax; emit.c:emitTheC).  A text that is not recognised gives UnknownCmp (the proofs about the
    agreement of the notions of `is split` then do not go through and the observation decides)."""
    src = src or C.SRC
    g = re.sub(r"\s+", "", _strip_comments(open(src + "/genc.c", errors="replace").read()))
    e = re.sub(r"\s+", "", _strip_comments(open(src + "/emit.c", errors="replace").read()))
    cm = {">": "Gt", ">=": "Ge", "<": "Lt", "<=": "Le"}
    r = {"drift": []}
    m = re.search(r"#definegc0OverSMax\(\)\(gcvSMax>0&&gcvNStmts(>=|>)gcvSMax\)", g)
    r["over_cmp"] = cm[m.group(1)] if m else "UnknownCmp"
    m = re.search(r"while\((?:gcvSMax>0&&)?nStmts(>=|>)gcvSMax(?:&&gcvSMax>0)?\)\{", g)
    r["loop_cmp"] = cm[m.group(1)] if m else "UnknownCmp"
    m = re.search(r"for\(i=n;i<nDefs-1&&stmtCounter(<=|<)gcvSMax;i\+\+\)\{", g)
    r["inner_cmp"] = cm[m.group(1)] if m else None
    m = re.search(r"if\(l(>=|>)1\)\{hfn=emitFileName\(finfo,FTYPENO_H\);", e)
    r["emit_cmp"] = cm[m.group(1)] if m else "UnknownCmp"
    shapes = {
        "guess": r"if\(foamTag\(prog\)==FOAM_Prog\)\{nStmts\+=foamArgc\(prog->foamProg\.body\);nDefs\+=1;\}else\{nStmts\+=1;\}\}gcvNStmts=nStmts;",
        "counter": r"if\(foamTag\(prog\)==FOAM_Prog\)\{Foambody=prog->foamProg\.body;stmtCounter\+=foamArgc\(body\)\+1;\}elsestmtCounter\+\+;",
        "turn": r"n=i;nBrothers\+=1;gc0AddLine\(code,gc0GenModuleInitFun\(name,false,nBrothers\)\);.{0,200}?gc0AddLine\(allcode,ccoUnit\(ccExtD\)\);stmtCounter=0;nStmts-=gcvSMax;\}",
        "start": r"n=0;stmtCounter=0;while\(",
        "header_in": r"if\(!gc0OverSMax\(\)\)gc0AddLine\(code,ccoUnit\(ccExtH\)\);",
        "header_out": r"allcode=listNReverse\(CCode\)\(allcode\);if\(gc0OverSMax\(\)\)gc0AddLine\(allcode,ccoUnit\(ccExtH\)\);",
    }
    for k, rx in shapes.items():
        if not re.search(rx, g):
            r["drift"].append(k)
    eshapes = {"emit_names": r"nf=\(i>1\)\?i-1:i;sprintf\(fnnew\+k,\"%\.\*d\",FN_SUFF_LEN,nf\);",
               "emit_select": r"if\(\(i\|\|!hout\)&&i<l\)\{", "emit_first": r"if\(i==1\|\|!hout\)fout=fileWrOpen\(fn\);"}
    for k, rx in eshapes.items():
        if not re.search(rx, e):
            r["drift"].append(k)
    if "turn" in r["drift"] or "start" in r["drift"]:
        r["loop_cmp"] = "UnknownCmp"          # the loop is not the modelled counting loop any more
    return r


def generate_split(src=None):
    r = parse_split(src)
    if r["inner_cmp"] is None:
        raise TranslateError("inner piece loop `stmtCounter < gcvSMax` not found in gc0ExternDecls")
    L = ["(* GENERATED by props/c16.py from genc.c / emit.c of the current tree. Do not edit. *)",
         "Require Import AV.CSplit.Model.", "",
         "(* while (nStmts %s gcvSMax && gcvSMax > 0);  gc0OverSMax: gcvNStmts %s gcvSMax;" % (r["loop_cmp"], r["over_cmp"]),
         "   for (...; stmtCounter %s gcvSMax; ...);  emitTheC: if (l %s 1) *)" % (r["inner_cmp"], r["emit_cmp"]),
         "Definition split_ops : ops :=",
         "  {| loop_cmp := %s; over_cmp := %s; inner_cmp := %s; emit_cmp := %s |}." % (
             r["loop_cmp"], r["over_cmp"], r["inner_cmp"], r["emit_cmp"]), ""]
    return "\n".join(L), r


def coq_str(bs):
    return "[" + "; ".join(str(b) for b in bs) + "]"


GEN_REL = "Gen/CNameTbl.v"


def generate(src=None):
    """Text of coq/Gen/CNameTbl.v for the current sources."""
    p = parse_sources(src)
    for ch, s in p["tbl"]:
        if not (0 < ch < 127):
            raise TranslateError("table character %d outside 1..126 (gcvIdChars[CHAR_MAX])" % ch)
    L = ["(* GENERATED by props/c16.py from genc.c / strops.c of the current tree. Do not edit. *)",
         "Require Import NArith List.", "Import ListNotations.", "Local Open Scope N_scope.", "",
         "(* ccSpecCharIdTable, in source order, without the {0,0} terminator *)",
         "Definition tbl : list (N * list N) :=", "  ["]
    def cmt(ch):
        return chr(ch) if chr(ch) not in '"*()' else "chr %d" % ch
    L.append(";\n".join("   (%d, %s) (* %s -> %s *)" % (
        ch, coq_str(s), cmt(ch), "".join(cmt(x) for x in s)) for ch, s in p["tbl"]))
    L += ["  ].", "",
          "Definition var_hash : N := %d.      (* VAR_HASH *)" % p["var_hash"],
          "Definition var_hash_max : N := %d.  (* VAR_HASH_MAX *)" % p["var_hash_max"],
          "Definition idlen_default : N := %d. (* static int gcvIdLen *)" % p["idlen"],
          "Definition idhash_default : bool := %s. (* static Bool gcvIdHash *)" % ("true" if p["idhash"] else "false"),
          "Definition smax_default : N := %d.  (* static int gcvSMax *)" % p["smax"],
          "Definition hash_shift : N := %d.    (* strHash: h ^= (h << K) *)" % p["hash_shift"],
          "Definition hash_add : N := %d.      (* strHash: h += (c + K) *)" % p["hash_add"],
          "Definition hash_mask : N := %d.     (* strHash: h &= K *)" % p["hash_mask"],
          "",
          "(* literal first arguments of gc0MultVarId / gc0VarId in genc.c *)",
          "Definition tags : list (list N) :=", "  ["]
    L.append(";\n".join("   %s (* %s *)" % (coq_str([ord(c) for c in t]), t) for t in p["tags"]))
    L += ["  ].", ""]
    # A witness that the 'never' of the property cannot hold: two distinct alphanumeric names with the
    # same hash residue and the same truncated encoding at the default limit.  Searched here (birthday
    # search over the residues), CHECKED by Coq (CName/Current.v: global_names_distinct_refuted).
    w = find_hash_collision(p)
    p["collision"] = w
    if w:
        L += ["(* found by birthday search over strHash %% VAR_HASH; checked in CName/Current.v *)",
              "Definition collide1 : list N := %s. (* %s *)" % (coq_str([ord(c) for c in w[0]]), w[0]),
              "Definition collide2 : list N := %s. (* %s *)" % (coq_str([ord(c) for c in w[1]]), w[1]), ""]
    return "\n".join(L), p


def py_str_hash(p, bs):
    h = 0
    for c in bs:
        h = (h ^ ((h << p["hash_shift"]) & (2 ** 64 - 1))) & (2 ** 64 - 1)
        cc = c if c < 128 else c - 256
        h = (h + cc + p["hash_add"]) & (2 ** 64 - 1)
        h &= p["hash_mask"]
    return h


def find_hash_collision(p, prefix=None, suffix="", limit=4000000):
    """Two distinct names prefix+<k>+suffix with equal strHash % VAR_HASH (deterministic search)."""
    prefix = prefix if prefix is not None else "aNameLongEnoughToBeTruncatedAtTheDefaultLimit"
    seen = {}
    pre = [ord(c) for c in prefix]
    suf = [ord(c) for c in suffix]
    alphabet = "abcdefghijklmnopqrstuvwxyz"
    for k in range(limit):
        t, x = "", k
        for _ in range(6):
            t += alphabet[x % 26]
            x //= 26
        r = py_str_hash(p, pre + [ord(c) for c in t] + suf) % p["var_hash"]
        if r in seen:
            return (prefix + seen[r] + suffix, prefix + t + suffix, r)
        seen[r] = t
    return None


# ------------------------------------------------------------------ end-to-end: program generator

WORDS = ["alpha", "Bravo", "Charlie", "Delta", "Echo", "Foxtrot", "Golf", "Hotel", "India", "Juliet", "Kilo",
         "Lima", "Mike", "November", "Oscar", "Papa", "Quebec", "Romeo", "Sierra", "Tango", "Uniform",
         "Victor", "Whiskey", "Xray", "Yankee", "Zulu"]


def gen_program(rng, tag):
    """A deterministic two-unit Aldor program: the library unit exports many globals with long
    names (20..80 characters) sharing prefixes of varied length, names ending in ? and !, a domain
    with operator-character exports (+ - * <= = apply set! zero? #) and long-named exports; the
    main unit imports everything and prints values."""
    base = "the" + "".join(w.capitalize() for w in rng.sample(WORDS, 14))   # > 80 characters
    while len(base) < 90:
        base += rng.choice(WORDS).capitalize()
    nf = rng.randint(8, 14)
    names, funs = [], []
    used = set()
    for i in range(nf):
        total = rng.randint(20, 80)
        shared = rng.randint(max(8, total - 12), total - 1)       # long shared prefix
        tail = ""
        while len(tail) < total - shared:
            tail += rng.choice("ABCDEFGHJKLMNPQRSTUVWXYZabcdefghjkmnpqrstuvwxyz0123456789")
        kind = rng.choice(["int", "int", "int", "bool", "bang"])
        nm = base[:shared] + tail + {"int": "", "bool": "?", "bang": "!"}[kind]
        if nm in used:
            continue
        used.add(nm)
        k = rng.randint(2, 97)
        if kind == "int":
            body = rng.choice(["x + %d" % k, "x * %d - 1" % k, "%d - x" % k, "x * x + %d" % k])
            funs.append("%s(x: MachineInteger): MachineInteger == %s;" % (nm, body))
        elif kind == "bool":
            funs.append("%s(x: MachineInteger): Boolean == x > %d;" % (nm, k % 7))
        else:
            funs.append("%s(x: MachineInteger): MachineInteger == { x * %d }" % (nm, k))
        names.append((nm, kind))
    consts = []
    for i in range(rng.randint(2, 4)):
        nm = base[:rng.randint(20, 60)] + "Konst%d" % i
        consts.append((nm, rng.randint(100, 999)))
    k1, k2 = rng.randint(2, 9), rng.randint(2, 9)
    dom = "Box%s" % tag.capitalize()
    longexp = base[:rng.randint(30, 70)] + "InBox"
    lib = ['#include "aldor"', '#include "aldorio"', "", "import from MachineInteger;", ""] + funs
    lib += ["%s: MachineInteger == %d;" % c for c in consts]
    lib += ["""
%(dom)s: with {
    box: MachineInteger -> %%;
    unbox: %% -> MachineInteger;
    +: (%%, %%) -> %%;
    -: %% -> %%;
    *: (%%, %%) -> %%;
    <=: (%%, %%) -> Boolean;
    =: (%%, %%) -> Boolean;
    apply: (%%, MachineInteger) -> MachineInteger;
    set!: (%%, MachineInteger, MachineInteger) -> MachineInteger;
    zero?: %% -> Boolean;
    #: %% -> MachineInteger;
    %(longexp)s: %% -> MachineInteger;
    %(longexp)s?: %% -> Boolean;
} == add {
    Rep == Record(v: MachineInteger);
    import from Rep;
    box(n: MachineInteger): %% == per [n];
    unbox(b: %%): MachineInteger == rep(b).v;
    (a: %%) + (b: %%): %% == box(unbox a + unbox b + %(k1)d);
    -(a: %%): %% == box(-unbox a);
    (a: %%) * (b: %%): %% == box(unbox a * unbox b);
    (a: %%) <= (b: %%): Boolean == unbox a <= unbox b;
    (a: %%) = (b: %%): Boolean == unbox a = unbox b;
    apply(a: %%, i: MachineInteger): MachineInteger == unbox a + i * %(k2)d;
    set!(a: %%, i: MachineInteger, x: MachineInteger): MachineInteger == { rep(a).v := i + x; x }
    zero?(a: %%): Boolean == zero? unbox a;
    #(a: %%): MachineInteger == %(k1)d;
    %(longexp)s(a: %%): MachineInteger == unbox a + %(k2)d;
    %(longexp)s?(a: %%): Boolean == unbox a > %(k2)d;
}
""" % dict(dom=dom, k1=k1, k2=k2, longexp=longexp)]
    # NOT "u<tag>lib"/"u<tag>main": with -Csmax the pieces are called <first 5 characters>NNN.c, so two
    # units of one directory sharing 5 characters overwrite each other (reported finding, see corpus)
    libname, mainname = "l%su" % tag, "m%su" % tag
    main = ['#include "aldor"', '#include "aldorio"', '#library ULIB "%s.ao"' % libname, "import from ULIB;",
            "import from MachineInteger;", "import from %s;" % dom, ""]
    for nm, kind in names:
        main.append("stdout << %s(%d) << newline;" % (nm, rng.randint(1, 9)))
    for nm, v in consts:
        main.append("stdout << %s << newline;" % nm)
    main += ["a: %s := box %d;" % (dom, rng.randint(1, 9)), "b: %s := box %d;" % (dom, rng.randint(1, 9)),
             'stdout << unbox(a + b) << " " << unbox(-a) << " " << unbox(a * b) << " " << (a <= b) << " " << (a = b) << newline;',
             'stdout << a(10) << " " << (a(1) := 4) << " " << unbox a << " " << zero? a << " " << #a << newline;',
             'stdout << %s(a) << " " << %s?(b) << newline;' % (longexp, longexp)]
    return {"tag": tag, "libname": libname, "mainname": mainname, "lib": "\n".join(lib) + "\n",
            "main": "\n".join(main) + "\n", "names": [n for n, _ in names] + [c for c, _ in consts]}


# ------------------------------------------------------------------ end-to-end: building and running

def _unicl(d):
    """private copy of the C-compiler driver (the lead may be rebuilding /repo while we run)"""
    dst = d + "/unicl"
    if not os.path.exists(dst):
        shutil.copy(C.RB + "/aldor/subcmd/unitools/unicl", dst)
        os.chmod(dst, 0o755)
    return dst


class E2E:
    def __init__(self, exe):
        self.exe = exe
        self.root = C.scratch("c16e2e")
        self.unicl = _unicl(self.root)
        self.conf = C.RB + "/aldor/src/aldor.conf"
        self.worlds = {}
        self.env = C.aldor_env()
        self.n_cc = 0

    def base(self, world=None):
        a = [self.exe, "-Nfile=" + self.conf]
        if world:
            a += ["-Y" + world + "/foam", "-Y" + world + "/aldor"]
        a += ["-Y%s/aldor/lib/libfoam/al" % C.RB, "-I%s/lib/aldor/include" % C.RB, "-Y%s/lib/aldor/src" % C.RB]
        return a

    def cargs(self, world=None):
        return self.base(world) + ["-Ccc=" + self.unicl, "-Y%s/aldor/lib/libfoam" % C.RB, "-laldor",
                                   "-Cargs=-Wconfig=%s -I%s" % (self.conf, C.SRC)]

    def world(self, idlen):
        """Runtime + libaldor whose C was REGENERATED (from the shipped .ao) by the current compiler with
        the same -Cidlen, so that import and export names agree.  None = the shipped libraries."""
        if idlen in self.worlds:
            return self.worlds[idlen]
        w = "%s/world%d" % (self.root, idlen)
        os.makedirs(w + "/ao"), os.makedirs(w + "/foam"), os.makedirs(w + "/aldor")
        C.run(["ar", "x", C.RB + "/lib/aldor/src/libaldor.al"], cwd=w + "/ao", check=True)
        aos = sorted(f for f in os.listdir(w + "/ao") if f.endswith(".ao"))
        inc = ["-I", C.SRC, "-I", C.RB + "/lib/aldor/include"]

        def one(f):
            rc, out, err = C.run([self.exe, "-Nfile=" + self.conf, "-Cidlen=%d" % idlen, "-Fc", f], cwd=w + "/ao",
                                 env=self.env, timeout=120)
            if rc != 0 or not os.path.exists(w + "/ao/" + f[:-3] + ".c"):
                return "aldor -Fc %s: rc=%d %s" % (f, rc, (out + err)[-400:])
            rc, out, err = C.run(["gcc", "-w", "-ffloat-store"] + inc + ["-c", f[:-3] + ".c"], cwd=w + "/ao", timeout=300)
            return None if rc == 0 else "gcc %s: %s" % (f, err[-600:])
        with concurrent.futures.ThreadPoolExecutor(C.NCPU) as ex:
            errs = [e for e in ex.map(one, aos) if e]
        if errs:
            self.worlds[idlen] = ("error", errs)
            return self.worlds[idlen]
        shutil.copy(C.RB + "/lib/aldor/src/libaldor.a", w + "/aldor/libaldor.a")
        C.run(["ar", "r", "libaldor.a"] + ["../ao/" + f[:-3] + ".o" for f in aos], cwd=w + "/aldor", check=True)
        rc, out, err = C.run([self.exe, "-Nfile=" + self.conf, "-Wruntime", "-Cidlen=%d" % idlen, "-Fc=runtime.c",
                              C.RB + "/aldor/lib/libfoam/al/runtime.ao"], cwd=w + "/foam", env=self.env, timeout=120)
        rc2, out2, err2 = C.run(["gcc", "-w", "-ffloat-store", "-I", C.SRC, "-c", "runtime.c"], cwd=w + "/foam", timeout=300)
        if rc != 0 or rc2 != 0:
            self.worlds[idlen] = ("error", ["runtime: " + (out + err + err2)[-600:]])
            return self.worlds[idlen]
        shutil.copy(C.RB + "/aldor/lib/libfoam/libfoam.a", w + "/foam/libfoam.a")
        C.run(["ar", "r", "libfoam.a", "runtime.o"], cwd=w + "/foam", check=True)
        self.worlds[idlen] = ("ok", w)
        return self.worlds[idlen]

    def interp(self, prog, d):
        os.makedirs(d, exist_ok=True)
        self._write(prog, d)
        rc1, o1, e1 = C.run(self.base() + ["-fao", prog["libname"] + ".as"], cwd=d, env=self.env, timeout=120)
        rc, out, err = C.run(self.base() + ["-ginterp", prog["mainname"] + ".as"], cwd=d, env=self.env, timeout=120)
        lines = [l for l in out.splitlines() if not re.match(r"^#\d+ \(", l)]
        return rc1, rc, "\n".join(lines) + "\n", (o1 + e1 + err + out)[-600:]

    def _write(self, prog, d):
        with open("%s/%s.as" % (d, prog["libname"]), "w", encoding="latin-1") as f:
            f.write(prog["lib"])
        with open("%s/%s.as" % (d, prog["mainname"]), "w", encoding="latin-1") as f:
            f.write(prog["main"])

    def names_only(self, prog, idlen, d):
        """C of the library unit at -Cidlen (no C compiler involved): the global names it declares"""
        os.makedirs(d, exist_ok=True)
        self._write(prog, d)
        rc, out, err = C.run(self.base() + ["-Cidlen=%d" % idlen, "-fao", "-fc", prog["libname"] + ".as"],
                             cwd=d, env=self.env, timeout=120)
        return rc, global_names(d, prog["libname"]), (out + err)[-500:]

    def split_boundary(self, prog, d):
        """For each unit: the smallest -Csmax=N (N >= 1) at which the unit is written as ONE C file (no
        <unit>.h).  On the code as it is that is the unit's estimated statement count (genc.c nStmts:
        split iff nStmts > smax); found by bisection on what the CURRENT compiler writes, ~14 `-fc`
        compiles of 0.15 s, no C compiler involved.  Returns {unit: N or None}."""
        os.makedirs(d, exist_ok=True)
        self._write(prog, d)
        C.run(self.base() + ["-fao", prog["libname"] + ".as"], cwd=d, env=self.env, timeout=120)
        res = {}
        for unit in (prog["libname"], prog["mainname"]):
            def unsplit(n):
                for f in os.listdir(d):
                    if f.endswith(".c") or f.endswith(".h"):
                        os.remove(os.path.join(d, f))
                rc, out, err = C.run(self.base() + ["-Csmax=%d" % n, "-fc", unit + ".as"], cwd=d, env=self.env, timeout=120)
                if rc != 0 or not os.path.exists("%s/%s.c" % (d, unit)):
                    return None
                return not os.path.exists("%s/%s.h" % (d, unit))
            lo, hi = 1, 1 << 14              # invariant: split at lo, one file at hi
            a, b = unsplit(lo), unsplit(hi)
            if a is None or b is None or a or not b:
                res[unit] = 1 if a else None
                continue
            while hi - lo > 1:
                mid = (lo + hi) // 2
                u = unsplit(mid)
                if u is None:
                    lo = hi = None
                    break
                if u:
                    hi = mid
                else:
                    lo = mid
            res[unit] = hi
        return res

    def run_config(self, prog, cfg, d, shipped=False):
        """cfg = (std, idlen, smax, lines).  Returns a result dict; 'stage' names where it failed."""
        std, idlen, smax, lines = cfg
        opts = ["-C" + std, "-Cidlen=%d" % idlen, "-Csmax=%d" % smax, "-C" + lines]
        world = None
        if not shipped and idlen != self.default_idlen:
            st, w = self.world(idlen)
            if st != "ok":
                return {"stage": "world", "ok": False, "diag": "\n".join(w)[:1500], "opts": opts}
            world = w
        os.makedirs(d, exist_ok=True)
        self._write(prog, d)
        res = {"opts": opts, "ok": False, "world": "regenerated" if world else "shipped"}
        rc, out, err = C.run(self.cargs(world) + opts + ["-fao", "-fo", "-fc", prog["libname"] + ".as"],
                             cwd=d, env=self.env, timeout=900)
        if rc != 0:
            res.update(stage="compile-lib", diag=(out + err)[-2500:])
            return res
        objs = sorted(f for f in os.listdir(d) if f.startswith(prog["libname"][:5]) and f.endswith(".o"))
        rc, out, err = C.run(self.cargs(world) + opts + ["-fc", "-fx=" + prog["mainname"] + ".exe",
                                                         prog["mainname"] + ".as"] + objs,
                             cwd=d, env=self.env, timeout=900)
        res["cfiles"] = len([f for f in os.listdir(d) if f.endswith(".c")])
        res["gnames"] = global_names(d, prog["libname"])
        if rc != 0 or not os.path.exists("%s/%s.exe" % (d, prog["mainname"])):
            res.update(stage="compile-link-main", diag=(out + err)[-2500:])
            return res
        rc, out, err = C.run(["./" + prog["mainname"] + ".exe"], cwd=d, timeout=60)
        res.update(rc=rc, out=out)
        if rc != 0:
            res.update(stage="run", diag="rc=%d %s" % (rc, (out + err)[-800:]))
            return res
        res["ok"] = True
        return res


def global_names(d, libname):
    """identifiers of external linkage / run-time linkage the unit's C mentions: G_.. pG_.. INIT_.."""
    names = set()
    for f in os.listdir(d):
        if f.startswith(libname[:5]) and (f.endswith(".c") or f.endswith(".h")):
            txt = open(os.path.join(d, f), errors="replace").read()
            names.update(re.findall(r"\b(?:p?G_|INIT_)\w*", txt))
    return sorted(names)


STD = ["old", "standard"]
IDLENS = [0, 30, 31, 40, 64]
SMAXS = [0, 1, 5, 50]
LINES = ["lines", "no-lines"]


def full_matrix():
    return [(s, i, m, l) for s in STD for i in IDLENS for m in SMAXS for l in LINES]


def sample_matrix(rng, n):
    """every value of every option at least once, then random combinations"""
    cfgs = []
    for k in range(max(len(IDLENS), len(SMAXS))):
        cfgs.append((STD[k % 2], IDLENS[k % len(IDLENS)], SMAXS[k % len(SMAXS)], LINES[(k // 2) % 2]))
    allc = full_matrix()
    rng.shuffle(allc)
    for c in allc:
        if len(cfgs) >= n:
            break
        # smax=1 means one gcc run per C function (hundreds of files): at most two such in a sample
        if c not in cfgs and not (c[2] == 1 and sum(1 for x in cfgs if x[2] == 1) >= 2):
            cfgs.append(c)
    return cfgs


def opt_key(cfg, stage):
    std, idlen, smax, lines = cfg
    return "opt:-C%s:-Cidlen=%d:-Csmax=%d:-C%s:%s" % (std, idlen, smax, lines, stage)


# ------------------------------------------------------------------ tie: model (extracted OCaml) vs C harness

IDENT_RE = re.compile(r"^[A-Za-z_][A-Za-z0-9_]*$")
C_KEYWORDS = set("""auto break case char const continue default do double else enum extern float for goto if inline
int long register restrict return short signed sizeof static struct switch typedef union unsigned void volatile
while _Bool _Complex _Imaginary _Alignas _Alignof _Atomic _Generic _Noreturn _Static_assert _Thread_local asm
typeof fortran""".split())
OPERATOR_NAMES = ["+", "-", "*", "/", "<=", ">=", "<", ">", "=", "~=", "^", "**", "..", "#", "apply", "set!",
                  "empty?", "zero?", "one?", "\\/", "/\\", "~", "@", "$", "%", "&", "|", "'", "`", "->", "=>", ":=",
                  "+->", "<<", ">>", "[]", "{}", "()", "_", "__", "_BANG_", "__BANG__", "_B", "!_", "_!", "x_",
                  "_LT_EQ_", "<_=", "a.b", "a,b;c:d", "\"q\"", "new!", "dispose!", "bracket", "generator", "by"]
ALNUM = "abcdefghijklmnopqrstuvwxyzABCDEFGHIJKLMNOPQRSTUVWXYZ0123456789"


def hx(s):
    b = s if isinstance(s, (bytes, bytearray)) else s.encode("latin-1")
    return b.hex() if b else "-"


def unhx(h):
    return "" if h == "-" else bytes.fromhex(h).decode("latin-1")


class Tie:
    """Op-script generation, the two runners and the model-independent oracles."""

    def __init__(self, params, rng):
        self.p, self.rng = params, rng
        self.ops = []          # (line, meta)
        self.table = dict((chr(c), "".join(map(chr, w))) for c, w in params["tbl"])
        self.default = params["idlen"]

    # -- python reference of the ENCODING ONLY, built from the table the harness reports (oracle, not the model)
    def cw(self, ch, table):
        if ch in table:
            return table[ch]
        return ch if (ch.isalnum() and ord(ch) < 128) else ""

    def add(self, line, **meta):
        self.ops.append((line, meta))

    def m(self, idlen, idhash, tag, idx, name, **meta):
        self.add("M %d %d %s %d %s" % (idlen, idhash, hx(tag), idx, hx(name)),
                 kind="M", idlen=idlen, idhash=idhash, tag=tag, idx=idx, name=name, **meta)

    def gen(self, tier):
        rng, p = self.rng, self.p
        tags = [t for t in p["tags"] if t not in ("G", "pG")]
        chars = [chr(c) for c, _ in p["tbl"]]
        limits = [0, p["idlen"], p["idlen"] + 1, 40, 64] + ([8, 22, 29, 32, 100, 250] if tier == "thorough" else [32])
        reps = 3 if tier == "thorough" else 1
        base = "".join(rng.choice(ALNUM) for _ in range(100))
        # 1. names sharing a prefix of every length 20..80, tails with operators / specials / alnum
        for L in range(20, 81):
            for r in range(reps):
                pre = base[:L]
                t1 = "".join(rng.choice(ALNUM + "".join(chars)) for _ in range(rng.randint(1, 8)))
                t2 = "".join(rng.choice(ALNUM + "".join(chars)) for _ in range(rng.randint(1, 8)))
                if t1 == t2:
                    t2 += "x"
                for idlen in limits:
                    for nm in (pre + t1, pre + t2, pre):
                        self.m(idlen, 1, "G", 0, nm, fam="prefix", L=L)
                    self.m(idlen, 1, "pG", 0, pre + t1, fam="prefix", L=L)
                tg = rng.choice(tags)
                for nm in (pre + t1, pre + t2):
                    self.m(rng.choice(limits), 1, tg, rng.choice([0, 1, 9, 10, 11, 99, 100, 12345, 2147483647]), nm,
                           fam="prefix-local", L=L)
                self.m(0, 0, "G", 0, pre + t1, fam="nohash")
                self.m(0, 0, "G", 0, pre + t2, fam="nohash")
        # 2. every table character: alone, doubled, around alnum, and landing on the truncation boundary
        for ch in chars + ["a", "Z", "0", "9"]:
            w = self.cw(ch, self.table)
            for nm in (ch, ch + ch, "x" + ch, ch + "x", "x" + ch + "y" + ch):
                for idlen in (0, p["idlen"]):
                    self.m(idlen, 1, "G", 0, nm, fam="char")
                    self.m(idlen, 1, "T", 3, nm, fam="char")
            for idlen in limits:
                if idlen == 0:
                    continue
                for pos in (0, 8):
                    for delta in (-1, 0, 1):
                        k = idlen - pos - len(w) + delta
                        if k < 0:
                            continue
                        nm = base[:k] + ch + "tail" + ch
                        self.add("E %d %d %s" % (idlen, pos, hx(nm)), kind="E", idlen=idlen, pos=pos, name=nm)
                        self.m(idlen, 1, "G", 0, nm, fam="boundary")
        # 3. operator names under every caller tag; index boundaries
        for nm in OPERATOR_NAMES:
            for idlen in (0, p["idlen"], 64):
                self.m(idlen, 1, "G", 0, nm, fam="op")
                self.m(idlen, 0, "G", 0, nm, fam="op")
            self.add("E 0 0 %s" % hx(nm), kind="E", idlen=0, pos=0, name=nm)
            self.add("H %s" % hx(nm), kind="H", name=nm)
            self.add("S %s" % hx(nm), kind="S", name=nm)
        for tg in tags:
            for idx in (0, 1, 9, 10, 19, 99, 100, 101, 2147483647):
                for nm in ("", "x", "set!", base[:40]):
                    self.m(rng.choice([0, p["idlen"], 64]), 1, tg, idx, nm, fam="tags")
            if re.match(r"^[A-Za-z]+$", tg):
                self.add("V %d %s %d" % (p["idlen"], hx(tg), rng.randint(0, 500)), kind="V", tag=tg)
        # 3b. bytes >= 127 and other dropped characters inside otherwise ordinary names (well-formed stream)
        for hb in ("\x7f", "\x80", "\xe9", "\xff", " ", "\t", "\x01"):
            for nm in ("f" + hb + "x", hb + "x", "x" + hb, base[:25] + hb + "!" + hb, hb):
                for idlen in (0, p["idlen"], 64):
                    self.m(idlen, 1, "G", 0, nm, fam="dropped")
                    self.m(idlen, 1, "T", 7, nm, fam="dropped")
                    self.add("E %d 8 %s" % (idlen, hx(nm)), kind="E", idlen=idlen, pos=8, name=nm)
                self.add("S %s" % hx(nm), kind="S", name=nm)
                self.add("H %s" % hx(nm), kind="H", name=nm)
        # 4. the generator's collision witness (equal residue, equal 22-character truncation)
        if p.get("collision"):
            for nm in p["collision"][:2]:
                self.m(p["idlen"], 1, "G", 0, nm, fam="witness")
                self.m(0, 1, "G", 0, nm, fam="witness0")
        # 5. random names over the whole printable alphabet, random limits
        n5 = 3000 if tier == "thorough" else 400
        alphabet = ALNUM + "".join(chars)
        for _ in range(n5):
            nm = "".join(rng.choice(alphabet) for _ in range(rng.randint(1, 90)))
            idlen = rng.choice(limits + [rng.randint(1, 120)])
            self.m(idlen, rng.choice([0, 1, 1]), rng.choice(["G", "pG"] + tags), rng.randint(0, 3000), nm, fam="random")
            pos = rng.randint(0, 40)
            self.add("E %d %d %s" % (idlen, pos, hx(nm)), kind="E", idlen=idlen, pos=pos, name=nm)
            self.add("H %s" % hx(nm), kind="H", name=nm)
        # 6. separate malformed stream: dropped characters (controls, space), odd tags, negative limit
        self.bad = []
        for _ in range(300 if tier == "thorough" else 80):
            nm = "".join(rng.choice(alphabet + " \t\x01\x1f \x7f\x80\xe9\xff") for _ in range(rng.randint(1, 40)))
            self.bad.append(("M %d %d %s %d %s" % (rng.choice(limits), 1, hx(rng.choice(["G", "T", "1x", "9", " a", "Gx", "pGx", "p", "a b"])),
                                                   rng.randint(0, 99), hx(nm)), {"kind": "M", "bad": True}))
            self.bad.append(("E %d %d %s" % (rng.choice(limits), rng.randint(0, 70), hx(nm)), {"kind": "E", "bad": True}))
        self.bad.append(("M -1 1 %s 0 %s" % (hx("G"), hx("abc")), {"kind": "Mneg", "bad": True}))

    # -- oracles on the implementation's results (no model involved)

    def decode(self, out, table):
        """greedy decoding of an encoder output into characters; None if it is not a sequence of whole escapes"""
        inv = dict((w, ch) for ch, w in table.items())
        res, i = [], 0
        while i < len(out):
            c = out[i]
            if c != "_" and c.isalnum():
                res.append(c)
                i += 1
                continue
            hit = [w for w in inv if out.startswith(w, i)]
            if len(hit) != 1:
                return None
            res.append(inv[hit[0]])
            i += len(hit[0])
        return "".join(res)

    def oracle_E(self, meta, out, table):
        """no_split_escape on the C result"""
        name, idlen, pos = meta["name"], meta["idlen"], meta["pos"]
        kept = "".join(ch for ch in name if self.cw(ch, table))
        dec = self.decode(out, table)
        if dec is None:
            return "output %r is not a sequence of whole escapes" % out
        if not kept.startswith(dec):
            return "output %r decodes to %r, not a prefix of the name" % (out, dec)
        if idlen and pos <= idlen and pos + len(out) > idlen:
            return "output %r crosses the limit %d from position %d" % (out, idlen, pos)
        if idlen == 0 and dec != kept:
            return "no limit but the name was cut: %r" % out
        return None


def run_lines(exe, lines, timeout=600):
    rc, out, err = C.run([exe], input="\n".join(lines) + "\n", timeout=timeout)
    res = out.split("\n")
    if res and res[-1] == "":
        res.pop()
    return rc, res, err


# ------------------------------------------------------------------ searchers over the table (used when a proof obligation breaks)

def find_ambiguous_pair(table, max_nodes=200000):
    """Two distinct printable names with the same encoding (Sardinas-Patterson style search over the
    dangling suffix), or None when the code is uniquely decodable."""
    alpha = [c for c in ALNUM] + sorted(table)
    cw = {}
    for ch in alpha:
        w = table.get(ch, ch if ch.isalnum() else "")
        if w:
            cw[ch] = w
    import collections
    q = collections.deque()
    seen = set()
    for a in cw:
        for b in cw:
            if a != b and cw[b].startswith(cw[a]):
                d = cw[b][len(cw[a]):]           # s1 = a (shorter encoding), s2 = b, dangling d belongs to s2
                q.append((d, a, b))
    n = 0
    while q and n < max_nodes:
        d, s1, s2 = q.popleft()                  # enc(s1) + d == enc(s2)
        n += 1
        if d == "":
            if s1 != s2:
                return s1, s2
            continue
        if (d, len(s1) > len(s2)) in seen and n > 2000:
            continue
        seen.add((d, len(s1) > len(s2)))
        for c, w in cw.items():
            if d.startswith(w):
                q.append((d[len(w):], s1 + c, s2))
            elif w.startswith(d):
                q.append((w[len(d):], s2, s1 + c))
    return None


# ------------------------------------------------------------------ the check

class Ctx:
    def __init__(self, rep, tier, p):
        self.rep, self.tier, self.p = rep, tier, p
        self.h = None
        self.ml = None
        self.ctable = None

    def harness(self):
        if self.h is None:
            files = []
            for v in ("libport_a_SOURCES", "libgen_a_SOURCES", "libstruct_a_SOURCES", "libphase_a_SOURCES"):
                files += C.makefile_am_sources(v)
            files = [f for f in dict.fromkeys(files) if f != "genc.c"] + ["axlcomp.c", "cmdline.c"]
            self.h = C.build_harness("cname", "cname/h.c", files)
            rc, res, err = run_lines(self.h, ["T"])
            if rc != 0 or not res or not res[0].startswith("T "):
                raise C.BuildError("cname harness does not run: rc=%d %s" % (rc, err[-300:]))
            f = res[0].split(" ")
            self.cconst = dict(var_hash=int(f[1]), var_hash_max=int(f[2]), idlen=int(f[3]), smax=int(f[4]), idhash=int(f[5]))
            self.ctable = {}
            self.crows = []
            for r in f[6:]:
                k, _, w = r.partition(":")
                self.ctable[chr(int(k))] = w
                self.crows.append((int(k), [ord(x) for x in w]))
        return self.h

    def model(self):
        if self.ml is None:
            self.ml = C.build_ocaml("cname", [C.COQ + "/CName/extracted/cname.mli", C.COQ + "/CName/extracted/cname.ml"],
                                    C.COQ + "/CName/driver.ml")
        return self.ml

    def c_mangle(self, idlen, idhash, tag, idx, name):
        rc, res, err = run_lines(self.harness(), ["M %d %d %s %d %s" % (idlen, idhash, hx(tag), idx, hx(name))])
        return unhx(res[0]) if res else None

    # --- searcher called by proof_stage when make / the property file fails
    def searcher(self, log):
        rep = self.rep
        try:
            self.harness()
        except C.BuildError as e:
            rep.notes.append("searcher: harness does not build: %s" % str(e)[:300])
            return
        table = self.ctable
        # (a) the escape table is no longer uniquely decodable: two names, one C name (no truncation involved)
        pair = find_ambiguous_pair(table)
        if pair:
            s1, s2 = pair
            o1, o2 = self.c_mangle(0, 1, "G", 0, s1), self.c_mangle(0, 1, "G", 0, s2)
            l1, l2 = self.c_mangle(0, 1, "T", 1, s1), self.c_mangle(0, 1, "T", 1, s2)
            if l1 == l2 or o1 == o2:
                rep.violation("escape table is not a prefix code: distinct names %r and %r get the same C name %r "
                              "(gc0MultVarId, idlen=0)" % (s1, s2, l1),
                              {"kind": "harness", "ops": ["M 0 1 %s 1 %s" % (hx("T"), hx(s1)), "M 0 1 %s 1 %s" % (hx("T"), hx(s2))],
                               "expect": "distinct", "names": [s1, s2], "c_names": [l1, l2, o1, o2]},
                              key="tbl-ambiguous:%s:%s" % (s1, s2))
        # (b) an escape that is not made of identifier characters
        for ch, w in sorted(table.items()):
            if not re.match(r"^[A-Za-z0-9_]+$", w):
                o = self.c_mangle(0, 1, "T", 1, "x" + ch)
                if o is not None and not IDENT_RE.match(o):
                    rep.violation("escape of %r is %r: gc0MultVarId(\"T\",1,%r) = %r is not a C identifier" % (ch, w, "x" + ch, o),
                                  {"kind": "harness", "ops": ["M 0 1 %s 1 %s" % (hx("T"), hx("x" + ch))], "expect": "identifier"},
                                  key="tbl-nonident:%d" % ord(ch))
        # (c) caller tags after which the index is ambiguous
        seen = {}
        for tg in self.p["tags"]:
            if tg in ("G", "pG"):
                continue
            lines = ["M %d 1 %s %d %s" % (self.p["idlen"], hx(tg), i, hx(nm)) for i in range(0, 130) for nm in ("", "x")]
            rc, res, err = run_lines(self.h, lines)
            k = 0
            for i in range(0, 130):
                for nm in ("", "x"):
                    o = res[k] if k < len(res) else None
                    k += 1
                    if o in seen and seen[o][:2] != (tg, i):
                        rep.violation("caller tags %r index %d and %r index %d give the same C name %r" % (
                            seen[o][0], seen[o][1], tg, i, unhx(o)),
                            {"kind": "harness", "ops": [lines[k - 1], seen[o][3]], "expect": "distinct"},
                            key="tag-ambiguous:%s:%s" % (seen[o][0], tg))
                        return
                    seen[o] = (tg, i, nm, lines[k - 1])

    # --- correspondence + model-independent oracles
    def tie(self, model_ok):
        rep, p = self.rep, self.p
        self.harness()
        # translator cross-check against the COMPILED table / constants
        if self.crows != [(c, list(w)) for c, w in p["tbl"]] or any(self.cconst[k] != p[k] for k in self.cconst):
            rep.violation("translator: table/constants read from genc.c differ from the compiled ones",
                          {"translated": {"tbl": p["tbl"], **{k: p[k] for k in self.cconst}},
                           "compiled": {"tbl": self.crows, **self.cconst}}, no_input=True)
        t = Tie(p, C.rng("c16-tie"))
        t.gen(self.tier)
        lines = [l for l, _ in t.ops]
        blines = [l for l, _ in t.bad if not l.startswith("M -1")]
        rc, cres, cerr = run_lines(self.h, lines + blines)
        if rc != 0 or len(cres) != len(lines) + len(blines):
            rep.violation("C harness failed on the op script: rc=%d, %d of %d results" % (rc, len(cres), len(lines) + len(blines)),
                          {"rc": rc, "stderr": cerr[-500:], "next_op": (lines + blines)[len(cres)] if len(cres) < len(lines) + len(blines) else None},
                          no_input=True)
            return
        mism = []
        nval = 0
        if model_ok:
            ml = self.model()
            rc, mres, merr = run_lines(ml, lines + blines)
            if len(mres) != len(cres):
                rep.violation("model driver failed: %d of %d results" % (len(mres), len(cres)), {"stderr": merr[-500:]}, no_input=True)
            else:
                for i, (a, b) in enumerate(zip(cres, mres)):
                    if a != b:
                        mism.append(i)
                nval = len(cres)
        table = self.ctable
        viol = 0
        # ---- oracles on every implementation result
        groups = {}
        distinct = set()
        ncoll = 0
        for i, (line, meta) in enumerate(t.ops):
            out = unhx(cres[i]) if meta["kind"] != "S" else cres[i]
            distinct.add(cres[i])
            if meta["kind"] == "E":
                bad = t.oracle_E(meta, out, table)
                if bad:
                    viol += 1
                    rep.violation("gc0ValidIdInBuf(idlen=%d,pos=%d,%r): %s" % (meta["idlen"], meta["pos"], meta["name"], bad),
                                  {"kind": "harness", "ops": [line], "expect": "whole-escapes"},
                                  key="split-escape:%d:%s" % (meta["idlen"], hx(meta["name"])[:40]))
                    if viol > 5:
                        break
            elif meta["kind"] in ("M", "V"):
                in_scope = meta["kind"] == "V" or meta["idlen"] == 0 or meta["idlen"] >= p["idlen"]
                if in_scope and (not IDENT_RE.match(out) or out in C_KEYWORDS):
                    viol += 1
                    rep.violation("%s gives %r: not a C identifier" % (line, out),
                                  {"kind": "harness", "ops": [line], "expect": "identifier"}, key="nonident:" + line[:60])
                # distinctness is claimed for limits >= the default and for 0 (the property's quantifier)
                if meta["kind"] == "M" and (meta["idlen"] == 0 or meta["idlen"] >= p["idlen"]):
                    glob = meta["tag"] in ("G", "pG")
                    ent = (meta["tag"], meta["name"]) if glob else (meta["tag"], meta["idx"])
                    g = groups.setdefault((meta["idlen"], meta["idhash"], glob), {})
                    if out in g and g[out][0] != ent:
                        other = g[out]
                        wit = set((p.get("collision") or ())[:2])
                        if (meta.get("fam") == "witness" and meta["idlen"] == p["idlen"] and meta["idhash"] == 1
                                and glob and {other[0][1], ent[1]} == wit and other[0][0] == ent[0] == "G"):
                            # exactly the generator's birthday pair at the default limit: the known design limit
                            k = "name:global-hash-collision:default-options"
                        else:
                            k = "collision:%d:%d:%s" % (meta["idlen"], meta["idhash"], out)
                        viol += 1
                        ncoll += 1
                        if ncoll > 5:
                            continue
                        rep.violation("two entities, one C name: %r and %r both become %r (idlen=%d, idhash=%d)" % (
                            other[0], ent, out, meta["idlen"], meta["idhash"]),
                            {"kind": "harness", "ops": [other[1], line], "expect": "distinct"}, key=k)
                    g.setdefault(out, (ent, line))
        # negative limit is clamped to 1 (genCSetIdLen)
        rc, r2, _ = run_lines(self.h, ["M -1 1 %s 0 %s" % (hx("G"), hx("abc")), "M 1 1 %s 0 %s" % (hx("G"), hx("abc"))])
        if len(r2) == 2 and r2[0] != r2[1]:
            rep.violation("genCSetIdLen(-1) is not the limit 1", {"kind": "harness", "ops": ["M -1 1 47 0 616263", "M 1 1 47 0 616263"],
                                                                   "expect": "equal"}, key="idlen-clamp")
        # option decoding (ccOption): direct expectation
        dl, ds, dh = self.cconst["idlen"], self.cconst["smax"], self.cconst["idhash"]
        optexp = [("idlen=0", (0, 0, ds, dh, 0)), ("idlen=31", (0, 31, ds, dh, 0)), ("idlen=64", (0, 64, ds, dh, 0)),
                  ("IdLen=40", (0, 40, ds, dh, 0)), ("idlen=-5", (0, 1, ds, dh, 0)), ("smax=0", (0, dl, 0, dh, 0)),
                  ("smax=1", (0, dl, 1, dh, 0)), ("smax=50", (0, dl, 50, dh, 0)), ("smax=-2", (0, dl, 1, dh, 0)),
                  ("no-idhash", (0, dl, ds, 0, 0)), ("idhash", (0, dl, ds, 1, 0)), ("lines", (0, dl, ds, dh, 1)),
                  ("no-lines", (0, dl, ds, dh, 0)), ("standard", (0, dl, ds, dh, 0)), ("old", (0, dl, ds, dh, 0)),
                  ("nonsense", (-1, dl, ds, dh, 0))]
        rc, r3, _ = run_lines(self.h, ["O " + o for o, _ in optexp])
        for (o, exp), got in zip(optexp, r3):
            if tuple(int(x) for x in got.split()) != exp:
                viol += 1
                rep.violation("ccOption(%r): rc idlen smax idhash lines = %s, expected %s" % (o, got, exp),
                              {"kind": "harness", "ops": ["O " + o], "expect": "option", "want": list(exp)}, key="option:" + o)
        # ---- mismatches model / implementation
        if mism:
            i = mism[0]
            allops = t.ops + t.bad
            line = (lines + blines)[i]
            small = self.shrink(line)
            rep.violation("correspondence cname no longer checks: model and genc.c differ on %s (C %s, model %s); %d of %d ops differ; "
                          "the model-independent oracles found %s" % (small[0], small[1], small[2], len(mism), len(cres),
                                                                      "%d property failures (reported above)" % viol if viol else "no property failure"),
                          {"kind": "harness-vs-model", "ops": [small[0]], "c": small[1], "model": small[2],
                           "first_unshrunk": line, "n_mismatch": len(mism)}, no_input=(viol == 0),
                          key=None if viol == 0 else "mismatch:" + small[0][:60])
        rep.add_cov(evaluations=len(cres), distinct_nontrivial=len(distinct), traces_validated_against_impl=nval,
                    rule="every op line is evaluated by the C harness (#include of the current genc.c) and by the extracted model; "
                         "results compared textually; oracles (whole escapes, identifier syntax, keyword, distinctness per "
                         "(idlen,idhash) group, option decoding) run on the C results without the model",
                    samples=[l for l in lines[:3] + lines[len(lines) // 2:len(lines) // 2 + 3]],
                    input_distribution={"ops": len(lines), "malformed_ops": len(blines),
                                        "families": _count(m.get("fam", m["kind"]) for _, m in t.ops),
                                        "prefix_lengths": "20..80 (every length)", "limits": sorted(set(m.get("idlen", 0) for _, m in t.ops))[:40]})

    def shrink(self, line):
        """shorten the name of a mismatching op while C and model still differ"""
        f = line.split(" ")
        ni = len(f) - 1 if f[0] in ("M", "E", "H", "S") else 2

        def differ(fields):
            l = " ".join(fields)
            _, a, _ = run_lines(self.h, [l])
            _, b, _ = run_lines(self.model(), [l])
            return (a[:1] != b[:1]), (a[0] if a else None), (b[0] if b else None)
        d, a, b = differ(f)
        if not d:
            return line, a, b
        name = unhx(f[ni])
        changed = True
        while changed and len(name) > 1:
            changed = False
            for cand in (name[len(name) // 2:], name[:len(name) // 2], name[1:], name[:-1]):
                g = list(f)
                g[ni] = hx(cand)
                d2, a2, b2 = differ(g)
                if d2:
                    name, f, a, b, changed = cand, g, a2, b2, True
                    break
        return " ".join(f), a, b


def _count(it):
    d = {}
    for x in it:
        d[x] = d.get(x, 0) + 1
    return d


# ------------------------------------------------------------------ end-to-end stage

def load_corpus():
    d = C.VERIF + "/corpus/" + ID
    out = []
    if os.path.isdir(d):
        for f in sorted(os.listdir(d)):
            if f.endswith(".json"):
                out.append((f, json.load(open(os.path.join(d, f)))))
    return out


def prog_replay(prog, cfg, shipped, want):
    return {"kind": "e2e", "prog": {k: prog[k] for k in ("libname", "mainname", "lib", "main")},
            "cfg": list(cfg), "shipped": shipped, "want": want}


def check_one(e, prog, cfg, d, shipped, want_out):
    """Run one configuration and classify: returns (stage or None, detail, result)"""
    r = e.run_config(prog, cfg, d, shipped=shipped)
    if not r["ok"]:
        return r["stage"], r.get("diag", ""), r
    if r["out"] != want_out:
        return "output", "got %r, default-option build / interpreter print %r" % (r["out"][:300], want_out[:300]), r
    return None, "", r


def e2e_stage(rep, tier, p):
    exe = C.build_compiler()
    e = E2E(exe)
    e.default_idlen = p["idlen"]
    default_cfg = ("old", p["idlen"], p["smax"], "no-lines")
    rng = C.rng("c16-e2e")
    stats = {"programs": 0, "configs": 0, "c_files": 0, "worlds": 0, "corpus": 0, "passed": 0}
    t0 = time.time()

    # ---- corpus of past failures first
    for fname, item in load_corpus():
        stats["corpus"] += 1
        prog, cfg = item["prog"], tuple(item["cfg"])
        d = "%s/corpus%d" % (e.root, stats["corpus"])
        _, rci, iout, idiag = e.interp(prog, d + "i")
        stage, detail, r = check_one(e, prog, cfg, d, item.get("shipped", False), iout)
        if stage:
            # the known key only for exactly the recorded failure (stage and diagnostic); anything else is new
            exp = item.get("expect", {})
            same = stage == exp.get("stage") and re.search(exp.get("detail", "^$"), detail, re.S) is not None
            key = item["key"] if same else "%s:unexpected:%s" % (item["key"], stage)
            rep.violation("%s: %s (%s) with %s" % (item["what"] if same else "corpus %s fails differently than recorded" % fname,
                                                   stage, detail[-400:].replace("\n", " | "), " ".join(r["opts"])),
                          prog_replay(prog, cfg, item.get("shipped", False), iout), key=key)

    # ---- generated programs x option matrix
    nprog = 6 if tier == "thorough" else 1
    seedtag = "s%d" % (C.seed() % 100000)
    for k in range(nprog):
        prog = gen_program(C.rng("c16-prog-%d" % k), "%sp%d" % (seedtag, k))
        stats["programs"] += 1
        pd = "%s/p%d" % (e.root, k)
        rcl, rci, iout, idiag = e.interp(prog, pd + "/interp")
        if rcl != 0 or not iout.strip():
            rep.violation("generated program is not accepted / prints nothing with -ginterp: %s" % idiag[-300:],
                          prog_replay(prog, default_cfg, False, None), no_input=True)
            continue
        if rci != 0:
            rep.notes.append("-ginterp exit status %d on a generated program (output taken from stdout): %s" % (rci, idiag[-200:]))
        stage, detail, r0 = check_one(e, prog, default_cfg, pd + "/default", False, iout)
        if stage:
            rep.violation("default C options: %s: %s" % (stage, detail[-400:].replace("\n", " | ")),
                          prog_replay(prog, default_cfg, False, iout), key=opt_key(default_cfg, stage))
            continue
        cfgs = full_matrix() if tier == "thorough" else sample_matrix(rng, 12)
        # reference name sets without truncation (idlen = 0), per (std, smax): no C compiler involved
        refnames = {}

        def ref(std, smax):
            if (std, smax) not in refnames:
                d = "%s/ref-%s-%d" % (pd, std, smax)
                os.makedirs(d, exist_ok=True)
                e._write(prog, d)
                rc, out, err = C.run(e.base() + ["-C" + std, "-Cidlen=0", "-Csmax=%d" % smax, "-fao", "-fc", prog["libname"] + ".as"],
                                     cwd=d, env=e.env, timeout=120)
                refnames[(std, smax)] = global_names(d, prog["libname"]) if rc == 0 else None
            return refnames[(std, smax)]
        for i in sorted(set(c[1] for c in cfgs)):
            if i != p["idlen"]:
                st, w = e.world(i)
                stats["worlds"] += 1
                if st != "ok":
                    rep.violation("runtime/libaldor C regenerated with -Cidlen=%d does not build: %s" % (i, "\n".join(w)[:600]),
                                  {"kind": "world", "idlen": i, "errors": w[:5]}, key="opt:-Cidlen=%d:library-rebuild" % i)
        # split limits aimed at the split / no-split decision: -Csmax around each unit's own boundary
        # (the limit at which the unit stops being split = its estimated statement count), default
        # std / idlen / lines.  The fixed values 0,1,5,50 never hit it.
        bounds = e.split_boundary(prog, pd + "/boundary")
        stats.setdefault("split_boundaries", {}).update(bounds)
        for unit, bnd in sorted(bounds.items()):
            if bnd is None:
                rep.notes.append("no split boundary found for unit %s" % unit)
                continue
            for sm in (bnd - 2, bnd - 1, bnd, bnd + 1):
                c = ("old", p["idlen"], sm, "no-lines")
                if sm > 1 and c not in cfgs:
                    cfgs.append(c)
                    stats["boundary_configs"] = stats.get("boundary_configs", 0) + 1
        for c in cfgs:
            ref(c[0], c[2])

        def one(j):
            return check_one(e, prog, cfgs[j], "%s/c%d" % (pd, j), False, iout)
        with concurrent.futures.ThreadPoolExecutor(C.NCPU) as ex:
            results = list(ex.map(one, range(len(cfgs))))
        for cfg, (stage, detail, r) in zip(cfgs, results):
            stats["configs"] += 1
            stats["c_files"] += r.get("cfiles", 0)
            if stage:
                if stage == "world":
                    continue
                rep.violation("%s: %s: %s" % (" ".join(r["opts"]), stage, detail[-500:].replace("\n", " | ")),
                              prog_replay(prog, cfg, False, iout), key=opt_key(cfg, stage))
                continue
            stats["passed"] += 1
            rn = ref(cfg[0], cfg[2])
            if rn is not None and len(r["gnames"]) != len(rn):
                rep.violation("%s: the library unit has %d distinct global C names, %d without truncation: two entities share a name" % (
                    " ".join(r["opts"]), len(r["gnames"]), len(rn)),
                    dict(prog_replay(prog, cfg, False, iout), names=r["gnames"], names_idlen0=rn), key=opt_key(cfg, "name-set"))

    # ---- the statement as written: shipped runtime, limits other than the default
    probe = [64] if tier == "quick" else [i for i in IDLENS if i != p["idlen"]]
    prog = gen_program(C.rng("c16-prog-0"), "%sp0" % seedtag)
    _, _, iout, _ = e.interp(prog, e.root + "/shipi")
    for i in probe:
        cfg = ("old", i, p["smax"], "no-lines")
        stage, detail, r = check_one(e, prog, cfg, "%s/ship%d" % (e.root, i), True, iout)
        stats["configs"] += 1
        if stage:
            rep.violation("-Cidlen=%d against the SHIPPED runtime and libaldor (built at the default limit %d): %s %s -- the run-time "
                          "import names (fiImportGlobal) are the truncated C names, so any limit other than the default "
                          "breaks linkage by name with the shipped libraries" % (i, p["idlen"], stage, detail[-200:].replace("\n", " | ")),
                          prog_replay(prog, cfg, True, iout),
                          key="opt:-Cidlen=%d:shipped-libs" % i if (stage == "run" and "rc=-11" in detail)
                          else "opt:-Cidlen=%d:shipped-libs:%s" % (i, stage))
    stats["wall_s"] = round(time.time() - t0, 1)
    return stats


def run(rep, tier):
    # 1. translator
    try:
        text, p = generate()
    except TranslateError as ex:
        rep.violation("translator cannot read genc.c/strops.c any more: %s" % ex, {"error": str(ex)}, no_input=True)
        return
    C.write_if_changed(C.COQ + "/Gen/CNameTbl.v", text)
    if p["drift"]:
        rep.notes.append("drift alarm: %s no longer has the modelled text; thorough correspondence forced" % p["drift"])
    try:
        stext, sp = generate_split()
    except TranslateError as ex:
        rep.violation("translator cannot read the splitting loop of genc.c any more: %s" % ex, {"error": str(ex)}, no_input=True)
        return
    C.write_if_changed(C.COQ + "/Gen/CSplitOps.v", stext)
    if sp["drift"] or "UnknownCmp" in sp.values():
        rep.notes.append("drift alarm (file splitting): shapes %s, operators %s" % (sp["drift"], {k: v for k, v in sp.items() if k != "drift"}))
    ctx = Ctx(rep, "thorough" if p["drift"] else tier, p)
    split_tier = "thorough" if (sp["drift"] or "UnknownCmp" in sp.values()) else tier
    state = {"split_done": False}

    def searcher(log):
        ctx.searcher(log)
        # a broken proof about the splitting decision: look for a concrete (definition sizes, smax)
        mk, _ = C.coq_make(["CSplit/Extract.vo"])
        split_stage(rep, split_tier, mk, ctx)
        state["split_done"] = True
    # 2. proof
    ok = C.proof_stage(rep, ID, ["Props/Properties_C16.vo", "CName/Extract.vo", "CSplit/Extract.vo"],
                       "Props/Properties_C16.v", searcher)
    model_ok = os.path.exists(C.COQ + "/CName/extracted/cname.ml")
    smodel_ok = os.path.exists(C.COQ + "/CSplit/extracted/csplit.ml")
    if not ok:
        # the extractions do not depend on the proofs: rebuild them so that the ties can still run
        model_ok, _ = C.coq_make(["CName/Extract.vo"])
        smodel_ok, _ = C.coq_make(["CSplit/Extract.vo"])
    # 3. correspondence + oracles
    ctx.tie(model_ok)
    if not state["split_done"]:
        split_stage(rep, split_tier, smodel_ok, ctx)
    # 4. end to end (exploration)
    stats = e2e_stage(rep, tier, p)
    rep.add_cov(end_to_end=stats,
                end_to_end_level="exploration: %d generated program(s) x %d option combinations compiled by the compiler built from "
                                 "the current tree, gcc-compiled, linked, run; output compared with -ginterp; name sets compared "
                                 "with the untruncated ones" % (stats["programs"], stats["configs"]))
    rep.assume(
        "translator: regex reading of ccSpecCharIdTable, VAR_HASH, defaults, strHash constants and caller tags "
        "(cross-checked on every run against the compiled table/constants printed by the harness)",
        "extraction: ExtrOcamlBasic only; driver.ml only converts ints/hex to N / list N",
        "harness/cname/h.c #includes the current genc.c and links the rest of the compiler from the current tree",
        "names are byte strings over 1..255; bytes without an escape (blank, controls, >= 127) are dropped by genc.c: injectivity is "
        "stated for printable names only, names differing only in dropped bytes are separated by the hash prefix alone",
        "file splitting: the decision (which definition goes to which part, header separate or not, how emitTheC maps the list to "
        "files) is modelled (CSplit) and tied by observing -Fc -Csmax=N runs; the CONTENT of the parts (declarations, extern/static, "
        "INIT bodies) is not",
        "NOT modelled: ccode.c printing, old/standard prototypes, #line output, gcc: end-to-end runs only "
        "(level exploration for that part of the property)",
        "end-to-end limits other than the default link against runtime/libaldor whose C is regenerated from the shipped .ao files "
        "with the same -Cidlen (2 s); against the shipped libraries they cannot work (reported finding)",
        "the property's 'never the same C name' is not a theorem: 22 characters + a residue below 2^26 (global_names_distinct_refuted); "
        "proved instead: a collision needs equal residue and equal truncated encoding (_partial)")


# ------------------------------------------------------------------ replay

def replay(path):
    obj = json.load(open(path))
    r = obj.get("replay", obj)
    kind = r.get("kind")
    if kind in ("harness", "harness-vs-model"):
        rep = C.Report(ID, "quick", LEVEL)
        text, p = generate()
        ctx = Ctx(rep, "quick", p)
        h = ctx.harness()
        rc, res, err = run_lines(h, r["ops"])
        outs = [unhx(x) if re.match(r"^([0-9a-f]{2})+$|^-$", x) else x for x in res]
        print("ops:", r["ops"])
        print("C results:", outs)
        exp = r.get("expect")
        bad = False
        if kind == "harness-vs-model":
            C.coq_make(["CName/Extract.vo"])
            _, mres, _ = run_lines(ctx.model(), r["ops"])
            print("model results:", [unhx(x) for x in mres])
            bad = mres != res
        elif exp == "distinct":
            bad = len(set(outs)) < len(outs)
        elif exp == "equal":
            bad = len(set(outs)) > 1
        elif exp == "identifier":
            bad = any(not IDENT_RE.match(o) or o in C_KEYWORDS for o in outs)
        elif exp == "whole-escapes":
            t = Tie(p, C.rng("r"))
            f = r["ops"][0].split()
            bad = t.oracle_E({"idlen": int(f[1]), "pos": int(f[2]), "name": unhx(f[3])}, outs[0], ctx.ctable) is not None
        elif exp == "option":
            bad = [int(x) for x in res[0].split()] != r["want"]
        print("VIOLATED" if bad else "holds")
        return 1 if bad else 0
    if kind == "split":
        exe = C.build_compiler()
        d = C.scratch("c16splitr")
        env = C.aldor_env()
        if r.get("lib"):
            with open("%s/%s.as" % (d, r["lib"][0]), "w", encoding="latin-1") as f:
                f.write(r["lib"][1])
            C.run(C.aldor_base_args(exe) + ["-fao", r["lib"][0] + ".as"], cwd=d, env=env, timeout=300)
        with open("%s/%s.as" % (d, r["unit"]), "w", encoding="latin-1") as f:
            f.write(r["src"])
        C.run(C.aldor_base_args(exe) + ["-fao", "-ffm", r["unit"] + ".as"], cwd=d, env=env, timeout=300)
        counts = fm_defs(open("%s/%s.fm" % (d, r["unit"]), errors="replace").read())
        rc, files, diag = observe_split(exe, C.RB + "/aldor/src/aldor.conf", env, "%s/%s.ao" % (d, r["unit"]), r["unit"],
                                        r["smax"], d + "/o")
        bad = split_oracle(counts, r["smax"], rc, files)
        print("unit %s: definitions %s (guessed statements %d), -Csmax=%d" % (
            r["unit"], counts, sum(c if c != "o" else 1 for c in counts), r["smax"]))
        print("files written (file: [CF indices], [INIT numbers]):", files)
        if r.get("model"):
            C.coq_make(["CSplit/Extract.vo"])
            ml = C.build_ocaml("csplit", [C.COQ + "/CSplit/extracted/csplit.mli", C.COQ + "/CSplit/extracted/csplit.ml"],
                               C.COQ + "/CSplit/driver.ml")
            _, mres, _ = run_lines(ml, model_split_lines([(counts, r["smax"])]))
            print("model:", mres)
            if not bad and {k: (list(v[0]), list(v[1])) for k, v in canon_model(mres[0], counts).items()} != \
                    {k: (list(v[0]), list(v[1])) for k, v in files.items()}:
                bad = "model and compiler differ"
        print("VIOLATED: " + bad if bad else "holds")
        return 1 if bad else 0
    if kind == "e2e":
        text, p = generate()
        e = E2E(C.build_compiler())
        e.default_idlen = p["idlen"]
        prog, cfg = r["prog"], tuple(r["cfg"])
        _, _, iout, _ = e.interp(prog, e.root + "/i")
        stage, detail, res = check_one(e, prog, cfg, e.root + "/c", r.get("shipped", False), r.get("want") or iout)
        print("options:", " ".join(res["opts"]), "libraries:", res.get("world"))
        print("interpreter output:", repr(iout[:300]))
        print("result:", stage or "ok", detail[-1500:])
        return 1 if stage else 0
    print("replay file has no re-runnable input:", obj.get("what"))
    return 1


# ------------------------------------------------------------------ file splitting: model vs observation of real -Fc -Csmax=N runs

def parse_sexpr(txt):
    tok = re.compile(r'\s*(\(|\)|"(?:\\.|[^"\\])*"|[^\s()"]+)')
    pos, stack = 0, []
    while True:
        m = tok.match(txt, pos)
        if not m:
            return None
        pos, t = m.end(), m.group(1)
        if t == "(":
            stack.append([])
        elif t == ")":
            x = stack.pop()
            if not stack:
                return x
            stack[-1].append(x)
        else:
            stack[-1].append(t)


def fm_defs(fm_text):
    """top-level definitions of a unit as the guess loop of gc0ExternDecls sees them:
    list of body sizes (int) for Progs, 'o' for anything else"""
    u = parse_sexpr(fm_text)
    ddef = [x for x in u if isinstance(x, list) and x and x[0] == "DDef"][0]
    out = []
    for d in ddef[1:]:
        rhs = d[2]
        if isinstance(rhs, list) and rhs and rhs[0] == "Prog":
            out.append(len(rhs[-1]) - 1)
        else:
            out.append("o")
    return out


def sweep_limits(counts, rng, tier):
    """limits aimed at the decisions of the piece loop: 0, 1, 2, the total +-2, total/m +-1 (where
    floor and ceil-1 part counts differ), the running costs at which a piece closes +-1, a few random"""
    total = sum(c if c != "o" else 1 for c in counts)
    nd = sum(1 for c in counts if c != "o")
    s = {0, 2, 3, total - 2, total - 1, total, total + 1, total + 2, 2 * total}
    if total <= 400:
        s.add(1)
    for m in (2, 3, 4, 5):
        s.update({total // m - 1, total // m, total // m + 1})
    run = 0
    for c in counts[1:nd]:
        run += (c + 1)
        s.update({run - 1, run, run + 1})
    for _ in range(6 if tier == "quick" else 20):
        s.add(rng.randint(2, total + 5))
    lo = 1 if total <= 400 else 2
    return sorted(x for x in s if x == 0 or x >= lo)


def observe_split(exe, conf, env, ao, unit, smax, d):
    """files written by `aldor -Csmax=N -Fc unit.ao` and the function / INIT definitions in each"""
    os.makedirs(d, exist_ok=True)
    rc, out, err = C.run([exe, "-Nfile=" + conf, "-Csmax=%d" % smax, "-Fc", ao], cwd=d, env=env, timeout=300)
    files = {}
    for f in sorted(os.listdir(d)):
        if f == unit + ".h":
            key = "h"
        elif f == unit + ".c":
            key = "c0"
        else:
            m = re.match(r"^%s(\d\d\d)\.c$" % re.escape(unit[:5]), f)
            if not m:
                continue
            key = "c%d" % int(m.group(1))
        txt = open(os.path.join(d, f), errors="replace").read()
        cfs = [int(x) for x in re.findall(r"^CF(\d+)_?\w*\(", txt, re.M)]
        inits = [int(x) for x in re.findall(r"^INIT__(\d+)_\w*\(", txt, re.M)]
        files[key] = (cfs, inits)
    shutil.rmtree(d, ignore_errors=True)
    return rc, files, (out + err)[-300:]


def split_oracle(counts, smax, rc, files):
    """the property statement on what the compiler wrote (no model): None or a description"""
    total = sum(c if c != "o" else 1 for c in counts)
    nd = sum(1 for c in counts if c != "o")
    if rc != 0:
        return "aldor -Fc -Csmax=%d failed (rc=%d)" % (smax, rc)
    cs = sorted((k for k in files if k != "h"), key=lambda k: int(k[1:]))
    if "h" in files and (files["h"][0] or files["h"][1]):
        return "the header <unit>.h holds function definitions CF%s / INIT %s" % (files["h"][0], files["h"][1])
    want_split = smax > 0 and total > smax
    if ("h" in files) != (len(cs) > 1):
        return "<unit>.h %s but %d C file(s) were written" % ("exists" if "h" in files else "is missing", len(cs))
    if ("h" in files) != want_split:
        return "%d guessed statements, limit %d: the unit should%s be split but is%s" % (
            total, smax, "" if want_split else " not", "" if "h" in files else " not")
    placed = [i for k in cs for i in files[k][0]]
    if sorted(placed) != list(range(nd)):
        miss = sorted(set(range(nd)) - set(placed))
        dup = sorted(set(i for i in placed if placed.count(i) > 1))
        return "functions lost %s / written twice %s" % (miss, dup)
    if files[cs[-1]][0][:1] != [0] or [i for i in placed if i != 0] != list(range(1, nd)):
        return "definition order not preserved (pieces in file order, then the last part): %s" % placed
    for n, k in enumerate(cs):
        want = [0] if n == len(cs) - 1 else [n + 1]
        if files[k][1] != want or k != "c%d" % n:
            return "file %s (number %d of %d) defines INIT %s, expected %s" % (k, n, len(cs), files[k][1], want)
    for k in cs[:-1]:
        idx = files[k][0]
        if sum(counts[i] + 1 for i in idx[:-1]) >= smax:
            return "piece %s went on after reaching the limit: %s" % (k, idx)
    return None


def model_split_lines(counts_list):
    return ["%d %s" % (smax, " ".join(str(c) for c in counts)) for counts, smax in counts_list]


def canon_model(line, counts):
    """driver output -> {file: (prog indices, init numbers)} comparable with observe_split"""
    nd = sum(1 for c in counts if c != "o")
    res = {}
    parts = [x.strip() for x in line.split("|")][1:]
    for part in parts:
        f, _, e = part.partition("=")
        if e == "H":
            res[f] = ([], [])
            continue
        kind, _, ds = e.partition(":")
        idx = [int(x) for x in ds.split(",") if x != ""]
        idx = [i for i in idx if i < len(counts) and counts[i] != "o"]
        res[f] = (idx, [0] if kind.startswith("M") else [int(kind[1:])])
    return res


SMALL_UNIT = """#include "aldor"
#include "aldorio"
import from MachineInteger;

sq(n: MachineInteger): MachineInteger == n * n;

tri(n: MachineInteger): MachineInteger == {
	s: MachineInteger := 0;
	for i: MachineInteger in 1..n repeat s := s + i;
	s
}

stdout << sq 7 << " " << tri 10 << newline;
"""


def split_units(tier):
    """(unit name, directory with <unit>.ao, counts) for the units whose splitting is observed"""
    exe = C.build_compiler()
    root = C.scratch("c16split")
    env = C.aldor_env()
    base = C.aldor_base_args(exe)
    progs = [gen_program(C.rng("c16-prog-%d" % k), "s%dp%d" % (C.seed() % 100000, k)) for k in range(1 if tier == "quick" else 3)]
    units = []
    with open(root + "/spl.as", "w") as f:
        f.write(SMALL_UNIT)
    todo = [("spl", None)]
    for pr in progs:
        for nm, key in ((pr["libname"], "lib"), (pr["mainname"], "main")):
            with open("%s/%s.as" % (root, nm), "w", encoding="latin-1") as f:
                f.write(pr[key])
            todo.append((nm, pr))
    for nm, pr in todo:
        rc, out, err = C.run(base + ["-fao", "-ffm", nm + ".as"], cwd=root, env=env, timeout=300)
        if rc != 0 or not os.path.exists("%s/%s.fm" % (root, nm)):
            raise C.BuildError("cannot compile unit %s for the split observation: %s" % (nm, (out + err)[-300:]))
        counts = fm_defs(open("%s/%s.fm" % (root, nm), errors="replace").read())
        units.append({"name": nm, "dir": root, "counts": counts,
                      "src": open("%s/%s.as" % (root, nm), encoding="latin-1").read(),
                      "lib": (pr["libname"], pr["lib"]) if pr and nm == pr["mainname"] else None})
    return exe, env, units


def split_stage(rep, tier, model_ok, ctx):
    """tie of the splitting model: extracted model vs what the compiler built from the current tree
    writes for -Fc -Csmax=N, N swept around every decision boundary; oracle on every observation."""
    exe, env, units = split_units(tier)
    conf = C.RB + "/aldor/src/aldor.conf"
    rng = C.rng("c16-split")
    jobs = []
    for u in units:
        for n in sweep_limits(u["counts"], rng, tier):
            jobs.append((u, n))

    def one(j):
        u, n = jobs[j]
        return observe_split(exe, conf, env, "%s/%s.ao" % (u["dir"], u["name"]), u["name"], n, "%s/o-%s-%d" % (u["dir"], u["name"], n))
    with concurrent.futures.ThreadPoolExecutor(C.NCPU) as ex:
        obs = list(ex.map(one, range(len(jobs))))
    mres = None
    if model_ok:
        ml = C.build_ocaml("csplit", [C.COQ + "/CSplit/extracted/csplit.mli", C.COQ + "/CSplit/extracted/csplit.ml"],
                           C.COQ + "/CSplit/driver.ml")
        rc, mres, merr = run_lines(ml, model_split_lines([(u["counts"], n) for u, n in jobs]))
        if len(mres) != len(jobs):
            rep.violation("split model driver failed: %d of %d results" % (len(mres), len(jobs)), {"stderr": merr[-300:]}, no_input=True)
            mres = None
    nviol, nmis, first_mis = 0, 0, None
    for j, ((u, n), (rc, files, diag)) in enumerate(zip(jobs, obs)):
        bad = split_oracle(u["counts"], n, rc, files)
        total = sum(c if c != "o" else 1 for c in u["counts"])
        if bad:
            nviol += 1
            if nviol <= 4:
                rep.violation("-Csmax=%d on unit %s (%d guessed statements, definitions %s): %s" % (
                    n, u["name"], total, " ".join(map(str, u["counts"]))[:160], bad),
                    {"kind": "split", "unit": u["name"], "src": u["src"], "lib": u["lib"], "smax": n, "counts": u["counts"],
                     "files": {k: list(v) for k, v in files.items()}},
                    key="split:%s:total=%d:smax=%d" % (u["name"], total, n))
        if mres is not None:
            want = canon_model(mres[j], u["counts"])
            got = {k: (list(v[0]), list(v[1])) for k, v in files.items()}
            if {k: (list(v[0]), list(v[1])) for k, v in want.items()} != got:
                nmis += 1
                if first_mis is None:
                    first_mis = (u, n, mres[j], got)
    if nmis:
        u, n, ml_line, got = first_mis
        rep.violation("correspondence csplit no longer checks: model and compiler differ on -Csmax=%d, definitions %s: model %s, "
                      "compiler wrote %s; %d of %d observations differ; the oracle found %s" % (
                          n, " ".join(map(str, u["counts"]))[:160], ml_line[:200], str(got)[:200], nmis, len(jobs),
                          "%d property failures (reported above)" % nviol if nviol else "no property failure"),
                      {"kind": "split", "unit": u["name"], "src": u["src"], "lib": u["lib"], "smax": n, "counts": u["counts"], "model": ml_line},
                      no_input=(nviol == 0), key=None if nviol == 0 else "split-mismatch:%s:smax=%d" % (u["name"], n))
    rep.add_cov(split_observations=len(jobs), split_units={u["name"]: sum(c if c != "o" else 1 for c in u["counts"]) for u in units},
                split_validated_against_model=len(jobs) if mres is not None else 0,
                split_rule="for each unit the definition sizes are read from its -Ffm output; `aldor -Csmax=N -Fc unit.ao` (compiler built "
                           "from the current tree) is observed for N in {0,1,2,3, total-2..total+2, 2*total, total/m-1..+1 (m=2..5), every "
                           "piece-closing running cost -1..+1, random}: which file defines which CFn / INIT__k; compared with the extracted "
                           "model; oracle (header/one-file agreement, each function once, order, INIT numbering, limit) on every observation")
    return nviol, nmis
