"""C20, part "hash table" (table.c).

Stages (same as `run` in tools/BUILDER_CONTRACT.md):
  1. proof stage   coq/Props/Properties_C20_table.v  (model coq/Table/Model.v, proofs coq/Table/Facts.v)
  2. correspondence: extracted model (coq/Table/driver.ml) vs. harness/table/h.c linked with the CURRENT
     table.c/store.c/util.c..., on operation histories aimed at the case splits of the proofs
     (hit at chain position 0 / 1 / middle / last, miss, insert at head, every resize threshold,
     forced collisions, constant hash, eqFun == NULL, hashFun == NULL, equal-but-not-identical keys);
     bucket order and stored hashes are compared, not only results.
  3. independent oracle: a naive python dict applied to every result of the implementation
     (the property statement itself: lookup = last value stored for an equal key, drop removes exactly
     that key, size = number of entries, iteration visits each entry exactly once, every entry in
     bucket hash mod buckc).
  4. evidence.
The constants TBL_InitBuckC, TBL_MaxLoad (table.c) and binPrimeArray (util.c) are read from the current
source on every run and handed to the model; the theorems hold for every value of them.
"""
import json, os, re, time
from vlib import common as C

ID = "C20"
PROPS = "Props/Properties_C20_table.v"
TARGETS = ["Props/Properties_C20_table.vo", "Table/Extract.vo"]

MANIFEST_PART = {
    "what": "table.c: tblNew/tblElt/tblSetElt/tblDrop/tblEnlarge/tblSize/tblCopy/tblNMap and the iterator "
            "(tblITER/tblMORE/tblSTEP) modelled function for function over bucket lists (move-to-front, "
            "insert at head, rehash order); Coq theorems for every history, every hash function and every "
            "equality for which (same hash && eq) is symmetric and transitive (collisions, constant hash, "
            "eqFun==NULL included): table_run_refines (outputs = naive association list), "
            "table_lookup_last_stored, table_reachable_inv, table_elt/set/drop_refines, table_size_is_card, "
            "table_iter_once. Tie: extracted model vs C harness on the current sources incl. bucket order; "
            "independent python-dict oracle on every implementation result.",
    "not_modelled": "storage (stoAlloc/stoFree, tblFree, tblFreeDeeply), the info field, tblPrint/"
                    "tblColumnPrint, tblRemoveIf, tblSETKEY/tblSETELT during iteration, C integer widths "
                    "(int x / int nbuckc hold values < 2^31; binPrime index <= 32; cielLg argument <= 2^63)",
}

MODES = [0, 1, 2, 3, 4, 5, 6]
M64 = 1 << 64


# ------------------------------------------------------------------ parameters from the current source
def read_params():
    txt = open(C.SRC + "/table.c").read()
    m1 = re.search(r"#\s*define\s+TBL_InitBuckC\s+(\d+)", txt)
    m2 = re.search(r"#\s*define\s+TBL_MaxLoad\s+(\d+)", txt)
    u = open(C.SRC + "/util.c").read()
    m3 = re.search(r"binPrimeArray\s*\[\s*\d*\s*\]\s*=\s*\{([^}]*)\}", u)
    if not (m1 and m2 and m3):
        return None
    primes = [int(re.sub(r"[uUlL]+$", "", x.strip())) for x in m3.group(1).split(",") if x.strip()]
    return {"initbuckc": int(m1.group(1)), "maxload": int(m2.group(1)), "primes": primes}


# ------------------------------------------------------------------ the python twins of mode_hash / mode_eq
def mode_hash(m, k):
    if m == 0: return k
    if m == 1: return k % 4
    if m == 2: return 42
    if m == 3: return (k // 8) * 7919 + 3
    if m == 4: return (k * 1000003) % M64
    if m == 5: return k // 4
    return (k % 16) * 4294967296 + 5


def mode_class(m, k):
    """Equivalence class of a key under the equality the table is given in mode m."""
    if m == 3: return k // 8
    if m == 5: return k // 4
    return k


# ------------------------------------------------------------------ the independent oracle
class Oracle:
    """Naive finite map.  check(op, implementation_output) returns None or a description of how the
    implementation's answer contradicts the property."""

    def __init__(self):
        self.mode = 0
        self.d = {}          # class -> [first stored key, elt]
        self.cov = {}

    def ev(self, k):
        self.cov[k] = self.cov.get(k, 0) + 1

    def check(self, line, out):
        w = line.split()
        if not w:
            return None
        op = w[0]
        if op == "new":
            self.mode = int(w[1]); self.d = {}
            return None if out == "ok" else "new: %r" % out
        m = self.mode
        if op == "set":
            k, e = int(w[1]), int(w[2]); c = mode_class(m, k)
            if c in self.d:
                self.d[c][1] = e; self.ev("set_existing")
            else:
                self.d[c] = [k, e]; self.ev("set_new")
            return None if out == "= %d" % e else "tblSetElt(%d,%d) returned %r" % (k, e, out)
        if op == "get":
            k, dflt = int(w[1]), int(w[2]); c = mode_class(m, k)
            want = self.d[c][1] if c in self.d else dflt
            self.ev("get_hit" if c in self.d else "get_miss")
            return None if out == "= %d" % want else \
                "tblElt(%d) returned %r, last value stored for an equal key is %s" % (
                    k, out, want if c in self.d else "none (default %d)" % dflt)
        if op == "drop":
            k = int(w[1]); c = mode_class(m, k)
            self.ev("drop_hit" if c in self.d else "drop_miss")
            self.d.pop(c, None)
            return None if out == "ok" else "drop: %r" % out
        if op == "size":
            return None if out == "= %d" % len(self.d) else \
                "tblSize returned %r, the table has %d entries" % (out, len(self.d))
        if op in ("copy", "nmap"):
            if op == "nmap":
                for v in self.d.values():
                    v[1] += 1
            return None if out == "ok" else "%s: %r" % (op, out)
        if op == "iter":
            if not out.startswith("iter"):
                return "iteration: %r" % out
            got = sorted(tuple(int(x) for x in p.split("=")) for p in out.split()[1:])
            want = sorted((v[0], v[1]) for v in self.d.values())
            self.ev("iter_empty" if not want else "iter")
            if got != want:
                return "iteration visited %s, the entries are %s" % (_short(got), _short(want))
            return None
        if op == "dump":
            return self.check_dump(out)
        return "unknown op %r" % line

    def check_dump(self, out):
        parts = [p.strip() for p in out.split("|")]
        h = parts[0].split()
        if len(h) != 3 or h[0] != "dump":
            return "dump: %r" % out[:80]
        count, buckc = int(h[1]), int(h[2])
        ents = []
        for p in parts[1:-1]:
            idx, rest = p.split(":", 1)
            for s in rest.split():
                ke, hh = s.split("#"); k, e = ke.split("=")
                k, e, hh = int(k), int(e), int(hh)
                if hh != mode_hash(self.mode, k):
                    return "stored hash %d of key %d is not hash(key)=%d" % (hh, k, mode_hash(self.mode, k))
                if hh % buckc != int(idx):
                    return "key %d (hash %d) sits in bucket %s of %d, not in hash mod buckc = %d" % (
                        k, hh, idx, buckc, hh % buckc)
                ents.append((k, e))
        if count != len(self.d):
            return "count field %d, the table has %d entries" % (count, len(self.d))
        want = sorted((v[0], v[1]) for v in self.d.values())
        if sorted(ents) != want:
            return "buckets hold %s, the entries are %s" % (_short(sorted(ents)), _short(want))
        return None


def _short(l):
    s = str(l)
    return s if len(s) < 300 else s[:300] + "..."


def parse_dump(out):
    """-> (count, buckc, {bucket index: [(key, elt, hash)...]})"""
    parts = [p.strip() for p in out.split("|")]
    h = parts[0].split()
    b = {}
    for p in parts[1:-1]:
        idx, rest = p.split(":", 1)
        b[int(idx)] = [tuple(int(x) for x in re.split("[=#]", s)) for s in rest.split()]
    return int(h[1]), int(h[2]), b


# ------------------------------------------------------------------ history generators
def new_line(mode, P):
    return "new %d %d %d %s" % (mode, P["initbuckc"], P["maxload"], ",".join(map(str, P["primes"])))


def thresholds(P, upto):
    """entry counts at which tblSetElt calls tblEnlarge, following the code: count > maxload*buckc."""
    res, bc = [], P["initbuckc"]
    while True:
        th = P["maxload"] * bc
        if th + 1 > upto:
            break
        res.append(th + 1)
        lg, p = 0, 1
        while bc > p:
            lg += 1; p <<= 1
        if lg + 1 >= len(P["primes"]):
            break
        nb = P["primes"][lg + 1]
        if nb <= bc:
            break
        bc = nb
    return res


def keys_for(mode, rng, n, spread):
    """n distinct-class keys for this mode."""
    if mode == 3:
        return [8 * c + rng.randrange(8) for c in rng.sample(range(spread), n)]
    if mode == 5:
        return [4 * c + rng.randrange(4) for c in rng.sample(range(spread), n)]
    return rng.sample(range(spread), n)


def alias(mode, rng, k):
    """a key equal to k under the mode's equality (not necessarily identical)."""
    if mode == 3: return (k // 8) * 8 + rng.randrange(8)
    if mode == 5: return (k // 4) * 4 + rng.randrange(4)
    return k


def gen_small(rng, P, mode, nops):
    """few keys, every op followed by a dump: chain positions, misses, iteration."""
    univ = rng.choice([3, 6, 12, 40])
    ks = keys_for(mode, rng, univ, rng.choice([univ, 4 * univ, 1000]))
    L = [new_line(mode, P)]
    if rng.random() < 0.3:
        L += [rng.choice(["iter", "size", "dump", "copy", "nmap", "drop %d" % ks[0], "get %d -1" % ks[0]])]
    for _ in range(nops):
        r = rng.random(); k = alias(mode, rng, rng.choice(ks))
        if r < 0.40: L.append("set %d %d" % (k, rng.randrange(-5, 1000)))
        elif r < 0.62: L.append("get %d %d" % (k, rng.choice([-1, 0, 77])))
        elif r < 0.84: L.append("drop %d" % k)
        elif r < 0.88: L.append("size")
        elif r < 0.93: L.append("iter")
        elif r < 0.96: L.append("copy")
        else: L.append("nmap")
        L.append("dump")
    return L


def gen_chain(rng, P, mode, n):
    """one long collision chain; hit every position (head, second, middle, last), then drop them."""
    ks = keys_for(mode, rng, n, max(n, 64))
    L = [new_line(mode, P)] + ["set %d %d" % (k, i) for i, k in enumerate(ks)] + ["dump"]
    for _ in range(3 * n):
        k = alias(mode, rng, rng.choice(ks)); r = rng.random()
        if r < 0.35: L.append("get %d -1" % k)
        elif r < 0.55: L.append("set %d %d" % (k, rng.randrange(1000)))
        elif r < 0.85: L.append("drop %d" % k)
        else: L.append("set %d %d" % (k, rng.randrange(1000)))
        L.append("dump")
    L += ["iter", "size"]
    return L


def gen_growth(rng, P, mode, upto, dense):
    """grow across every resize threshold <= upto; dumps just before / after each crossing; lookups,
    re-stores and drops in between (so count hovers around a threshold and crosses it again)."""
    ths = set(thresholds(P, upto))
    ks = keys_for(mode, rng, upto, 4 * upto)
    L = [new_line(mode, P)]
    live = []
    n = 0
    i = 0
    while i < len(ks):
        k = ks[i]; i += 1
        near = (n + 1 in ths) or (n in ths) or (n + 2 in ths)
        if near:
            L.append("dump")
        L.append("set %d %d" % (k, i)); live.append(k); n += 1
        if near:
            L += ["dump", "size"]
            if n in ths and rng.random() < 0.7 and len(live) > 3:
                # hover: drop two, store them again -> crosses the same count twice
                a, b = live.pop(rng.randrange(len(live))), live.pop(rng.randrange(len(live)))
                L += ["drop %d" % alias(mode, rng, a), "drop %d" % b, "size",
                      "set %d 1" % a, "set %d 2" % b, "dump"]
                live += [a, b]
        if rng.random() < dense:
            j = rng.choice(live); r = rng.random()
            if r < 0.5: L.append("get %d -1" % alias(mode, rng, j))
            elif r < 0.7: L.append("set %d %d" % (alias(mode, rng, j), rng.randrange(1000)))
            elif r < 0.8: L.append("get %d -7" % (4 * upto * 8 + rng.randrange(100)))   # absent
            elif r < 0.9 and len(live) > 1:
                live.remove(j); n -= 1; L.append("drop %d" % j)
            else: L.append("drop %d" % (4 * upto * 8 + rng.randrange(100)))              # absent
    L += ["iter", "size", "dump"]
    return L


def gen_random(rng, P, mode, nops, univ):
    ks = keys_for(mode, rng, univ, 3 * univ)
    L = [new_line(mode, P)]
    for i in range(nops):
        r = rng.random(); k = alias(mode, rng, rng.choice(ks))
        if r < 0.45: L.append("set %d %d" % (k, rng.randrange(10 ** 6)))
        elif r < 0.70: L.append("get %d -1" % k)
        elif r < 0.93: L.append("drop %d" % k)
        elif r < 0.95: L.append("size")
        elif r < 0.96: L.append("iter")
        elif r < 0.965: L.append("copy")
        elif r < 0.97: L.append("nmap")
        else: L.append("dump")
    L += ["size", "iter", "dump"]
    return L


def edge_histories(P):
    """the "malformed" stream: uses at the edge of the interface (empty table, absent keys, the same
    key over and over, negative / zero values, the NULL-like element 0)."""
    H = []
    for mode in MODES:
        nl = new_line(mode, P)
        H.append([nl, "iter", "size", "dump", "get 0 -1", "drop 0", "copy", "nmap", "iter", "dump"])
        H.append([nl, "set 0 0", "get 0 -1", "set 0 0", "dump", "drop 0", "drop 0", "get 0 5", "dump", "iter"])
        H.append([nl] + ["set 5 %d" % i for i in range(50)] + ["size", "dump", "drop 5", "size", "dump"])
        H.append([nl, "set 1 -1", "set 2 -2", "nmap", "get 1 9", "get 2 9", "copy", "drop 1", "iter", "dump"])
    return H


# ------------------------------------------------------------------ running
def run_script(exe, lines, timeout=600):
    rc, out, err = C.run([exe], input="\n".join(lines) + "\n", timeout=timeout)
    return rc, out.split("\n")[:-1] if out.endswith("\n") else out.split("\n"), err


def first_problem(lines, impl_out, model_out, rc):
    """index of the first line where implementation and model differ or the oracle objects;
    returns (index, kind, text) or None."""
    orc = Oracle()
    n = len(lines)
    for i in range(n):
        io = impl_out[i] if i < len(impl_out) else None
        if io is None:
            return i, "crash", "implementation produced no answer (exit status %s)" % rc
        bad = orc.check(lines[i], io)
        if bad:
            return i, "oracle", bad
        if model_out is not None:
            mo = model_out[i] if i < len(model_out) else None
            if mo != io:
                return i, "model", "implementation %r, model %r" % (_short(io), _short(mo))
    return None


def shrink(hexe, mexe, lines, deadline):
    """ddmin over the operation lines (the `new` line stays); keeps `some problem exists`."""
    def bad(ls):
        rc, io, _ = run_script(hexe, ls, 5)
        rc2, mo, _ = run_script(mexe, ls, 20)
        return first_problem(ls, io, mo, rc) is not None
    head, ops = lines[0], lines[1:]
    # cut after the first problem first
    rc, io, _ = run_script(hexe, lines, 20)
    _, mo, _ = run_script(mexe, lines, 120)
    fp = first_problem(lines, io, mo, rc)
    if fp:
        ops = ops[:fp[0]]
    n = 2
    while len(ops) >= 2 and time.time() < deadline:
        chunk = max(1, len(ops) // n)
        reduced = False
        for s in range(0, len(ops), chunk):
            cand = ops[:s] + ops[s + chunk:]
            if cand and bad([head] + cand):
                ops = cand; n = max(n - 1, 2); reduced = True
                break
        if not reduced:
            if chunk == 1:
                break
            n = min(len(ops), 2 * n)
    return [head] + ops


def report_problem(rep, P, hexe, mexe, lines, tag):
    """A mismatch or an oracle complaint on history `lines`: shrink, then decide between a violation of
    the property (oracle objects to the implementation) and model drift."""
    small = shrink(hexe, mexe, lines, time.time() + 25)
    rc, io, err = run_script(hexe, small, 10)
    _, mo, _ = run_script(mexe, small, 60)
    fp = first_problem(small, io, mo, rc)
    if fp is None:           # shrinking lost it (should not happen): report the original
        small = lines
        rc, io, err = run_script(hexe, small, 20); _, mo, _ = run_script(mexe, small, 120)
        fp = first_problem(small, io, mo, rc)
        if fp is None:
            return
    # the oracle alone, on the implementation's answers
    orc_fp = first_problem(small, io, None, rc)
    obj = {"part": "table", "history": small, "params": P, "implementation": io[-6:], "model": mo[-6:],
           "first_problem": {"line": fp[0], "kind": fp[1], "what": fp[2]}, "found_by": tag}
    if orc_fp is not None:
        obj["first_problem"] = {"line": orc_fp[0], "kind": orc_fp[1], "what": orc_fp[2]}
        rep.violation("table.c: %s (history of %d operations)" % (orc_fp[2][:160], len(small) - 1), obj,
                      key="table:%s" % re.sub(r"-?\d+", "N", orc_fp[2])[:60])
    else:
        # the implementation still satisfies the map properties on this history; look further with the
        # oracle on the other streams happens in the caller; here: the tie is broken.
        rep.violation("correspondence table (coq/Table/Model.v vs table.c) no longer checks: %s" % fp[2][:160],
                      obj, no_input=True)


def correspond(rep, tier, P, state):
    t0 = time.time()
    files = C.makefile_am_sources("libport_a_SOURCES") + C.makefile_am_sources("libgen_a_SOURCES")
    hexe = C.build_harness("table", "table/h.c", files)
    mexe = C.build_ocaml("table_model_drv", [C.COQ + "/Table/extracted/table_model.mli",
                                             C.COQ + "/Table/extracted/table_model.ml"],
                         C.COQ + "/Table/driver.ml")
    rng = C.rng("c20-table")
    quick = tier == "quick"
    H = []        # (tag, lines)
    # corpus first
    cdir = C.VERIF + "/corpus/C20"
    if os.path.isdir(cdir):
        for f in sorted(os.listdir(cdir)):
            if f.startswith("table-") and f.endswith(".json"):
                try:
                    o = json.load(open(os.path.join(cdir, f)))
                    h = o["history"]
                    h[0] = new_line(int(h[0].split()[1]), P)
                    H.append(("corpus:" + f, h))
                except Exception:
                    pass
    for h in edge_histories(P):
        H.append(("edge", h))
    for mode in MODES:
        for _ in range(12 if quick else 120):
            H.append(("small", gen_small(rng, P, mode, rng.choice([10, 30, 60]))))
        for _ in range(3 if quick else 25):
            H.append(("chain", gen_chain(rng, P, mode, rng.choice([2, 3, 5, 9, 17]))))
    growth = [(0, 2700), (4, 1400), (3, 400), (1, 170), (2, 80), (5, 330), (6, 170)] if quick else \
             [(0, 45000), (4, 21000), (4, 11000), (3, 5200), (1, 2600), (2, 700), (5, 5200), (6, 1300), (0, 2600)]
    for mode, upto in growth:
        H.append(("growth", gen_growth(rng, P, mode, upto, 0.5 if upto < 20000 else 0.2)))
    for mode in MODES:
        for _ in range(1 if quick else 6):
            H.append(("random", gen_random(rng, P, mode, 600 if quick else 12000,
                                           rng.choice([30, 200, 900]) if quick else rng.choice([50, 500, 5000]))))
    # one process per side for everything
    script = [l for _, h in H for l in h]
    rc, io, err = run_script(hexe, script, 200 if quick else 1500)
    rc2, mo, err2 = run_script(mexe, script, 1500)
    state["ran"] = True
    nops = len(script)
    cov = {}
    kinds = {}
    problems = 0
    pos = 0
    enlarge = {}
    hitpos = {}
    for tag, h in H:
        seg_io, seg_mo = io[pos:pos + len(h)], mo[pos:pos + len(h)]
        pos += len(h)
        kinds[tag.split(":")[0]] = kinds.get(tag.split(":")[0], 0) + 1
        fp = first_problem(h, seg_io, seg_mo, rc)
        if fp is not None:
            problems += 1
            if problems <= 3:
                report_problem(rep, P, hexe, mexe, h, tag)
            continue
        # boundary events, measured on the implementation's dumps
        prev = None
        lastbc = None
        mode = int(h[0].split()[1])
        for l, o in zip(h, seg_io):
            w = l.split()
            if prev is not None and w[0] in ("get", "set", "drop"):
                k = int(w[1]); hh = mode_hash(mode, k); ch = prev[2].get(hh % prev[1], [])
                idx = [j for j, s in enumerate(ch) if mode_class(mode, s[0]) == mode_class(mode, k)]
                if idx:
                    j = idx[0]
                    where = "head" if j == 0 else ("last" if j == len(ch) - 1 else ("second" if j == 1 else "middle"))
                    if j == 1 and len(ch) == 2:
                        where = "second=last"
                    hitpos["%s_hit_%s" % (w[0], where)] = hitpos.get("%s_hit_%s" % (w[0], where), 0) + 1
                else:
                    e = "%s_miss_%s" % (w[0], "emptychain" if not ch else "chain")
                    hitpos[e] = hitpos.get(e, 0) + 1
            if w[0] == "dump":
                cur = parse_dump(o)
                if lastbc is not None and cur[1] != lastbc:
                    e = "%d->%d" % (lastbc, cur[1]); enlarge[e] = enlarge.get(e, 0) + 1
                prev = cur; lastbc = cur[1]
            elif w[0] in ("copy", "nmap", "new"):
                prev = None
            elif prev is not None and w[0] in ("get", "set", "drop"):
                prev = None      # state changed without a dump: position unknown until the next dump
    orc = Oracle()
    for l, o in zip(script, io):
        orc.check(l, o)
    if len(io) < nops and problems == 0:
        rep.violation("table harness stopped after %d of %d operations (exit status %s): %s" % (
            len(io), nops, rc, err[-200:]), {"part": "table", "stderr": err[-2000:]}, no_input=True)
    rep.add_cov(evaluations=nops, traces_validated_against_impl=len(H) - problems,
                distinct_nontrivial=len({tuple(h[1:]) for _, h in H}))
    rep.add_cov(table={
        "histories": len(H), "history_kinds": kinds, "operations": nops,
        "operation_mix": orc.cov,
        "resize_events_seen (buckc old->new, between two dumps)": enlarge,
        "resize_thresholds_in_source_order": thresholds(P, 10 ** 6),
        "chain_position_events (from the dump before the op)": hitpos,
        "modes": {"0": "hashFun=NULL,eqFun=NULL", "1": "k mod 4", "2": "constant hash",
                  "3": "equal-but-not-identical keys (k/8)", "4": "multiplicative spread", "5": "eqFun=NULL, h=k/4",
                  "6": "hashes differing only above bit 32"},
        "parameters_read_from_source": {"TBL_InitBuckC": P["initbuckc"], "TBL_MaxLoad": P["maxload"],
                                        "binPrimeArray": P["primes"]},
        "compared": "every output line incl. full bucket dumps (bucket index, chain order, stored hash)",
        "mismatching_histories": problems,
        "seconds": round(time.time() - t0, 1)})
    rep.add_cov(samples=[{"part": "table", "history": h[:8], "kind": tag} for tag, h in H[len(H) // 2:len(H) // 2 + 2]])
    rep.add_cov(rule="table: a history counts when all its output lines (results, iteration order, bucket dumps) "
                     "agree between C and extracted model AND the python dict oracle accepts every C answer")
    return problems


def run_part(rep, tier):
    P = read_params()
    if P is None:
        rep.violation("table.c / util.c: TBL_InitBuckC, TBL_MaxLoad or binPrimeArray not found in the current source",
                      {"part": "table"}, no_input=True)
        return
    state = {"ran": False}
    if min(P["primes"] + [P["initbuckc"]]) <= 0:
        # a hypothesis of the theorems (positive bucket counts) is false for the current source
        try:
            correspond(rep, tier, P, state)
        except Exception as e:
            rep.notes.append("table: correspondence under non-positive bucket count: %r" % e)
        rep.violation("table.c/util.c: bucket count parameter not positive (TBL_InitBuckC=%d, binPrimeArray=%s): "
                      "h %% buckc is undefined" % (P["initbuckc"], P["primes"]),
                      {"part": "table", "params": P}, key="table:nonpositive-buckc")
        return

    def searcher(log):
        correspond(rep, tier, P, state)

    ok = C.proof_stage(rep, ID, TARGETS, PROPS, searcher)
    if not state["ran"]:
        correspond(rep, tier, P, state)
    rep.assume(
        "table: extraction (ExtrOcamlBasic only) and coq/Table/driver.ml (decimal <-> Z conversion only) are trusted",
        "table: harness/table/h.c and its C twins of mode_hash/mode_eq (checked against the model on every run)",
        "table: theorems are about coq/Table/Model.v; the tie to table.c is the correspondence (bucket-exact) on the "
        "generated histories, not a proof about C",
        "table: not modelled: " + MANIFEST_PART["not_modelled"])


def replay_part(obj):
    """re-run one replay (the `replay` object of a replay file of this part); 0 = passes now, 1 = still fails."""
    P = read_params() or obj.get("params")
    files = C.makefile_am_sources("libport_a_SOURCES") + C.makefile_am_sources("libgen_a_SOURCES")
    hexe = C.build_harness("table", "table/h.c", files)
    mexe = C.build_ocaml("table_model_drv", [C.COQ + "/Table/extracted/table_model.mli",
                                             C.COQ + "/Table/extracted/table_model.ml"],
                         C.COQ + "/Table/driver.ml")
    h = list(obj["history"])
    h[0] = new_line(int(h[0].split()[1]), P)
    rc, io, _ = run_script(hexe, h, 300)
    _, mo, _ = run_script(mexe, h, 300)
    fp = first_problem(h, io, mo, rc)
    print("table replay:", "no problem" if fp is None else "line %d (%s): %s [%s]" % (fp[0], h[fp[0]], fp[2], fp[1]))
    return 0 if fp is None else 1
