"""C01 -- Programs produce the result the language defines.

Oracle: the MiniAldor reference semantics in Coq (coq/Mini, written from the Aldor User
Guide and the libaldor sources), proved well defined on the whole generated family
(Props/Properties_C01.v).  Decision: for each generated program, the compiler built from
/repo's CURRENT sources must print the oracle's text and end with the oracle's status class,
both through `-ginterp` and through the C back end + gcc + runtime library.
"""
import collections, concurrent.futures, itertools, json, os, re, shutil, time
from vlib import common as C
from props import mini

ID = "C01"
LEVEL = "translation_validation"
MANIFEST = {
    "level_text": "Differential run against a machine-checked reference semantics: the expected output and "
                  "exit status class of every generated program is computed by a Coq evaluator of the same "
                  "abstract program (extracted), proved total, fuel-independent and never stuck on the whole "
                  "unbounded generated family (eval_fuel_mono, typecheck_sound, gen_well_typed, "
                  "gen_terminates, expected_defined).  The equality compiler = oracle is sampled, not proved.",
    "level_note": "Not a proof of the compiler (scan..genfoam, interpreter, C back end are not modelled).  "
                  "Trusted: Coq kernel, extraction (ExtrOcamlBasic), OCaml, the renderer Print.v (the concrete "
                  "text denotes the abstract program), the reading of the User Guide / libaldor sources encoded "
                  "in Eval.v.  gen_well_typed / gen_terminates hold because gen filters its candidates by the "
                  "checker and the evaluator; the retry rate is measured per run.  Quick tier links the "
                  "pre-built libaldor/libfoam of /repo.",
    "technique": "Coq proof of a reference evaluator + correspondence (extracted OCaml oracle vs aldor built "
                 "from the current sources, two execution routes), model-level shrinking of disagreements",
    "design_ref": "DESIGN.md section 3 (L3 MiniAldor), section 4 / C01",
}

# corpus entries that reproduce confirmed compiler defects (reported to the lead; they only
# stop failing the run when known_findings.json lists the key)
CORPUS_KEYS = {
    "qualified-literal-toplevel-if-while": "C01 corpus qualified-literal-toplevel-if-while",
    "qualified-literal-toplevel-while-if": "C01 corpus qualified-literal-toplevel-while-if",
    "toplevel-shortcircuit-skipped-first-use": "C01 corpus toplevel-shortcircuit-skipped-first-use",
    "return-in-condition-sequence": "C01 corpus return-in-condition-sequence",
    "try-under-toplevel-if": "C01 corpus try-under-toplevel-if",
    "if-inside-list-bracket": "C01 corpus if-inside-list-bracket",
    "list-import-lost-in-toplevel-if": "C01 corpus list-import-lost-in-toplevel-if",
    "iterate-out-of-try": "C01 corpus iterate-out-of-try",
    "exit-condition-shortcircuit-skipped-first-use": "C01 corpus exit-condition-shortcircuit-skipped-first-use",
    "and-of-if-with-shortcircuit-branch": "C01 corpus and-of-if-with-shortcircuit-branch",
    "catch-in-callee-then-throw-to-caller": "C01 corpus catch-in-callee-then-throw-to-caller",
    "union-case-in-if-in-toplevel-while": "C01 corpus union-case-in-if-in-toplevel-while",
    "two-lambdas-one-capturing-c-backend": "C01 corpus two-lambdas-one-capturing-c-backend",
    "relt-unimplemented-in-interpreter": "C01 corpus relt-unimplemented-in-interpreter",
}

_uniq = itertools.count()
SIZES_QUICK = [4, 8, 12, 18, 25]
SIZES_THOROUGH = [4, 8, 12, 18, 25, 35, 50]


def _routes(aldor, p, d):
    """Run one program through both routes; list of (route_result, agrees)."""
    res = []
    for fn in (mini.run_interp, mini.run_c):
        r = fn(aldor, p["src"], d)
        ok = (r["out"] == p["expect_out"] and r["status"] == p["expect_status"])
        res.append((r, ok))
    shutil.rmtree(d, ignore_errors=True)
    return res


def _kind(r, expect_status):
    """Coarse failure signature of one route's result."""
    txt = r["out"] + r.get("err", "") + r.get("compile_out", "")
    if r["rc"] == 124:
        return "timeout"
    if "segmentation violation" in txt or r["rc"] in (-11, 139):
        return "crash"
    m = re.search(r"\((Fatal Error|Error)\) ([^\n]*)", txt)
    if m and (r["status"] == "compile-error" or "#1 (" in r["out"]):
        msg = re.sub(r"`[^']*'", "`..'", m.group(2))
        msg = re.sub(r"\d+", "N", msg)
        return "rejected: " + msg[:70]
    if r["status"] != expect_status:
        return "status %s instead of %s" % (r["status"], expect_status)
    return "wrong output"


# A recorded defect is identified by its call site where one exists: a generated program that reaches the SAME site
# (here: gcc's message for the closure environment that genc does not declare) is that defect, not a new one.
SITE_KEYS = [
    (re.compile(r"error: 'e0' undeclared \(first use in this function\)"), "C01 site:genc-closure-env-e0-undeclared"),
]


def _site_key(bad):
    keys = set()
    for r in bad:
        hit = [k for rx, k in SITE_KEYS if rx.search(r.get("err", "") + r.get("out", ""))]
        if not hit:
            return None
        keys.update(hit)
    return keys.pop() if len(keys) == 1 else None


def _signature(bad, expect_status=None):
    return "; ".join(sorted("%s: %s" % (r["route"], _kind(r, expect_status or "?")) for r in bad))


def _replay_obj(p, bad, how):
    return {"how_to_replay": how, "seed": p.get("seed"), "size": p.get("size"), "path": p.get("path"),
            "corpus": p.get("corpus"), "src": p["src"], "expect_out": p["expect_out"],
            "expect_status": p["expect_status"],
            "observed": [{"route": r["route"], "status": r["status"], "rc": r["rc"],
                          "out": r["out"][:4000], "err": r["err"][:1000]} for r in bad]}


def searcher_factory(rep):
    def searcher(log):
        """The theorems speak about the oracle.  If they stop checking, look for a generated
        program on which the oracle itself is not defined (ill-typed, stuck, undefined, out of
        fuel) and report it."""
        try:
            mini.build(rebuild_coq=False)
            rs = mini.batch(["raw %d %d" % (s, 12) for s in range(200)])
        except Exception:
            return
        for r in rs:
            if r.get("typed") is not True or r.get("result") != "done":
                rep.violation("generated program outside the defined subset (oracle undefined): typed=%s result=%s"
                              % (r.get("typed"), r.get("result")),
                              {"seed": r["seed"], "size": 12, "src": r["src"], "bad_items": r.get("bad_items")})
                return
    return searcher


def run(rep, tier):
    t0 = time.time()
    ok = C.proof_stage(rep, ID, ["Props/Properties_C01.vo", "Mini/Extract.vo"], "Props/Properties_C01.v",
                       searcher_factory(rep))
    if not ok:
        return
    aldor = C.build_compiler()
    mini.build(rebuild_coq=False)
    base = C.scratch("c01")
    t_build = time.time() - t0

    # ---- 1. corpus (minimised past disagreements) first
    names = mini.batch(["corpus"])[0]["names"]
    corp = mini.batch(["corpus %s" % n for n in names])
    n_corpus_ok = 0
    for p in corp:
        if p.get("typed") is not True or p.get("result") != "done":
            rep.violation("corpus program %s is outside the oracle's domain" % p.get("corpus"), p, no_input=True)
            continue
        res = _routes(aldor, p, "%s/corpus-%s" % (base, p["corpus"]))
        bad = [r for r, okk in res if not okk]
        if bad:
            rep.violation("corpus program %s: %s prints/ends differently from the language definition"
                          % (p["corpus"], "+".join(r["route"] for r in bad)),
                          _replay_obj(p, bad, "./check C01 --replay <this file>"),
                          key=CORPUS_KEYS.get(p["corpus"]))
        else:
            n_corpus_ok += 1

    # ---- 2. generated family
    rng = C.rng("c01")
    n = 150 if tier == "quick" else 5000
    sizes = SIZES_QUICK if tier == "quick" else SIZES_THOROUGH
    jobs = [(rng.randrange(1, 2 ** 40), rng.choice(sizes)) for _ in range(n)]
    progs = mini.batch(["gen %d %d" % (s, z) for s, z in jobs])
    t_gen = time.time() - t0 - t_build

    feat = collections.Counter()
    lits = collections.Counter()
    tries = collections.Counter()
    size_hist = collections.Counter()
    nodes = []
    out_lines = 0
    for p in progs:
        feat.update(p["features"])
        lits.update(p["literals"])
        tries[p["tries"]] += 1
        size_hist[p["size"]] += 1
        nodes.append(p["nodes"])
        out_lines += p["expect_out"].count("\n")

    def one(p):
        return p, _routes(aldor, p, "%s/s%d" % (base, p["seed"]))
    mismatches = []
    agree = collections.Counter()
    with concurrent.futures.ThreadPoolExecutor(C.NCPU) as ex:
        for p, res in ex.map(one, progs):
            bad = [r for r, okk in res if not okk]
            for r, okk in res:
                if okk:
                    agree[r["route"]] += 1
            if bad:
                mismatches.append((p, bad))
    t_run = time.time() - t0 - t_build - t_gen

    # ---- 3. group the disagreements into families (same failure signature on the same routes),
    #         shrink ONE representative per family, report one violation per family
    fams = collections.OrderedDict()
    for p, bad in mismatches:
        fams.setdefault(_signature(bad, p["expect_status"]), []).append((p, bad))
    shrunk = 0
    for sig, members in fams.items():
        members.sort(key=lambda pb: pb[0]["nodes"])
        p, bad = members[0]
        routes = [r["route"] for r in bad]
        seeds = [(q["seed"], q["size"]) for q, _ in members]
        if shrunk >= (3 if tier == "quick" else 8):
            rep.violation("generated programs (%d, e.g. seed %d size %d, not shrunk): %s; family %s"
                          % (len(members), p["seed"], p["size"], "+".join(routes), sig),
                          dict(_replay_obj(p, bad, "./check C01 --replay <this file>"), family=sig, members=seeds),
                          key=_site_key(bad))
            continue

        def still_fails(q, routes=routes, sig=sig, st=p["expect_status"]):
            # the candidate must fail in the SAME way (same signature), otherwise shrinking
            # drifts from one defect to another
            if q["expect_status"] != st:
                return False
            d = "%s/shr-%d" % (base, next(_uniq))
            try:
                b = []
                for rt in routes:
                    r = (mini.run_interp if rt == "interp" else mini.run_c)(aldor, q["src"], d)
                    if r["out"] != q["expect_out"] or r["status"] != q["expect_status"]:
                        b.append(r)
                return bool(b) and _signature(b, st) == sig
            finally:
                shutil.rmtree(d, ignore_errors=True)
        path, small = mini.shrink(p["seed"], p["size"], still_fails,
                                  budget_s=((60 if not shrunk else 20) if tier == "quick" else 900))
        shrunk += 1
        res = _routes(aldor, small, "%s/final-%d" % (base, p["seed"]))
        bad2 = [r for r, okk in res if not okk]
        if not bad2:            # shrinking went astray (flaky run): report the original program
            small, path, bad2 = dict(p), [], bad
        small["path"] = path
        rep.violation("generated program (seed %d size %d, shrunk to %s nodes; %d program(s) of this family): "
                      "%s disagree(s) with the language definition; family %s"
                      % (p["seed"], p["size"], small.get("nodes"), len(members), "+".join(routes), sig),
                      dict(_replay_obj(small, bad2, "./check C01 --replay <this file>"), family=sig, members=seeds),
                      key=_site_key(bad2))

    # ---- 4. evidence
    fallback = sum(v for k, v in tries.items() if k > 5)
    rep.add_cov(evaluations=2 * len(progs) + 2 * len(corp),
                distinct_nontrivial=len({p["src"] for p in progs if p["nodes"] > 10}),
                traces_validated_against_impl=agree["interp"] + agree["c"] + 2 * n_corpus_ok,
                rule="stdout text and exit status class (ok / fail) of `aldor -ginterp` and of the gcc-built "
                     "executable equal the reference evaluator's (expect_out, expect_status)",
                samples=[{"seed": p["seed"], "size": p["size"], "nodes": p["nodes"],
                          "features": p["features"][:8]} for p in progs[:12]],
                input_distribution={
                    "programs": len(progs), "corpus_programs": len(corp),
                    "routes": {"interp_agree": agree["interp"], "c_agree": agree["c"]},
                    "requested_size": dict(sorted(size_hist.items())),
                    "nodes": {"min": min(nodes), "max": max(nodes), "mean": round(sum(nodes) / len(nodes), 1)},
                    "expected_output_lines": out_lines,
                    "feature_mix(programs containing)": dict(feat.most_common()),
                    "literal_classes(programs containing)": dict(lits.most_common()),
                    "generator_retries": dict(sorted(tries.items())), "generator_fallbacks": fallback,
                    "literal_style": {"qualified(@)": sum(1 for p in progs if "\nmi(x: " not in p["src"]),
                                      "typed-helper": sum(1 for p in progs if "\nmi(x: " in p["src"])},
                },
                timings_s={"proof+build": round(t_build, 1), "generate": round(t_gen, 1),
                           "compile+run": round(t_run, 1)})
    if fallback * 20 > len(progs):
        rep.violation("the generator fell back on %d of %d seeds: the sampled family has collapsed"
                      % (fallback, len(progs)), {"tries": dict(tries)}, no_input=True)
    rep.assume(
        "Coq extraction (ExtrOcamlBasic only) and the OCaml compiler preserve the meaning of the evaluator",
        "Print.v renders the abstract program faithfully (every operand parenthesised; checked only by the runs)",
        "Eval.v encodes the Aldor User Guide (aldorug/lang*.tex) and libaldor sources (sal_mint.as, sal_int.as, "
        "sal_intcat.as, sal_itools.as, sal_char.as, sal_string.as, sal_segment.as) as cited in its comments",
        "exit status is compared as a class (0 = ok, anything else = fail)",
        "C route: C code generated and compiled now by the compiler built from the current tree, linked against "
        "the PRE-BUILT libaldor.a/libfoam.a and interpreted against the pre-built libaldor.al of /repo "
        "(both tiers; the Aldor-language libraries are not rebuilt by this check)",
        "programs whose result would depend on the unspecified evaluation order of arguments (langfuns.tex:211) "
        "are outside the defined subset (Types.ordered_args) and are not generated",
        "generator avoids the shapes that hit confirmed compiler defects (kept as keyed corpus entries, "
        "tools/MINI_TOOL.md): at file level no loop/try/list operation below an `if` and no `if` inside a loop "
        "(qualified-literal style), no short-circuit and/or; anywhere no `return` inside an operand sequence "
        "and no `if` inside a list bracket",
        "the Box domains / category defaults are ONE fixed template (Print.dom_decls) whose meaning is "
        "hand-derived from langtype.tex:1488-1528; only their uses vary",
        "on a failing ending only stdout up to the failure and the status class are compared; the "
        "interpreter's own stack dump on stdout is cut off (mini.run_interp)",
    )


def replay(path):
    obj = json.load(open(path))
    rp = obj.get("replay", obj)
    aldor = C.build_compiler()
    mini.build()
    if rp.get("corpus"):
        p = mini.batch(["corpus %s" % rp["corpus"]])[0]
    elif rp.get("seed") is not None:
        p = mini.shrink_query(rp["seed"], rp["size"], [rp.get("path") or []])[0]
    else:
        p = rp
    if "src" not in p:
        print("replay: cannot regenerate the program: %s" % p)
        return 2
    res = _routes(aldor, p, C.scratch("c01r") + "/r")
    bad = [r for r, okk in res if not okk]
    print(p["src"])
    print("--- expected (%s)\n%s" % (p["expect_status"], p["expect_out"]))
    for r, okk in res:
        print("--- %s: %s rc=%s %s\n%s" % (r["route"], r["status"], r["rc"], "agrees" if okk else "DISAGREES",
                                        "" if okk else r["out"][:2000]))
    return 1 if bad else 0
