"""C05 -- Saved intermediate forms and separate compilation lose nothing.

Proof (Coq): coq/Foam/{Buf,Syntax,Codec,LibHdr}.v + facts, instantiated at the table and
constants regenerated from the current foam.c/foam.h/cport.h/lib.c/lib.h (coq/Gen/FoamInfo.v):
dec_enc, sintreduce_value, canon_idempotent, hdr_roundtrip, sections_contiguous.

Tie, checked on every run:
  A  generated FOAM trees (aimed at every format/width boundary) through the extracted model
     and through foamToBuffer/foamFrBuffer of the current tree (harness/foam/h.c): same bytes,
     same latch, same decoded tree; independently the property oracle on the C result
     (decode(encode(t)) = t up to the X field and a value-preserving SInt re-expression).
  B  real .ao files (/repo/aldor/lib): the extracted decoder reads the FOAM section, the
     encoder re-writes it: identical bytes, the tree is well-formed and already canonical;
     header read / write identical; every section handed back byte for byte; and the C
     harness decodes / re-encodes the same section to the same tree and bytes.
  C  the real compiler rebuilt from the current tree: -Fc/-Ffm/-Flsp from x.as versus from
     x.ao and from x.fm at -Q0/-Q2/-Q9, .fm -> .fm, run output from source versus from .ao,
     library/client split (against .ao and against a member of an ar archive) versus one unit.
"""
import difflib, hashlib, json, os, re, resource, select, shutil, struct, subprocess, sys, time
import concurrent.futures

from vlib import common as C

sys.path.insert(0, os.path.join(C.VERIF, "tools"))
import foaminfo_gen  # noqa: E402

ID = "C05"
LEVEL = "proof"
MANIFEST = {
    "level_text": "Machine-checked proof (Coq) that the FOAM byte decoder inverts the encoder on every "
                  "well-formed node of any size (up to the documented normal form), that the 31-bit "
                  "re-expression of wide integers denotes the same 64-bit value (SIntMin included), that "
                  "the normal form is idempotent, and that the library header/section table round-trips "
                  "with contiguous sections; the model is tied on every run to the current C code "
                  "(translated table/constants; extracted model versus foamToBuffer/foamFrBuffer on "
                  "generated trees and on the FOAM sections of real .ao files) and the whole-compiler "
                  "statement is checked end to end on generated and corpus programs.",
    "level_note": "Trusted: Coq kernel, extraction (ExtrOcamlBasic only), the OCaml driver's format "
                  "conversions, harness/foam/h.c, the translator tools/foaminfo_gen.py. Not modelled: "
                  "the syme/type/position sections (libPutSymes ...), the .fm text reader/writer and "
                  "archive.c (covered only by the end-to-end comparisons), native<->portable float "
                  "conversion (C19).",
    "technique": "Coq proof of a generic FOAM codec + library header model; translator for foamInfoTable; "
                 "correspondence (extracted OCaml vs C harness on current sources, real .ao files); "
                 "end-to-end differential runs of the rebuilt compiler",
    "design_ref": "DESIGN.md section 4 / C05",
}

GEN_V = os.path.join(C.COQ, "Gen", "FoamInfo.v")
EXTR = os.path.join(C.COQ, "Foam", "extracted")
AO_ROOTS = [C.RB + "/lib", C.REPO + "/lib"]


# ------------------------------------------------------------------ translator

def generate():
    info, text = foaminfo_gen.generate(C.SRC)
    C.write_if_changed(GEN_V, text)
    # the float atoms of the text form are modelled on C19's TextModel, whose parameters (DFloatSprint's
    # statement shape, formats, precisions) are regenerated from the current util.c by props/c19.py
    from props import c19
    C.write_if_changed(os.path.join(C.COQ, c19.GEN_REL), c19.generate())
    return info


# ------------------------------------------------------------------ line-protocol processes

def _unlimit_stack():
    try:
        resource.setrlimit(resource.RLIMIT_STACK, (resource.RLIM_INFINITY, resource.RLIM_INFINITY))
    except (ValueError, OSError):
        pass


class Line:
    """A subprocess that answers one line per line; restarted when it dies."""

    def __init__(self, exe):
        self.exe, self.p, self.crashes = exe, None, 0

    def _start(self):
        self.p = subprocess.Popen([self.exe], stdin=subprocess.PIPE, stdout=subprocess.PIPE,
                                  stderr=subprocess.DEVNULL, text=True, preexec_fn=_unlimit_stack)

    def ask(self, line, timeout=120):
        """Returns the answer line, or None when the process died / timed out (rc in self.last_rc)."""
        if self.p is None or self.p.poll() is not None:
            self._start()
        try:
            self.p.stdin.write(line + "\n")
            self.p.stdin.flush()
        except (BrokenPipeError, OSError):
            self.last_rc = self.p.wait()
            self.p = None
            self.crashes += 1
            return None
        r, _, _ = select.select([self.p.stdout], [], [], timeout)
        if not r:
            self.p.kill()
            self.p.wait()
            self.p, self.last_rc = None, 124
            self.crashes += 1
            return None
        out = self.p.stdout.readline()
        if not out.endswith("\n"):
            self.last_rc = self.p.wait()
            self.p = None
            self.crashes += 1
            return None
        return out[:-1]

    def close(self):
        if self.p is not None and self.p.poll() is None:
            try:
                self.p.stdin.close()
                self.p.wait(timeout=10)
            except Exception:
                self.p.kill()
        self.p = None


_tools = {}


def build_driver():
    if "drv" not in _tools:
        _tools["drv"] = C.build_ocaml("foamdrv", [EXTR + "/foam.mli", EXTR + "/foam.ml"],
                                      os.path.join(C.COQ, "Foam", "driver.ml"))
    return _tools["drv"]


def build_harness():
    if "h" not in _tools:
        files = []
        for v in ("libport_a_SOURCES", "libgen_a_SOURCES", "libstruct_a_SOURCES", "libphase_a_SOURCES"):
            files += C.makefile_am_sources(v)
        files += ["axlcomp.c", "cmdline.c"]
        files = [f for f in dict.fromkeys(files) if f != "foam.c"]     # foam.c is #included by h.c
        _tools["h"] = C.build_harness("foamh", "foam/h.c", files)
    return _tools["h"]


# ------------------------------------------------------------------ trees (Python side: formats only)

def hx(v):
    return ("-%x" % -v) if v < 0 else ("%x" % v)


def unhx(s):
    return -int(s[1:], 16) if s.startswith("-") else int(s, 16)


def hexb(b):
    return b.hex() if b else "-"


def unhexb(s):
    return b"" if s == "-" else bytes.fromhex(s)


def toks_of(node, bdec):
    tag, args = node
    out = ["(", hx(tag)]
    for a in args:
        k = a[0]
        if k == "n":
            out += toks_of(a[1], bdec)
        elif k == "i":
            out.append("i" + hx(a[1]))
        elif k == "b":
            out.append("b" + (str(a[1]) if bdec else hx(a[1])))
        else:
            out.append(k + hexb(a[1]))
    out.append(")")
    return out


def parse_toks(toks, pos, bdec):
    assert toks[pos] == "(", toks[pos:pos + 3]
    tag = unhx(toks[pos + 1])
    pos += 2
    args = []
    while toks[pos] != ")":
        t = toks[pos]
        if t == "(":
            n, pos = parse_toks(toks, pos, bdec)
            args.append(("n", n))
            continue
        k, body = t[0], t[1:]
        if k == "i":
            args.append(("i", unhx(body)))
        elif k == "b":
            args.append(("b", int(body) if bdec else unhx(body)))
        else:
            args.append((k, unhexb(body)))
        pos += 1
    return (tag, args), pos + 1


def count_nodes(node):
    return 1 + sum(count_nodes(a[1]) for a in node[1] if a[0] == "n")


def wrap64(z):
    z &= (1 << 64) - 1
    return z - (1 << 64) if z >= (1 << 63) else z


def is_int32(v):
    return -(1 << 31) <= v < (1 << 31)


class Oracle:
    """The property itself on trees: what a save + load may change and what it may not."""

    def __init__(self, info):
        self.info = info
        t, b = info["tags"], info["bvals"]
        self.SInt, self.BCall, self.Prog = t["FOAM_SInt"], t["FOAM_BCall"], t["FOAM_Prog"]
        self.shl, self.bor, self.neg = b["FOAM_BVal_SIntShiftUp"], b["FOAM_BVal_SIntOr"], b["FOAM_BVal_SIntNegate"]
        self.rows = info["rows"]

    def letter(self, tag, si):
        argf = self.rows[tag][3]
        star = argf.endswith("*")
        core = argf[:-1] if star else argf
        if si < len(core):
            return core[si]
        return core[-1] if star and core else "?"

    def name(self, tag):
        return self.rows[tag][1] if 0 <= tag < len(self.rows) else "tag%d" % tag

    def eval_sint(self, node):
        tag, args = node
        if tag == self.SInt and len(args) == 1 and args[0][0] == "i":
            return args[0][1]
        if tag == self.BCall and args and args[0][0] == "i":
            op = args[0][1]
            vs = [self.eval_sint(a[1]) if a[0] == "n" else None for a in args[1:]]
            if None in vs:
                return None
            if op == self.shl and len(vs) == 2 and 0 <= vs[1] < 64:
                return wrap64(vs[0] << vs[1])
            if op == self.bor and len(vs) == 2:
                return vs[0] | vs[1]
            if op == self.neg and len(vs) == 1:
                return wrap64(-vs[0])
        return None

    def differ(self, orig, back, path="root"):
        """None when `back` is an admissible reading of `orig`, else (where, tagname, letter, why)."""
        tag, args = orig
        if tag == self.SInt and len(args) == 1 and args[0][0] == "i" and not is_int32(args[0][1]):
            v = self.eval_sint(back)
            if v != args[0][1]:
                return (path, "SInt", "w", "re-expressed value %r != %r" % (v, args[0][1]))
            # only 31-bit pieces may appear
            return None
        if back[0] != tag:
            return (path, self.name(tag), "tag", "tag %s became %s" % (self.name(tag), self.name(back[0])))
        if len(back[1]) != len(args):
            return (path, self.name(tag), "argc", "argc %d became %d" % (len(args), len(back[1])))
        for si, (a, b) in enumerate(zip(args, back[1])):
            c = self.letter(tag, si)
            if c == "X":
                continue
            if a[0] == "n":
                if b[0] != "n":
                    return (path, self.name(tag), c, "code argument lost")
                d = self.differ(a[1], b[1], "%s/%s[%d]" % (path, self.name(tag), si))
                if d:
                    return d
            elif a != b:
                return ("%s/%s[%d]" % (path, self.name(tag), si), self.name(tag), c, "%r became %r" % (a, b))
        return None


# ------------------------------------------------------------------ tree generator (the property's domain)

class TreeGen:
    """Trees a compiler could hold: every argument within the meaning of its argf letter.
    Not generated (never built as nodes by the compiler / abort in foamTagFormat): Arb, Rec, TR,
    CFCall, OFCall; Char data is an unsigned byte, every other 'b' argument a (char) value (FOAM_Byte is only
    ever built with 0 and 1); labels only inside a Prog, below its label count."""

    def __init__(self, rng, info, xsf, xdf):
        self.r, self.info = rng, info
        self.rows = info["rows"]
        t = info["tags"]
        self.t = t
        skip = {"Arb", "Rec", "TR", "CFCall", "OFCall", "Prog"}
        self.tags = [i for i, row in enumerate(self.rows) if row[1] not in skip]
        self.leafs = [i for i in self.tags if "C" not in self.rows[i][3] and "L" not in self.rows[i][3]]
        self.label_tags = [i for i in self.tags if "L" in self.rows[i][3]]
        self.xsf, self.xdf = xsf, xdf
        self.nbval = info["bvals"]["FOAM_BVAL_LIMIT"]
        self.nproto = info["protos"].get("FOAM_PROTO_LIMIT", 10)
        self.dist = {}

    def bump(self, k):
        self.dist[k] = self.dist.get(k, 0) + 1

    def pick_int(self, kind):
        r = self.r
        if kind == "i":
            c = [0, 1, 2, 3, 4, 5, 254, 255, 256, 257, 65535, 65536, (1 << 31) - 1]
        elif kind == "w":
            c = [0, 1, -1, 2, 255, 256, (1 << 31) - 1, -(1 << 31), 65536, -65536]
        elif kind == "W":   # SInt data: any long
            c = [0, 5, -7, (1 << 31) - 1, -(1 << 31), 1 << 31, -(1 << 31) - 1, 1 << 32, (1 << 32) + 1,
                 1 << 62, (1 << 62) + 5, (1 << 63) - 1, -(1 << 63), -(1 << 63) + 1, 3 << 31, -(3 << 31),
                 -(1 << 62), 5 << 31, -(5 << 31), (1 << 31) + 1, 12345678901234, -98765432109876,
                 (7 << 62) & ((1 << 63) - 1)]
        elif kind == "h":
            c = [0, 1, 255, 256, 65535, 4660]
        elif kind == "b":
            c = [0, 1, -1, 127, -128, 65, 10]
        else:
            c = [0]
        if r.random() < 0.7:
            return r.choice(c)
        if kind == "W":
            return wrap64(r.getrandbits(64)) >> r.choice([0, 0, 10, 20, 30, 33, 40])
        if kind == "w":
            return r.randrange(-(1 << 31), 1 << 31)
        if kind == "i":
            return r.randrange(0, r.choice([4, 256, 300, 70000, 1 << 31]))
        if kind == "h":
            return r.randrange(0, 65536)
        if kind == "b":
            return r.randrange(-128, 128)
        return 0

    def pick_str(self):
        r = self.r
        n = r.choice([0, 1, 2, 3, 4, 7, 30, 254, 255, 256, 257, 300] if r.random() < 0.5 else [r.randrange(0, 40)])
        self.bump("strlen_%s" % ("ge256" if n >= 256 else "lt256"))
        return bytes(r.choice([34, 92, 10, 9, 32, 40, 41, 59, 200, 255, 1]) if r.random() < 0.2
                     else r.randrange(33, 127) for _ in range(n))

    def pick_bint(self, allow_gap=False):
        r = self.r
        bits = r.choice([0, 1, 15, 16, 17, 31, 32, 33, 48, 63, 64, 65, 100, 200])
        if r.random() < 0.12:
            bits = r.choice([16 * 254, 16 * 255 - 1, 16 * 255, 16 * 511 - 15, 16 * 511, 16 * 600])
        if allow_gap:
            bits = r.choice([16 * 255 + 1, 16 * 256, 16 * 300, 16 * 400, 16 * 510])
        v = 0 if bits == 0 else (1 << (bits - 1)) | r.getrandbits(bits - 1) if bits > 1 else 1
        self.bump("bint_bits_%s" % ("0-64" if bits <= 64 else "65-4080" if bits <= 4080 else "4081-8160" if bits <= 8160 else "gt8160"))
        return -v if r.random() < 0.4 else v

    def arg(self, c, tag, depth, labels, inprog):
        r = self.r
        if c == "t":
            return ("i", r.randrange(0, len(self.rows)))
        if c == "o":
            return ("i", r.randrange(0, self.nbval))
        if c == "p":
            return ("i", r.randrange(0, max(1, self.nproto)))
        if c == "D":
            return ("i", r.randrange(0, 12))
        if c == "b":
            if tag == self.t["FOAM_Char"]:
                # a character is an unsigned byte (FiChar); e.g. (Char 233) as the folder builds it
                return ("i", r.choice([0, 1, 10, 65, 127, 128, 200, 233, 255]) if r.random() < 0.7 else r.randrange(0, 256))
            return ("i", self.pick_int("b"))
        if c == "h":
            return ("i", self.pick_int("h"))
        if c == "w":
            return ("i", self.pick_int("W" if tag == self.t["FOAM_SInt"] else "w"))
        if c == "i":
            return ("i", self.pick_int("i"))
        if c == "L":
            return ("i", r.choice([0, labels - 1, r.randrange(0, labels)]))
        if c == "s":
            return ("s", self.pick_str())
        if c == "n":
            return ("b", self.pick_bint())
        if c == "f":
            return ("f", r.choice(self.xsf))
        if c == "d":
            return ("d", r.choice(self.xdf))
        if c == "C":
            return ("n", self.node(depth - 1, labels, inprog))
        raise ValueError(c)

    def node(self, depth, labels, inprog):
        r = self.r
        if depth <= 0:
            tag = r.choice(self.leafs)
        else:
            pool = self.tags if labels > 0 else [t for t in self.tags if t not in self.label_tags]
            tag = r.choice(pool)
            if labels > 0 and r.random() < 0.3:
                tag = r.choice(self.label_tags)
        return self.mk(tag, depth, labels, inprog)

    def mk(self, tag, depth, labels, inprog):
        r = self.r
        name, argc, argf = self.rows[tag][1], self.rows[tag][2], self.rows[tag][3]
        star = argf.endswith("*")
        core = argf[:-1] if star else argf
        if argc < 0:
            extra = r.choice([0, 0, 1, 2, 3, 4, 6]) if r.random() < 0.9 else r.choice([250, 251, 252, 253, 254, 255, 256, 257, 300])
            if extra > 20:
                depth = min(depth, 1)
            n = max(len(core) - 1, 0) + extra
            if r.random() < 0.05:
                n = r.randrange(0, len(core))      # fewer arguments than letters
            self.bump("nary_argc_%s" % ("lt3" if n < 3 else "3-255" if n <= 255 else "gt255"))
        else:
            n = argc
        args = []
        for si in range(n):
            c = core[si] if si < len(core) else core[-1]
            args.append(self.arg(c, tag, depth, labels, inprog))
        if name in ("Decl", "GDecl") and r.random() < 0.5 and len(args) > 3:
            args[3] = ("i", r.choice([0, 4, 255, 256, 300]))
        self.bump("tag_" + name)
        return (tag, args)

    def prog(self, depth):
        """XFtiwwwwC*: a Prog with its label count and a body that uses labels below it."""
        r = self.r
        tag = self.t["FOAM_Prog"]
        labels = r.choice([0, 1, 2, 3, 200, 255, 256, 257, 1000, 70000])
        fmt = r.choice([0, 4, 5, 100, 255]) if r.random() < 0.9 else r.choice([256, 300, 1000])
        nbody = r.choice([1, 4, 5]) if r.random() < 0.95 else r.choice([246, 247, 248, 300])
        args = [("i", 0), ("i", labels), ("i", r.randrange(0, len(self.rows))), ("i", fmt)]
        args += [("i", self.pick_int("w")) for _ in range(4)]
        for _ in range(nbody):
            args.append(("n", self.node(depth - 1 if nbody < 10 else 0, labels, True)))
        self.bump("prog_labels_%s" % ("le255" if labels <= 255 else "gt255"))
        self.bump("prog_format_%s" % ("le255" if fmt <= 255 else "gt255"))
        return (tag, args)

    def tree(self):
        r = self.r
        x = r.random()
        if x < 0.3:
            return self.prog(r.choice([1, 2, 3]))
        if x < 0.36:
            # a unit-like sequence of several Progs: the latch is carried from one to the next
            seq = self.t["FOAM_Seq"]
            return (seq, [("n", self.prog(2)) for _ in range(r.choice([2, 3]))])
        if x < 0.40:
            return (self.t["FOAM_BInt"], [("b", self.pick_bint(allow_gap=True))])
        return self.node(r.choice([0, 1, 2, 3]), 0, False)


# ------------------------------------------------------------------ stage A: generated trees

def tree_key(d):
    return "codec:%s.%s:save-load-changes-it" % (d[1], d[2])



def stage_trees(rep, tier, info, drv, har, violations_out=None):
    rng = C.rng("C05/trees")
    orc = Oracle(info)
    # portable float images (payload here; their conversion is C19's subject)
    xsf = _float_images(har, info, single=True)
    xdf = _float_images(har, info, single=False)
    gen = TreeGen(rng, info, xsf, xdf)
    n = 1500 if tier == "quick" else 25000
    stats = {"trees": 0, "wf": 0, "not_wf": 0, "nodes": 0, "c_crash": 0, "model_none": 0, "samples": []}
    seen_keys = set()
    corpus_dir = os.path.join(C.VERIF, "corpus", ID)
    items = []
    if os.path.isdir(corpus_dir):
        for f in sorted(os.listdir(corpus_dir)):
            if f.endswith(".tree"):
                st, toks = open(os.path.join(corpus_dir, f)).read().split(None, 1)
                items.append((int(st), parse_toks(toks.split(), 0, False)[0]))
    for _ in range(n):
        items.append((rng.choice([0, 0, 1]), gen.tree()))
    distinct = set()
    for st, t in items:
        stats["trees"] += 1
        stats["nodes"] += count_nodes(t)
        mt = " ".join(toks_of(t, False))
        distinct.add(hashlib.sha1(mt.encode()).hexdigest())
        ans = drv.ask("tree %x %s" % (st, mt))
        if ans is None or ans.startswith("ERR"):
            rep.violation("correspondence C05/trees: the extracted model failed on a generated tree (%s)" % ans,
                          {"kind": "tree", "latch": st, "tree": mt}, no_input=True)
            continue
        parts = [p.strip() for p in ans.split("|")]
        w, mhex, mst = parts[0].split()
        mdec, mcanon, flags = parts[1], parts[2], parts[3].split()
        cans = har.ask("tree %x %s" % (st, " ".join(toks_of(t, True))), timeout=10)
        cres = None
        if cans is None:
            stats["c_crash"] += 1
        else:
            cenc, cdec = [p.strip() for p in cans.split("|")]
            chex, cst = cenc.split()
            cd = cdec.split()
            cres = {"hex": chex, "st": cst, "consumed": unhx(cd[0]), "st2": cd[1],
                    "tree": parse_toks(cd[2:], 0, True)[0]}
        # --- the property, directly on the implementation
        d = None
        if cres is None:
            d = ("root", orc.name(t[0]), "crash", "foamToBuffer/foamFrBuffer died (status %s)" % har.last_rc)
        else:
            d = orc.differ(t, cres["tree"])
            if d is None and cres["consumed"] != len(cres["hex"]) // 2 and cres["hex"] != "-":
                d = ("root", orc.name(t[0]), "length", "decoder consumed %d of %d bytes" % (cres["consumed"], len(cres["hex"]) // 2))
        if d is not None:
            stats["oracle_failures"] = stats.get("oracle_failures", 0) + 1
            if d[2] != "crash" and tree_key(d) in seen_keys:
                continue
            if d[2] == "crash" and stats.get("crash_shrunk", 0) >= 3:
                continue
            if d[2] == "crash":
                stats["crash_shrunk"] = stats.get("crash_shrunk", 0) + 1
            small, sd = _shrink_tree(t, st, har, orc)
            key = tree_key(sd)
            replay = {"kind": "tree", "latch": st if small is t else 0, "tree": " ".join(toks_of(small, False)),
                      "where": sd[0], "why": sd[3][:300], "model_wf_of_original": w}
            if key not in seen_keys:
                seen_keys.add(key)
                rep.violation("FOAM byte codec: a %s node does not survive foamToBuffer+foamFrBuffer: %s" % (sd[1], sd[3][:200]),
                              replay, key=key)
                if violations_out is not None:
                    violations_out.append((key, replay))
            continue
        # --- model versus implementation
        if w == "1":
            stats["wf"] += 1
            mtree = None
            if mdec != "NONE":
                md = mdec.split()
                mtree = parse_toks(md[2:], 0, False)[0]
            same = (mhex == cres["hex"] and unhx(mst) == unhx(cres["st"]) and mtree == cres["tree"]
                    and mdec != "NONE" and md[0] == "-" and unhx(md[1]) == unhx(cres["st2"])
                    and parse_toks(mcanon.split(), 0, False)[0] == mtree and flags == ["1", "1"])
            if not same:
                rep.violation("correspondence C05/trees no longer checks: model and foamToBuffer/foamFrBuffer disagree "
                              "on a well-formed tree although the C result satisfies the property",
                              {"kind": "tree", "latch": st, "tree": mt, "model_hex": mhex[:400], "c_hex": cres["hex"][:400]},
                              no_input=True)
        else:
            stats["not_wf"] += 1      # outside the model's domain but the implementation kept the tree
        if len(stats["samples"]) < 6 and count_nodes(t) > 3:
            stats["samples"].append({"latch": st, "tree": mt[:300], "wf": w, "bytes": len(mhex) // 2})
    stats["distinct"] = len(distinct)
    stats["dist"] = dict(sorted(gen.dist.items()))
    return stats


_FLOAT_CACHE = {}


def _float_images(har, info, single):
    """Portable images of interesting native floats, produced by the current xsfFrNative/xdfFrNative
    (through a decode of a hand-made image and re-encode)."""
    # The portable layout: sexp[2] (sign + 15-bit exponent, excess 0x3ffe, big-endian) frac[4 or 8] with
    # explicit leading 1.  Images below are zero, +-1, 0.5, 2^-126, max float, +-inf.
    key = ("s" if single else "d")
    if key in _FLOAT_CACHE:
        return _FLOAT_CACHE[key]
    tag = info["tags"]["FOAM_SFlo" if single else "FOAM_DFlo"]
    n = 4 if single else 8
    cands = []
    for sexp in (0x0000, 0x3fff, 0xbfff, 0x3ffe, 0x4000, 0x3f81, 0x407e, 0x3c01, 0x43fe):
        for frac in (b"\x80" + b"\x00" * (n - 1), b"\xc0" + b"\x00" * (n - 1), b"\xff\xff\xff" + b"\x00" * (n - 3),
                     b"\x00" * n):
            cands.append(struct.pack(">H", sexp) + frac)
    good = []
    for img in cands:
        a = har.ask("tree 0 ( %x %s%s )" % (tag, "f" if single else "d", img.hex()))
        if a is None:
            continue
        enc, dec = a.split("|")
        out = bytes.fromhex(enc.split()[0])[1:]
        # keep images that are fixed points of native conversion
        if out == img and out not in good:
            good.append(img)
    if not good:
        good = [b"\x00" * (2 + n)]
    _FLOAT_CACHE[key] = good
    return good


def _shrink_tree(t, st, har, orc):
    """Smallest failing subtree.  Subtrees are tried with the latch at 0 (4-byte labels: every label
    value fits), so that a subtree is never blamed for having lost the label format of its Prog."""
    def fails(x, latch):
        a = har.ask("tree %x %s" % (latch, " ".join(toks_of(x, True))), timeout=10)
        if a is None:
            return ("root", orc.name(x[0]), "crash", "foamToBuffer/foamFrBuffer died or hung (status %s)" % har.last_rc)
        cd = a.split("|")[1].split()
        return orc.differ(x, parse_toks(cd[2:], 0, True)[0])
    cur, d = t, fails(t, st)
    if d is None:
        return t, ("root", orc.name(t[0]), "state", "fails only in sequence")
    changed, steps = True, 0
    while changed and steps < 12:
        changed = False
        steps += 1
        for a in cur[1]:
            if a[0] == "n":
                dd = fails(a[1], 0)
                if dd is not None:
                    cur, d, changed = a[1], dd, True
                    break
    if len(cur[1]) == 1 and cur[1][0][0] == "b":
        # a single big integer: one cause whether the reader then crashes or misreads
        d = (d[0], d[1], "n", d[3])
    return cur, d


# ------------------------------------------------------------------ stage T: the FOAM text form

FM_TOK = re.compile(rb'\(|\)|"(?:\\.|[^"\\])*"|\|(?:\\.|[^|\\])*\||;[^\n]*|(?:\\.|[^\s()"|;])+', re.S)


def fm_tokens(text):
    """Independent tokenizer of .fm text -> the driver's token spelling.  Floats keep their spelling as payload."""
    out = []
    for m in FM_TOK.finditer(text):
        t = m.group(0)
        if t[:1] == b";":
            continue
        if t in (b"(", b")"):
            out.append(t.decode())
        elif t[:1] == b'"':
            out.append("s" + hexb(re.sub(rb"\\(.)", rb"\1", t[1:-1], flags=re.S)))
        elif t[:1] == b"|":
            out.append("y" + hexb(re.sub(rb"\\(.)", rb"\1", t[1:-1], flags=re.S)))
        elif re.match(rb"^[-+]?\d+$", t):
            out.append("i" + hx(int(t)))
        elif re.match(rb"^[-+]?(\d+\.\d*|\.\d+|\d+)([eEdDfFsSlL][-+]?\d+)?$", t) and re.search(rb"[.eEdDfFsSlL]", t):
            out.append(("f" if re.search(rb"[sSfF]", t) else "d") + hexb(t))      # marker s/f: single float
        else:
            out.append("y" + hexb(re.sub(rb"\\(.)", rb"\1", t, flags=re.S)))
    return out


class TextGen(TreeGen):
    """Trees for the text writer: foamToSExpr0 walks Unit / Prog through their struct fields, so these have
    the shape the compiler gives them (formats, globals, constants; params, locals, fluids, levels, body) and
    carry variable references inside and outside the declared ranges (never at an index C reads out of bounds)."""

    def __init__(self, rng, info, xsf, xdf):
        super().__init__(rng, info, xsf, xdf)
        # Lex / EElt index the format vectors without (complete) bounds checks: only made by ref()
        drop = {info["tags"]["FOAM_Unit"], info["tags"]["FOAM_Lex"], info["tags"]["FOAM_EElt"]}
        self.tags = [t for t in self.tags if t not in drop]
        self.leafs = [t for t in self.leafs if t not in drop]
        self.nfmt_decls = []

    def ident(self):
        r = self.r
        return bytes(r.choice(b"abcxyzFOO_<>=+-*/!?%~^&09#.:'|\\\" ") for _ in range(r.choice([0, 1, 1, 2, 5, 12])))

    def decl(self, glob):
        r, t = self.r, self.t
        a = [("i", r.randrange(0, len(self.rows))), ("s", self.ident()), ("i", r.choice([-1, -1, 0, 7, 1 << 20])), ("i", r.choice([0, 4, 5, 300]))]
        if glob:
            return (t["FOAM_GDecl"], a + [("i", r.choice([0, 1])), ("i", r.randrange(0, self.nproto))])
        return (t["FOAM_Decl"], a)

    def ddecl(self, n, glob=False):
        return (self.t["FOAM_DDecl"], [("i", self.r.randrange(0, 12))] + [("n", self.decl(glob)) for _ in range(n)])

    def ref(self):
        """a variable reference"""
        r, t = self.r, self.t
        k = r.choice(["Par", "Loc", "Glo", "Const", "Lex", "EElt", "other"])
        idx = r.choice([0, 1, 2, 3, 5, 9, 40])
        if k in ("Par", "Loc", "Glo", "Const"):
            return (t["FOAM_" + k], [("i", idx)])
        if k == "Lex":
            lvl = r.randrange(0, max(1, self.nlevels)) if r.random() < 0.8 else self.nlevels + 50
            f = self.levels[lvl] if lvl < self.nlevels else 0
            j = idx if idx != self.nfmt_decls[f] else idx + 1          # argv[declc] would be read out of bounds
            return (t["FOAM_Lex"], [("i", lvl), ("i", j)])
        if k == "EElt":
            f = r.randrange(0, len(self.nfmt_decls))
            if self.nfmt_decls[f] == 0:
                return (t["FOAM_Loc"], [("i", idx)])
            return (t["FOAM_EElt"], [("i", f), ("n", (t["FOAM_Loc"], [("i", 0)])), ("i", 0), ("i", r.randrange(0, self.nfmt_decls[f]))])
        return self.node(1, 0, False)

    def prog(self, depth=2):
        r, t = self.r, self.t
        self.levels = [r.randrange(0, len(self.nfmt_decls)) for _ in range(r.choice([1, 1, 2, 3]))]
        self.nlevels = len(self.levels)
        args = [("i", 0), ("i", r.choice([0, 2, 300])), ("i", r.randrange(0, len(self.rows))), ("i", r.choice([0, 4, 300]))]
        args += [("i", self.pick_int("w")) for _ in range(4)]
        args.append(("n", self.ddecl(r.choice([0, 1, 3]))))
        args.append(("n", self.ddecl(r.choice([0, 2, 4]))))
        args.append(("n", (t["FOAM_DFluid"], [])))
        args.append(("n", (t["FOAM_DEnv"], [("i", x) for x in self.levels])))
        args.append(("n", (t["FOAM_Seq"], [("n", self.ref()) for _ in range(r.choice([1, 3, 6]))])))
        return (t["FOAM_Prog"], args)

    def unit(self):
        r, t = self.r, self.t
        nf = r.choice([2, 3, 5])
        self.nfmt_decls = [r.choice([0, 1, 2, 4]) for _ in range(nf)]
        fmts = [self.ddecl(self.nfmt_decls[0], glob=True)] + [self.ddecl(k) for k in self.nfmt_decls[1:]]
        defs = []
        for _ in range(r.choice([1, 2, 3])):
            lhs = (t["FOAM_" + r.choice(["Glo", "Const"])], [("i", r.choice([0, 1, 2, 7]))])
            defs.append(("n", (t["FOAM_Def"], [("n", lhs), ("n", self.prog())])))
        defs.append(("n", (t["FOAM_Def"], [("n", (t["FOAM_Loc"], [("i", 0)])), ("n", self.node(1, 0, False))])))
        return (t["FOAM_Unit"], [("n", (t["FOAM_DFmt"], [("n", f) for f in fmts])), ("n", (t["FOAM_DDef"], defs))])

    def tree(self):
        if self.r.random() < 0.45:
            return self.unit()
        return self.node(self.r.choice([0, 1, 2, 3]), 0, False)


def _norm_float_tokens(toks):
    return [("F" if t[0] in "fd" else t) for t in toks]


def stage_text(rep, tier, info, drv, har):
    """extracted wr versus foamWrSExpr on generated trees (+ the concrete oracle: every integer field of the
    tree must appear with its full value in the text); model rd/wr versus the real reader on real .fm files."""
    rng = C.rng("C05/text")
    orc = Oracle(info)
    if drv.ask("tparams") != "1":
        rep.violation("name tables of the current foam.c do not read back as written (text_params_ok fails)", {"kind": "tparams"}, no_input=True)
        return {}
    xsf, xdf = _float_images(har, info, True), _float_images(har, info, False)
    gen = TextGen(rng, info, xsf, xdf)
    n = 400 if tier == "quick" else 6000
    st = {"trees": 0, "wf_text": 0, "tokens": 0, "fm_files": 0, "fm_tokens": 0}
    seen = set()
    fixed = [(info["tags"]["FOAM_SInt"], [("i", v)]) for v in (1 << 32, -(1 << 32) - 1, (1 << 63) - 1, -(1 << 63), 1 << 40)]
    tg = info["tags"]
    fixed.append((tg["FOAM_Prog"], [("i", 1 << 33), ("i", 3), ("i", 5), ("i", 4), ("i", 1 << 35), ("i", -(1 << 40)), ("i", 7), ("i", 0),
                                    ("n", (tg["FOAM_DDecl"], [("i", 2)])), ("n", (tg["FOAM_DDecl"], [("i", 3)])), ("n", (tg["FOAM_DFluid"], [])),
                                    ("n", (tg["FOAM_DEnv"], [("i", 0)])), ("n", (tg["FOAM_Seq"], [("n", (tg["FOAM_Label"], [("i", 1 << 34)]))]))]))
    for k in range(n + len(fixed)):
        t = fixed[k] if k < len(fixed) else gen.tree()
        if count_nodes(t) > 400:
            continue
        st["trees"] += 1
        mt = " ".join(toks_of(t, False))
        a = drv.ask("wr " + mt)
        if a is None or a.startswith("ERR"):
            rep.violation("correspondence C05/text: the extracted writer failed (%s)" % a, {"kind": "text-tree", "tree": mt}, no_input=True)
            continue
        head, mtoks = a.split(" | ", 1) if " | " in a else (a.rstrip(" |"), "")
        hb = head.split()
        c = har.ask("totext " + " ".join(toks_of(t, True)), timeout=20)
        if c is None:
            if "text-crash" not in seen:
                seen.add("text-crash")
                rep.violation("foamWrSExpr dies on a generated tree", {"kind": "text-tree", "tree": mt}, key="text:writer:crash")
            continue
        ctoks = fm_tokens(unhexb(c.strip()))
        st["tokens"] += len(ctoks)
        # ---- the property's own oracle on the implementation: the text holds every integer of the tree
        want = _tree_ints(t, orc)
        got = [unhx(x[1:]) for x in ctoks if x[0] == "i"]
        if want != got:
            k = next((k for k in range(min(len(want), len(got))) if want[k] != got[k]), min(len(want), len(got)))
            key = "text:writer:integer-field"
            if key not in seen:
                seen.add(key)
                rep.violation(".fm text of a tree does not hold an integer field with its value: %s written as %s" % (
                    want[k] if k < len(want) else None, got[k] if k < len(got) else None),
                    {"kind": "text-tree", "tree": mt, "expected": str(want[k:k + 3]), "text": str(got[k:k + 3])}, key=key)
            continue
        if hb[0] == "1":
            st["wf_text"] += 1
            if hb[1:] != ["1", "1"]:
                rep.violation("correspondence C05/text: rd(wr n) <> tcanon n or re-saving differs in the extracted model", {"kind": "text-tree", "tree": mt, "flags": hb}, no_input=True)
            if _norm_float_tokens(mtoks.split()) != _norm_float_tokens(ctoks):
                if "text-model" not in seen:
                    seen.add("text-model")
                    rep.violation("correspondence C05/text no longer checks: extracted wr and foamWrSExpr give different tokens",
                                  {"kind": "text-tree", "tree": mt, "model": mtoks[:300], "c": " ".join(ctoks)[:300]}, no_input=True)
    # ---- the spelling of atoms: extracted pr_int / pr_str versus the characters sxiWrite prints
    tg = info["tags"]
    atoms = [("i", v) for v in (0, 7, -1, 10, 99, 100, 255, (1 << 31) - 1, -(1 << 31), 1 << 32, (1 << 63) - 1, -(1 << 63),
                                 12345678901234567, -98765432109876543)]
    atoms += [("b", v) for v in ((1 << 64), -(1 << 64) - 1, 10 ** 40, -(10 ** 77) + 1, (1 << 200) + 12345)]
    atoms += [("s", x) for x in (b"", b"a", b'q"q', b"back\\slash", b'"\\"\\\\', b"tab\there nl\n", bytes(range(1, 48)), b"\xe9\xff")]
    st["atoms"] = 0
    for kind, v in atoms:
        if kind == "s":
            tree = (tg["FOAM_Unimp"], [("s", v)])
            a = drv.ask("lex s" + hexb(v))
        elif kind == "b":
            tree = (tg["FOAM_BInt"], [("b", v)])
            a = drv.ask("lex i" + hx(v))
        else:
            tree = (tg["FOAM_SInt"], [("i", v)])
            a = drv.ask("lex i" + hx(v))
        c = har.ask("totext " + " ".join(toks_of(tree, True)), timeout=20)
        st["atoms"] += 1
        if a is None or c is None or a.split()[1] != "1":
            rep.violation("correspondence C05/text: atom spelling could not be compared (%s / %s)" % (a, c and c[:40]),
                          {"kind": "atom", "value": str(v)}, no_input=True)
            continue
        text = unhexb(c.strip())
        mine = unhexb(a.split()[0])
        m = re.match(rb"^\((\w+)\s+(.*)\)\s*$", text, re.S)
        got = m.group(2) if m else None
        # property side: the text must spell the value
        if kind != "s" and (got is None or not re.match(rb"^-?\d+$", got) or int(got) != v):
            rep.violation(".fm text spells the integer %d as %r" % (v, got), {"kind": "atom", "value": str(v), "text": repr(text)},
                          key="text:writer:integer-spelling")
        elif got != mine:
            rep.violation("correspondence C05/text no longer checks: extracted atom spelling %r, sxiWrite %r" % (mine[:60], (got or b"")[:60]),
                          {"kind": "atom", "value": str(v)}, no_input=True)
    # ---- real .fm files: write them with the rebuilt compiler, read with model and with foamRdSExpr
    exe = C.build_compiler()
    work = C.scratch("c05fm")
    srcs = [("g%d" % k, gen_program(rng, k)["whole"]) for k in range(2 if tier == "quick" else 6)]
    srcs += [(os.path.basename(f)[:-3], open(f, errors="replace").read()) for f in (corpus_programs() if tier != "quick" else rng.sample(corpus_programs(), 4))]
    srcs.append(("sintext", prog_sint_text()))
    srcs.append(("floattext", prog_float_text()))
    st["float_atoms"] = 0
    st["float_atoms_zero_neg"] = 0
    st["float_atoms_17_digits"] = 0
    for name, text in srcs:
        for q in (["-Q2"] if tier == "quick" else ["-Q0", "-Q2", "-Q9"]):
            d = os.path.join(work, name + q)
            os.makedirs(d, exist_ok=True)
            open(os.path.join(d, name + ".as"), "w").write(text)
            rc, out, err, _ = aldor(exe, [q, "-Ffm", name + ".as"], d)
            fm = os.path.join(d, name + ".fm")
            if rc != 0 or not os.path.exists(fm):
                continue
            raw = open(fm, "rb").read()
            toks = fm_tokens(raw)
            st["fm_files"] += 1
            st["fm_tokens"] += len(toks)
            # float atoms: DFloatSprint's decision + sexpr.c's marker (extracted from C19's model + SFlo.v), given
            # libc's "%#.17g" text of the value the token denotes, must be exactly the token the compiler wrote;
            # and the token must denote a finite value (non-finite folded constants: the listed C19 finding)
            for tk in toks:
                if tk[0] not in "fd":
                    continue
                txt = unhexb(tk[1:]).decode("latin1")
                single = tk[0] == "f"
                try:
                    val = float(re.sub(r"[sSfFdDlL](?=[-+]?\d+$)", "e", txt))
                except ValueError:
                    rep.violation(".fm holds a float atom no reader accepts: %r" % txt, {"kind": "fm-file", "program": text, "q": q, "atom": txt},
                                  key="text:float-atom:unreadable")
                    continue
                if val != val or val in (float("inf"), float("-inf")):
                    continue
                st["float_atoms"] += 1
                neg = struct.pack(">d", val)[0] & 0x80 != 0
                if val == 0.0 and neg:
                    st["float_atoms_zero_neg"] += 1
                ptxt = "%#.17g" % val
                if float("%.16g" % val) != val:
                    st["float_atoms_17_digits"] += 1
                fa = drv.ask("lexf %d %d %d %s" % (single, val == 0.0, neg, ptxt.encode().hex()))
                mine = unhexb(fa).decode("latin1") if fa and not fa.startswith("ERR") else None
                if mine != txt and ("fl", single) not in seen:
                    seen.add(("fl", single))
                    # property side first: does the written text denote another value than a 17-digit text would?
                    rep.violation("correspondence C05/text no longer checks: float atom %r, model spelling %r" % (txt, mine),
                                  {"kind": "fm-file", "program": text, "q": q, "atom": txt, "model": mine}, no_input=True)
            a = drv.ask("rdwr " + " ".join(toks), timeout=300)
            if a is None or a.startswith(("NONE", "ERR")):
                rep.violation("correspondence C05/text: the model reader rejects a .fm file the compiler wrote (%s)" % (a or "died")[:40],
                              {"kind": "fm-file", "program": text, "q": q}, no_input=True)
                continue
            flags, mtree, back = [x.strip() for x in a.split("|")]
            if flags.split() != ["1", "1"]:
                rep.violation("correspondence C05/text: a .fm file the compiler wrote is not well-formed for the model (%s)" % flags,
                              {"kind": "fm-file", "program": text, "q": q}, no_input=True)
            if back.split() != toks:
                rep.violation("model: writing the tree read from a compiler-written .fm does not reproduce its tokens",
                              {"kind": "fm-file", "program": text, "q": q}, no_input=True)
            c = har.ask("frtext " + fm, timeout=120)
            if c is None:
                rep.violation("foamRdSExpr dies on a .fm file the compiler wrote", {"kind": "fm-file", "program": text, "q": q}, key="text:reader:crash")
                continue
            ct = parse_toks(c.split(), 0, True)[0]
            mtr = parse_toks(mtree.split(), 0, False)[0]
            if _strip_floats(ct) != _strip_floats(mtr):
                rep.violation("correspondence C05/text no longer checks: model rd and foamRdSExpr read a .fm file to different trees",
                              {"kind": "fm-file", "program": text, "q": q}, no_input=True)
    return st


def _tree_ints(t, orc):
    """The integers foamToSExpr0 must print for a tree, in order (fields X F L b h w i n; 'w' of a Decl is -1)."""
    tag, args = t
    out = []
    isd = orc.name(tag) == "Decl"          # the syme index of a Decl is written as -1; a GDecl keeps its rtype
    for si, a in enumerate(args):
        c = orc.letter(tag, si)
        if a[0] == "n":
            out += _tree_ints(a[1], orc)
        elif a[0] == "b":
            out.append(a[1])
        elif a[0] == "i" and c in "XFLbhwi":
            out.append(-1 if (isd and c == "w") else a[1])
        elif a[0] == "i" and c == "t" and not (0 <= a[1] < len(orc.rows)):
            out.append(a[1])
    return out


def _strip_floats(t):
    return (t[0], [("F",) if a[0] in "fd" else (("n", _strip_floats(a[1])) if a[0] == "n" else a) for a in t[1]])


# ------------------------------------------------------------------ stage B: real .ao files

def ao_files():
    fs = []
    for root in AO_ROOTS:
        for dp, _, fns in os.walk(root):
            for f in fns:
                if f.endswith(".ao"):
                    fs.append(os.path.join(dp, f))
    return sorted(set(fs))


def py_sections(d, lib):
    """Independent (struct-based) reading of the header; returns (numSect, [(name, off, len)])."""
    num = struct.unpack_from("<H", d, 10)[0]
    ent = [struct.unpack_from("<BII", d, 12 + lib["sect_size"] * i) for i in range(lib["name_limit"])]
    return num, ent


def check_ao(path, info, drv, har, with_c, expect_names=()):
    """Returns (list of problems, stats)."""
    lib = info["lib"]
    d = open(path, "rb").read()
    probs = []
    if len(d) < lib["hdr_size"]:
        return ["shorter than a header"], {}
    num, ent = py_sections(d, lib)
    ans = drv.ask("lib " + d.hex(), timeout=300)
    if ans is None or not ans.startswith("LOADED"):
        return ["model refuses an intact library file: %s" % (ans or "driver died")[:80]], {}
    head, sects, conts, whdr = [p.strip() for p in ans.split("|")]
    hw = head.split()
    if [unhx(x) for x in hw[1:]] != [lib["magic"], struct.unpack_from("<I", d, 2)[0], struct.unpack_from("<I", d, 6)[0], num]:
        probs.append("header fields differ")
    if [tuple(unhx(x) for x in s.split(":")) for s in sects.split()] != [tuple(e) for e in ent]:
        probs.append("section table differs")
    if whdr != d[:lib["hdr_size"]].hex():
        probs.append("write_hdr(read) differs from the file's header bytes")
    cl = conts.split()
    last = {}
    for i, (n, off, ln) in enumerate(ent):
        if n < lib["name_limit"]:
            last[n] = (off, ln)
    end = lib["hdr_size"]
    for i in range(num):
        n, off, ln = ent[i]
        if off != end:
            probs.append("section %d not contiguous" % i)
        end = off + ln
    if end != len(d):
        probs.append("file length %d != end of last section %d" % (len(d), end))
    for n in range(lib["name_limit"]):
        if n in last and last[n][0] != 0:
            off, ln = last[n]
            want = "C" + hexb(d[off:off + ln])
        else:
            want = "A"
        if cl[n] != want:
            probs.append("section %s content differs" % info["sect_names"][n])
    st = {"bytes": len(d), "foam": 0, "nodes": 0, "names": 0}
    # ---- section contents: LIB_Id and LIB_Name (model decode / re-encode / dedupe, against an independent reading)
    names_no = info["sect_names"].index("name")
    id_no = info["sect_names"].index("fileid")
    if id_no in last and last[id_no][0] != 0:
        off, ln = last[id_no]
        sec = d[off:off + ln]
        a = drv.ask("fileid " + hexb(sec))
        cc = struct.unpack_from("<I", sec, 0)[0] if len(sec) >= 4 else -1
        want = sec[4:4 + cc - 1] if cc >= 1 else None
        if a is None or not a.startswith("OK"):
            probs.append("model cannot read the fileid section")
        else:
            p = a.split()
            if unhexb(p[1]) != want or p[2] != "-" or p[3] != hexb(sec):
                probs.append("fileid section does not round-trip through the model")
            if want is not None and os.path.basename(path)[:-3].encode() != want:
                probs.append("fileid %r is not the unit's name" % want)
    if names_no in last and last[names_no][0] != 0:
        off, ln = last[names_no]
        sec = d[off:off + ln]
        a = drv.ask("names " + hexb(sec), timeout=120)
        # independent reading
        try:
            symec, topc = struct.unpack_from("<HH", sec, 0)
            pos, pairs = 4, {}
            while True:
                i = struct.unpack_from("<H", sec, pos)[0]
                pos += 2
                if i >= symec:
                    break
                pairs[i] = struct.unpack_from("<H", sec, pos)[0]
                pos += 2
            strs = sec[pos:].split(b"\0")[:-1]
            names, it = [], iter(strs)
            for i in range(symec):
                names.append(names[pairs[i]] if i in pairs else next(it))
            tail_ok = len(strs) == symec - len(pairs)
        except Exception:
            names, topc, symec, tail_ok = None, None, None, False
        if a is None or not a.startswith("OK"):
            probs.append("model cannot read the name section (%s)" % (a or "died")[:20])
        else:
            h, nl, re_enc = [x.strip() for x in a.split("|")]
            hh = h.split()
            mnames = [unhexb(x) for x in nl.split()]
            st["names"] = len(mnames)
            if [unhx(hh[1]), unhx(hh[2])] != [symec, topc] or hh[3] != "-" or hh[4] != hexb(sec):
                probs.append("name section: enc(dec(section)) differs from the section")
            if mnames != names or not tail_ok:
                probs.append("name section: model and independent reading give different name lists")
            if re_enc != hexb(sec):
                probs.append("name section: writing the rebuilt name list (dedupe) does not reproduce the section")
            # kind / lazy / file: index-keyed records over the same syme numbering
            for which in ("kind", "lazy", "file"):
                no = info["sect_names"].index(which)
                if not (no in last and last[no][0] != 0) or symec is None:
                    continue
                o2, l2 = last[no]
                sc = d[o2:o2 + l2]
                b = drv.ask("sect %s %x %s" % (which, symec, hexb(sc)), timeout=60)
                if b is None or not b.startswith("OK"):
                    probs.append("model cannot read the %s section" % which)
                    continue
                hd, recs, reenc = [x.strip() for x in b.split("|")]
                if hd.split()[1:] != ["-"] or reenc != hexb(sc):
                    probs.append("%s section: enc(dec(section)) differs from the section" % which)
                # independent reading
                try:
                    if which == "kind":
                        ok2 = (len(sc) == symec and recs == hexb(sc))
                    else:
                        pos, want = 0, []
                        while True:
                            i = struct.unpack_from("<H", sc, pos)[0]
                            pos += 2
                            if i >= symec:
                                break
                            if which == "lazy":
                                nn, hh2 = struct.unpack_from("<HI", sc, pos)
                                pos += 6
                                want.append("%x:%x:%x" % (i, nn, hh2))
                            else:
                                kd = sc[pos]
                                e2 = sc.index(b"\0", pos + 1)
                                want.append("%x:%x:%s" % (i, kd, hexb(sc[pos + 1:e2])))
                                pos = e2 + 1
                        idx = [int(x.split(":")[0], 16) for x in want]
                        ok2 = (recs.split() == want and pos == len(sc) and idx == sorted(set(idx)))
                except Exception:
                    ok2 = False
                if not ok2:
                    probs.append("%s section: model and independent reading differ" % which)
                st["recs_" + which] = len(recs.split()) if which != "kind" else symec
            missing = [x for x in expect_names if x.encode() not in mnames]
            if missing:
                probs.append("name section lacks the exported name(s) %s" % ", ".join(missing[:3]))
    if 1 in last and last[1][0] != 0:
        off, ln = last[1]
        foam = d[off:off + ln]
        st["foam"] = ln
        a = drv.ask("dec 0 " + hexb(foam), timeout=600)
        if a is None or not a.startswith("OK"):
            probs.append("model decoder rejects the FOAM section (%s)" % (a or "driver died")[:60])
        else:
            p = a.split()
            if p[1] != "-":
                probs.append("decoder left %d bytes" % (len(p[1]) // 2))
            if p[3] != "1":
                probs.append("decoded unit is not well-formed in the model's sense")
            if p[4] != hexb(foam):
                probs.append("enc(dec(section)) differs from the section")
            if p[6] != "1":
                probs.append("a loaded unit is not in normal form")
        if with_c:
            c = har.ask("dec 0 " + hexb(foam), timeout=600)
            if c is None:
                probs.append("C harness died decoding the section")
            else:
                left, right = c.split("|")
                lt = left.split()
                if unhx(lt[0]) != ln:
                    probs.append("foamFrBuffer consumed %d of %d bytes" % (unhx(lt[0]), ln))
                if right.split()[0] != hexb(foam):
                    probs.append("foamToBuffer(foamFrBuffer(section)) differs from the section")
                m = drv.ask("dect 0 " + hexb(foam), timeout=600)
                if m and m.startswith("OK"):
                    mt = parse_toks(m.split("|")[1].split(), 0, False)[0]
                    ct = parse_toks(lt[2:], 0, True)[0]
                    st["nodes"] = count_nodes(mt)
                    if mt != ct:
                        probs.append("model and foamFrBuffer decode the section to different trees")
    return probs, st


def stage_ao(rep, tier, info):
    files = ao_files()
    rng = C.rng("C05/ao")
    if tier == "quick":
        small = [f for f in files if os.path.getsize(f) < 120000]
        pick = rng.sample(small, min(200, len(small)))
        with_c = set(pick[:60])
    else:
        pick = files
        with_c = set(files)
    nworkers = min(8, C.NCPU)
    chunks = [pick[i::nworkers] for i in range(nworkers)]
    tot = {"files": 0, "bytes": 0, "foam_bytes": 0, "nodes": 0, "c_checked": 0, "bad": 0, "names": 0}

    def work(chunk):
        drv, har = Line(build_driver()), Line(build_harness())
        res = []
        for f in chunk:
            try:
                res.append((f,) + check_ao(f, info, drv, har, f in with_c))
            except Exception as e:      # malformed answer etc.
                res.append((f, ["internal: %r" % e], {}))
        drv.close()
        har.close()
        return res
    with concurrent.futures.ThreadPoolExecutor(nworkers) as ex:
        for res in ex.map(work, chunks):
            for f, probs, st in res:
                tot["files"] += 1
                tot["bytes"] += st.get("bytes", 0)
                tot["foam_bytes"] += st.get("foam", 0)
                tot["nodes"] += st.get("nodes", 0)
                tot["names"] += st.get("names", 0)
                for w in ("kind", "lazy", "file"):
                    tot["recs_" + w] = tot.get("recs_" + w, 0) + st.get("recs_" + w, 0)
                tot["c_checked"] += 1 if f in with_c else 0
                if probs:
                    tot["bad"] += 1
                    if tot["bad"] <= 5:
                        rep.violation("saved unit %s does not read back as written: %s" % (os.path.relpath(f, C.RB), "; ".join(probs)[:300]),
                                      {"kind": "ao", "file": f, "problems": probs},
                                      key="ao-file:" + ";".join(sorted(set(p.split(" (")[0] for p in probs)))[:120])
    tot["available"] = len(files)
    return tot


# ------------------------------------------------------------------ stage C: the real compiler

def compiler_args(exe):
    return C.aldor_base_args(exe) + ["-I%s/aldor/lib/libfoamlib/al" % C.RB, "-Y%s/aldor/lib/libfoamlib/al" % C.RB]


def aldor(exe, args, cwd, timeout=40):
    t0 = time.time()
    rc, out, err = C.run(compiler_args(exe) + ["-Mno-warnings"] + args, cwd=cwd, env=C.aldor_env(), timeout=timeout)
    return rc, out, err, time.time() - t0


def gen_program(rng, k):
    """A library unit (domain with extreme constants) + client, and the same program as one unit."""
    r = rng
    ints = [r.choice([4294967296, 2147483648, -2147483649, 12345678901234, 4611686018427387904,
                      9223372036854775807, 6442450944, -6442450944, 1 << 40, -(1 << 40), (1 << 62) + 12345])
            for _ in range(4)] + [r.randrange(-(1 << 62), 1 << 62), r.randrange(0, 1 << 31), r.randrange(-(1 << 33), 1 << 33)]
    dfl = r.sample(["1.5e300", "4.9e-324", "2.2250738585072014e-308", "1.7976931348623157e308", "0.0", "1.0e-5",
                    "3.141592653589793", "6.02e23", "1.0e100"], 4)
    sfl = r.sample(["1.5e-30", "1.0e-45", "3.4e38", "0.0", "1.17549435e-38", "2.5"], 3)
    # (4081..8160-bit constants: see prog_big_const -- one known encoder width defect, kept out of the general family)
    bigs = [r.getrandbits(r.choice([70, 200, 1000, 4000])) for _ in range(3)] + [10 ** r.choice([30, 120])]
    def lit(s):
        return '"' + s.replace("_", "__").replace('"', '_"') + '"'
    strs = ["".join(r.choice("abc XYZ09_(){};,.'\"\\!@#$%^&*-+=<>?/|~`") for _ in range(r.choice([0, 1, 5, 40])))
            for _ in range(3)]
    strs.append("x" * r.choice([254, 255, 256, 257, 300, 1000]))
    strs.append("tab\there")
    L, body = [], []
    sig = []
    for i, v in enumerate(ints):
        sig.append("  mi%d: () -> MachineInteger;" % i)
        body.append("  mi%d(): MachineInteger == %s;" % (i, ("(%d)" % v) if v >= 0 else ("(0 - %d)" % -v)))
    sig.append("  mimin: () -> MachineInteger;")
    body.append("  mimin(): MachineInteger == -9223372036854775807 - 1;")
    for i, v in enumerate(dfl):
        sig.append("  df%d: () -> DoubleFloat;" % i)
        body.append("  df%d(): DoubleFloat == %s;" % (i, v))
    for i, v in enumerate(sfl):
        sig.append("  sf%d: () -> SingleFloat;" % i)
        body.append("  sf%d(): SingleFloat == %s;" % (i, v))
    for i, v in enumerate(bigs):
        sig.append("  bi%d: () -> Integer;" % i)
        body.append("  bi%d(): Integer == %d;" % (i, v))
    for i, v in enumerate(strs):
        sig.append("  st%d: () -> String;" % i)
        body.append("  st%d(): String == %s;" % (i, lit(v)))
    longname = "aVeryLongExportedOperationNameOfFortyEightChars%d" % (k % 10)
    sig.append("  %s: MachineInteger -> MachineInteger;" % longname)
    body.append("  %s(x: MachineInteger): MachineInteger == x + %d;" % (longname, r.randrange(1, 99)))
    sig.append("  twice: MachineInteger -> MachineInteger;")
    body.append("  twice(x: MachineInteger): MachineInteger == x + x + %d;" % r.randrange(0, 1 << 40))
    sig.append("  pair: MachineInteger -> (MachineInteger, MachineInteger);")
    body.append("  pair(x: MachineInteger): (MachineInteger, MachineInteger) == (x + 1, x * %d);" % r.randrange(2, 1000))
    dom = "Foo%d" % k
    hdr = '#include "aldor"\n#include "aldorio"\n'
    imp = "import from MachineInteger, DoubleFloat, SingleFloat, Integer, String;\n"
    libtxt = hdr + imp + "%s: with {\n%s\n} == add {\n%s\n}\n" % (dom, "\n".join(sig), "\n".join(body))
    use = ["import from %s;" % dom]
    for i in range(len(ints)):
        use.append("stdout << mi%d() << newline;" % i)
    use.append("stdout << mimin() << newline;")
    for i in range(len(dfl)):
        use.append("stdout << df%d() << newline;" % i)
    for i in range(len(sfl)):
        use.append("stdout << sf%d() << newline;" % i)
    for i in range(len(bigs)):
        use.append("stdout << bi%d() << newline;" % i)
    for i in range(len(strs)):
        use.append("stdout << st%d() << newline;" % i)
    use.append("stdout << %s(%d) << newline;" % (longname, r.randrange(0, 1000)))
    use.append("stdout << twice(%d) << newline;" % r.randrange(0, 1 << 35))
    use.append("(pa, pb) := pair(%d); stdout << pa << \" \" << pb << newline;" % r.randrange(0, 1000))
    usetxt = "\n".join(use) + "\n"
    name = "g%d" % k
    exported = [re.match(r"\s*(\w+):", x).group(1) for x in sig] + [dom]
    return {"name": name, "exported": exported,
            "whole": libtxt + usetxt,
            "lib": libtxt,
            "client_ao": hdr + '#library LL "%sl.ao"\nimport from LL;\n' % name + imp + usetxt,
            "client_al": hdr + '#library LL "lib%sl.al"\nimport from LL;\n' % name + imp + usetxt}


# ---- comparers ("equal modulo the recorded input file name and the SInt re-expression")

C_TOK = re.compile(r'"(?:\\.|[^"\\])*"|\'(?:\\.|[^\'\\])*\'|[A-Za-z_]\w*|0[xX][0-9a-fA-F]+[uUlL]*|\d+\.?\d*(?:[eE][-+]?\d+)?[uUlLfF]*|<<|>>|->|[^\s\w]')


def c_tokens(text):
    return C_TOK.findall(text)


def _c_int(tok):
    m = re.match(r"^(-?\d+)[lLuU]*$", tok)
    return int(m.group(1)) if m else None


def _eval_c_expr(toks):
    """Value (64-bit wrap) of the C spelling of a foamSIntReduce expression:
    digits L, ( ), <<, |, unary -.  None when anything else occurs."""
    src = []
    for t in toks:
        v = _c_int(t)
        if v is not None:
            src.append(str(v))
        elif t in ("(", ")", "<<", "|", "-"):
            src.append(t)
        elif t in ("FiWord", "FiSInt", "long"):     # casts inside
            src.append("")
        else:
            return None
    s = " ".join(src).replace("(  )", "")
    try:
        class W(int):
            pass
        val = eval(s, {"__builtins__": {}})
    except Exception:
        return None
    return wrap64(val) if isinstance(val, int) else None


def _paren_end(ts, j):
    depth, k = 0, j
    while k < len(ts):
        if ts[k] == "(":
            depth += 1
        elif ts[k] == ")":
            depth -= 1
            if depth == 0:
                return k
        k += 1
    return None


def _strip_casts(ts):
    """Token stream without (FiXxx) casts and without any parenthesis."""
    r, k = [], 0
    while k < len(ts):
        if ts[k] == "(" and k + 2 < len(ts) and re.match(r"^Fi[A-Z]\w*$", ts[k + 1]) and ts[k + 2] == ")":
            k += 3
            continue
        if ts[k] not in ("(", ")"):
            r.append(ts[k])
        k += 1
    # unary minus + literal -> one token (so that -N versus M is one literal difference)
    m = []
    for t in r:
        if _c_int(t) is not None and m and m[-1] == "-" and (len(m) < 2 or m[-2] in ("return", "case") or not re.match(r"^[\w\]\"']", m[-2])):
            m[-1] = "-" + t
        else:
            m.append(t)
    return m


def compare_c(a_text, b_text, allow_sint):
    """a: C from source, b: C from the saved form.  Returns [(class, detail)]; empty = equal modulo
    the recorded file name and (allow_sint) a value-preserving re-expression of an integer literal
    outside int32.  Classes: integer-literal, cast-dropped (the streams are equal once (FiXxx) casts and
    parentheses are removed), other."""
    fix = lambda t: re.sub(r'(generated by Aldor from file ")[^"]*(")', r"\1X\2", t, count=1)
    a, b = c_tokens(fix(a_text)), c_tokens(fix(b_text))
    if a == b:
        return []
    out, i, j = [], 0, 0
    if allow_sint:
        while i < len(a) and j < len(b):
            if a[i] == b[j]:
                i += 1
                j += 1
                continue
            v = _c_int(a[i])
            ctx = " ".join(a[max(0, i - 4):i + 6]) + "  ///  " + " ".join(b[max(0, j - 4):j + 6])
            if v is not None and not is_int32(v) and b[j] == "(":
                k = _paren_end(b, j)
                val = _eval_c_expr(b[j:k + 1]) if k is not None else None
                if val is not None and val == wrap64(v):
                    i, j = i + 1, k + 1
                    continue
            if a[i] == "-" and i + 1 < len(a) and _c_int(a[i + 1]) is not None and b[j] in ("(", "-"):
                # source "-N"; saved form "-( ... )" or "( ... )" whose value is -N
                jj = j + 1 if b[j] == "-" else j
                k = _paren_end(b, jj) if jj < len(b) and b[jj] == "(" else None
                val = _eval_c_expr(b[j:k + 1]) if k is not None else None
                if val is not None and val == wrap64(-_c_int(a[i + 1])) and not is_int32(val):
                    i, j = i + 2, k + 1
                    continue
            cls = "integer-literal" if (v is not None or _c_int(b[j]) is not None) else "other"
            if cls == "integer-literal":
                k0 = i - 1 if (i > 0 and a[i - 1] == "-") else i
                cast = a[k0 - 2] if (k0 >= 3 and a[k0 - 1] == ")" and a[k0 - 3] == "(") else ""
                cls += "@" + re.sub(r"[^A-Za-z0-9]", "", cast)[:12]
            out.append((cls, ctx))
            return out
        if i < len(a) or j < len(b):
            out.append(("other", "one output is a prefix of the other"))
        return out
    sa, sb = _strip_casts(a), _strip_casts(b)
    only_lits = len(a) == len(b) and all(x == y or (_c_int(x) is not None and _c_int(y) is not None) for x, y in zip(a, b))
    if len(sa) != len(sb):
        k = next((k for k in range(min(len(sa), len(sb))) if sa[k] != sb[k]), min(len(sa), len(sb)))
        return [("other", " ".join(sa[max(0, k - 6):k + 8]) + "  ///  " + " ".join(sb[max(0, k - 6):k + 8]))]
    for k, (x, y) in enumerate(zip(sa, sb)):
        if x != y:
            cls = "integer-literal" if (_c_int(x) is not None and _c_int(y) is not None) else "other"
            if len([1 for c, _ in out if c == cls]) < 3:
                out.append((cls, " ".join(sa[max(0, k - 6):k + 4]) + "  ///  " + " ".join(sb[max(0, k - 6):k + 4])))
    if not only_lits and not any(c == "other" for c, _ in out):
        k = next(k for k in range(min(len(a), len(b))) if a[k] != b[k] and not (_c_int(a[k]) is not None and _c_int(b[k]) is not None))
        out.append(("cast-dropped", " ".join(a[max(0, k - 6):k + 8]) + "  ///  " + " ".join(b[max(0, k - 6):k + 8])))
    return out


def sx_parse(text):
    """Tiny s-expression reader for .fm / .lsp output (symbols, |..| symbols, strings, numbers, lists)."""
    toks = re.findall(r';[^\n]*|"(?:\\.|[^"\\])*"|\|[^|]*\||[()]|[^\s()]+', text)
    toks = [t for t in toks if not t.startswith(";")]
    pos = 0
    out = []

    def rd():
        nonlocal pos
        t = toks[pos]
        pos += 1
        if t == "(":
            l = []
            while pos < len(toks) and toks[pos] != ")":
                l.append(rd())
            pos += 1
            return l
        return t
    while pos < len(toks):
        out.append(rd())
    return out


def _sx_eval(x, kind):
    """Value of the FOAM/Lisp spelling of a reduced SInt."""
    def num(s):
        return int(s) if isinstance(s, str) and re.match(r"^-?\d+$", s) else None
    if kind == "fm":
        if isinstance(x, list) and len(x) == 2 and x[0] == "SInt":
            return num(x[1])
        if isinstance(x, list) and len(x) >= 3 and x[0] == "BCall":
            vs = [_sx_eval(y, kind) for y in x[2:]]
            op = x[1]
        else:
            return None
    else:
        if isinstance(x, list) and len(x) == 3 and x[0] == "the" and x[1] == "|SInt|":
            return num(x[2])
        if isinstance(x, list) and len(x) >= 2 and isinstance(x[0], str) and x[0].startswith("|SInt"):
            vs = [_sx_eval(y, kind) for y in x[1:]]
            op = x[0].strip("|")
        else:
            return None
    if None in vs:
        return None
    if op == "SIntShiftUp" and len(vs) == 2 and 0 <= vs[1] < 64:
        return wrap64(vs[0] << vs[1])
    if op == "SIntOr" and len(vs) == 2:
        return vs[0] | vs[1]
    if op == "SIntNegate" and len(vs) == 1:
        return wrap64(-vs[0])
    return None


def compare_sx(a_text, b_text, kind, allow_sint):
    fix = lambda t: re.sub(r'(generated by Aldor from file ")[^"]*(")', r"\1X\2", t, count=1)
    a, b = sx_parse(fix(a_text)), sx_parse(fix(b_text))
    out = []

    def walk(x, y, path):
        if len(out) > 50:
            return
        if x == y:
            return
        if allow_sint:
            vx = _sx_eval(x, kind)
            if vx is not None and not is_int32(vx) and isinstance(x, list) and not any(isinstance(e, list) for e in x):
                vy = _sx_eval(y, kind)
                if vy == vx:
                    return
        if isinstance(x, list) and isinstance(y, list) and len(x) == len(y):
            for k, (p, q) in enumerate(zip(x, y)):
                walk(p, q, path + [x[0] if x and isinstance(x[0], str) else "."])
            return
        cls = "integer-literal" if (_sx_eval(x, kind) is not None or _sx_eval(y, kind) is not None
                                    or (isinstance(x, str) and re.match(r"^-?\d+$", x))) else "other"
        if cls == "integer-literal":
            # which kind of constant: the innermost constructor the literal sits in
            head = x[0] if (isinstance(x, list) and x and isinstance(x[0], str)) else (path[-1] if path else "")
            if kind == "lsp" and isinstance(x, list) and len(x) == 3 and x[0] == "the":
                head = x[1]
            cls += "@" + re.sub(r"[^A-Za-z0-9]", "", str(head))[:12]
        out.append((cls, "%s: %s  ///  %s" % ("/".join(path[-4:]), str(x)[:120], str(y)[:120])))
    if len(a) != len(b):
        out.append(("other", "different number of top-level forms"))
    for p, q in zip(a, b):
        walk(p, q, [])
    return out


FAULT_RE = re.compile(r"Program fault|Compiler bug|Bug:|segmentation|abort process|Assertion|assert")


class E2E:
    def __init__(self, rep, exe, work):
        self.rep, self.exe, self.work = rep, exe, work
        self.runs = 0
        self.cmp = 0
        self.seen = set()
        self.timings = []

    def al(self, args, cwd, timeout=40):
        self.runs += 1
        rc, out, err, dt = aldor(self.exe, args, cwd, timeout)
        self.timings.append(dt)
        return rc, out, err

    def report(self, key, what, replay):
        if key in self.seen:
            return
        self.seen.add(key)
        self.rep.violation(what, replay, key=key)

    def put(self, d, name, text):
        os.makedirs(d, exist_ok=True)
        with open(os.path.join(d, name), "w") as f:
            f.write(text)

    def read(self, p):
        try:
            return open(p, errors="replace").read()
        except OSError:
            return None

    def routes(self, name, text, q, extra_files=(), libflag="-laldor", run=True, collapse=None):
        """x.as -> {c,fm,lsp}; x.ao -> same; x.fm -> same + back.fm; interp from source / from .ao."""
        base = os.path.join(self.work, "%s%s" % (name, q))
        shutil.rmtree(base, ignore_errors=True)
        dS = base + "/S"
        self.put(dS, name + ".as", text)
        for fn, data in extra_files:
            with open(os.path.join(dS, fn), "wb") as f:
                f.write(data)
        rep0 = {"kind": "e2e", "program": text, "name": name, "q": q}
        rc, out, err = self.al([q, "-Fao", "-Ffm", "-Fc", "-Flsp", name + ".as"], dS)
        if rc != 0:
            # does it compile when no .ao is asked for?  Then it is the saving that fails.
            dN = base + "/N"
            self.put(dN, name + ".as", text)
            rcn, outn, errn = self.al([q, "-Ffm", "-Fc", "-Flsp", name + ".as"], dN)
            if rcn == 0:
                msg = (out + err).strip()
                line = re.sub(r"0x[0-9a-f]+|-?\d{6,}", "N", msg.splitlines()[0] if msg else ("timeout" if rc == 124 else ""))[:90]
                self.report(collapse or ("e2e:write-ao-fails:" + re.sub(r"[^A-Za-z ]", "", line)[:40].strip()),
                            "a unit that compiles (-Ffm -Fc -Flsp) cannot be saved as .ao: %s" % line,
                            dict(rep0, rc=rc, output=msg[-300:], cmd="%s -Fao -Ffm -Fc -Flsp" % q))
            return None     # not a program of the domain (does not compile from source)
        S = {e: self.read("%s/%s.%s" % (dS, name, e)) for e in ("c", "fm", "lsp")}
        aobytes = open("%s/%s.ao" % (dS, name), "rb").read()
        res = {"ao": aobytes, "S": S}
        for route in ("ao", "fm"):
            d = "%s/%s" % (base, route)
            os.makedirs(d)
            shutil.copy("%s/%s.%s" % (dS, name, route), d)
            for fn, data in extra_files:
                with open(os.path.join(d, fn), "wb") as f:
                    f.write(data)
            fmout = "back.fm" if route == "fm" else name + ".fm"
            rc, out, err = self.al([q, "-Fc", "-Flsp", "-Ffm=" + fmout, "%s.%s" % (name, route)], d)
            msg = (out + err)
            if rc != 0 or FAULT_RE.search(msg):
                m = FAULT_RE.search(msg)
                line = re.sub(r"0x[0-9a-f]+|-?\d{6,}", "N", msg.strip().splitlines()[0] if msg.strip() else "")
                line = re.sub(r"in file \S*/", "in file ", line)[:90]      # the key must not depend on where the sources are
                self.report((collapse if (collapse and route == "ao") else None)
                            or "e2e:%s:compile-from-saved-fails:%s" % (route, re.sub(r"[^A-Za-z ]", "", line)[:50].strip()),
                            "generating code from the saved .%s of a unit that compiles from source fails: %s" % (route, line),
                            dict(rep0, route=route, rc=rc, output=msg[-400:]))
                continue
            for e in ("c", "fm", "lsp"):
                got = self.read("%s/%s" % (d, fmout if e == "fm" else "%s.%s" % (name, e)))
                if got is None or S[e] is None:
                    self.report("e2e:%s:%s:missing" % (route, e), "output .%s missing from the .%s route" % (e, route),
                                dict(rep0, route=route, ext=e))
                    continue
                self.cmp += 1
                if e == "fm" and route == "fm":
                    if got != S[e]:
                        diffs = compare_sx(S[e], got, "fm", False) or [("other", "formatting")]
                    else:
                        diffs = []
                elif e == "c":
                    diffs = compare_c(S[e], got, allow_sint=(route == "ao"))
                else:
                    diffs = compare_sx(S[e], got, "fm" if e == "fm" else "lsp", allow_sint=(route == "ao"))
                for cls in sorted(set(c for c, _ in diffs)):
                    det = [x for c, x in diffs if c == cls][:3]
                    self.report((collapse if (collapse and route == "ao") else None) or "e2e:%s:-F%s:%s" % (route, e, cls),
                                ".%s generated from x.%s differs from .%s generated from x.as (%s): %s" % (e, route, e, cls, det[0][:160]),
                                dict(rep0, route=route, ext=e, cls=cls, details=det))
        if run:
            dR = base + "/R"
            self.put(dR, name + ".as", text)
            for fn, data in extra_files:
                with open(os.path.join(dR, fn), "wb") as f:
                    f.write(data)
            rc1, out1, err1 = self.al([q, "-ginterp", name + ".as"], dR)
            dA = base + "/RA"
            os.makedirs(dA)
            with open("%s/%s.ao" % (dA, name), "wb") as f:
                f.write(aobytes)
            for fn, data in extra_files:
                with open(os.path.join(dA, fn), "wb") as f:
                    f.write(data)
            rc2, out2, err2 = self.al([q, libflag, "-ginterp", name + ".ao"], dA)
            res["run"] = (rc1, out1)
            if rc1 == 0 and (rc2, out2) != (rc1, out1):
                self.report("e2e:ao:run-output",
                            "the program run from its saved .ao behaves differently from the run from source",
                            dict(rep0, route="ao", from_source=out1[-300:], from_ao=(out2 + err2)[-300:], rc=(rc1, rc2)))
            self.cmp += 1
        return res

    def split(self, prog, q):
        """library + client (against .ao and against an ar member) versus one unit."""
        name = prog["name"]
        base = os.path.join(self.work, "split-%s%s" % (name, q))
        shutil.rmtree(base, ignore_errors=True)
        dW, dL, dC, dA = base + "/W", base + "/L", base + "/C", base + "/A"
        self.put(dW, name + "w.as", prog["whole"])
        rcw, outw, errw = self.al([q, "-ginterp", name + "w.as"], dW)
        if rcw != 0:
            return False
        self.put(dL, name + "l.as", prog["lib"])
        rc, out, err = self.al([q, "-Fao", name + "l.as"], dL)
        rep0 = {"kind": "split", "program": prog, "q": q}
        if rc != 0:
            self.report("split:library-unit-does-not-compile", "the library half of a program that compiles as one unit does not compile",
                        dict(rep0, output=(out + err)[-300:]))
            return True
        ao = open("%s/%sl.ao" % (dL, name), "rb").read()
        self.put(dC, name + "c.as", prog["client_ao"])
        with open("%s/%sl.ao" % (dC, name), "wb") as f:
            f.write(ao)
        rcc, outc, errc = self.al([q, "-Fao", "-Ffm", "-Fc", "-Flsp", "-ginterp", name + "c.as"], dC)
        self.cmp += 1
        if (rcc, outc) != (rcw, outw):
            self.report("split:ao:run-output", "library/client split (client uses x.ao) behaves differently from the one-unit program",
                        dict(rep0, whole=outw[-300:], split=(outc + errc)[-300:], rc=(rcw, rcc)))
        # archive member
        os.makedirs(dA)
        with open("%s/%sl.ao" % (dA, name), "wb") as f:
            f.write(ao)
        C.run(["ar", "cr", "lib%sl.al" % name, "%sl.ao" % name], cwd=dA, timeout=30)
        os.remove("%s/%sl.ao" % (dA, name))
        self.put(dA, name + "c.as", prog["client_al"])
        rca, outa, erra = self.al([q, "-Y.", "-Fao", "-Ffm", "-Fc", "-Flsp", "-ginterp", name + "c.as"], dA)
        self.cmp += 1
        if (rca, outa) != (rcw, outw):
            self.report("split:al:run-output", "library/client split (client uses a member of x.al) behaves differently from the one-unit program",
                        dict(rep0, whole=outw[-300:], split=(outa + erra)[-300:], rc=(rcw, rca)))
        for e in ("c", "fm", "lsp"):
            x, y = self.read("%s/%sc.%s" % (dC, name, e)), self.read("%s/%sc.%s" % (dA, name, e))
            self.cmp += 1
            if x is None or y is None or x != y:
                self.report("split:al:-F%s" % e, "client code generated against a member of x.al differs from client code generated against x.ao",
                            dict(rep0, ext=e))
        return True


def corpus_programs():
    d = C.R + "/aldor/test"
    out = []
    if os.path.isdir(d):
        for f in sorted(os.listdir(d)):
            if f.endswith(".as"):
                out.append(os.path.join(d, f))
    return out


# targeted programs for the two encoder width defects and the .fm reader (kept so that a
# regression or a repair is seen end to end, not only in the harness)
def prog_many_formats(n=300):
    L = ['#include "aldor"', '#include "aldorio"', "import from MachineInteger;"]
    for i in range(n):
        L.append("f%d(x: MachineInteger): MachineInteger == { g(y: MachineInteger): MachineInteger == x + y + %d; g(1) }" % (i, i))
    L.append("mv(x: MachineInteger): (MachineInteger, MachineInteger) == (x, x + 1);")
    L.append("(a, b) := mv(5);")
    L.append('stdout << a << " " << b << newline;')
    return "\n".join(L) + "\n"


def prog_big_const():
    n = (1 << 4994) + 0x1234567
    return ('#include "aldor"\n#include "aldorio"\nimport from Integer;\n'
            "FooB: with { bi0: () -> Integer; bi1: () -> Integer } == add {\n  bi0(): Integer == %d;\n  bi1(): Integer == %d;\n}\n"
            "import from FooB;\nstdout << bi0() << newline << bi1() << newline;\n" % (n, n >> 3000))


def prog_sint_text():
    """machine integers at the edges of every representation, through every route (regression item
    for the .fm reader, which once mangled values beyond an immediate big integer)"""
    vals = [9223372036854775807, 4611686018427387904, 4611686018427387903, 2305843009213693952, 1152921504606846976,
            4294967296, 2147483648, 2147483647, 6442450944]
    L = ['#include "aldor"', '#include "aldorio"', "import from MachineInteger;", "FooS: with {"]
    L += ["  c%d: () -> MachineInteger; d%d: () -> MachineInteger;" % (i, i) for i in range(len(vals))]
    L += ["  cmin: () -> MachineInteger;", "} == add {"]
    for i, v in enumerate(vals):
        L.append("  c%d(): MachineInteger == %d;" % (i, v))
        L.append("  d%d(): MachineInteger == 0 - %d;" % (i, v))
    L += ["  cmin(): MachineInteger == -9223372036854775807 - 1;", "}", "import from FooS;"]
    for i in range(len(vals)):
        L.append("stdout << c%d() << \" \" << d%d() << newline;" % (i, i))
    L.append("stdout << cmin() << newline;")
    return "\n".join(L) + "\n"


def prog_high_char():
    return ('#include "aldor"\n#include "aldorio"\nimport from Character, String, MachineInteger;\n'
            'c: Character == char 233;\nstdout << ord c << newline;\n')


def prog_float_text():
    """float constants through the text form: both zeros, values that need 17 digits, extremes, single floats"""
    ds = ["0.0", "0.1", "0.30000000000000004", "1.7976931348623157e308", "2.2250738585072014e-308", "4.9e-324",
          "123456789.12345678", "9007199254740993.0", "5e-324", "1.0e22", "1.0e23", "2.5"]
    ss = ["0.0", "0.1", "3.4028235e38", "1.17549435e-38", "1.0e-45", "16777217.0", "2.5"]
    L = ['#include "aldor"', '#include "aldorio"', "import from DoubleFloat, SingleFloat;", "FooF: with {"]
    L += ["  d%d: () -> DoubleFloat; nd%d: () -> DoubleFloat;" % (i, i) for i in range(len(ds))]
    L += ["  s%d: () -> SingleFloat; ns%d: () -> SingleFloat;" % (i, i) for i in range(len(ss))]
    L += ["} == add {"]
    for i, v in enumerate(ds):
        L += ["  d%d(): DoubleFloat == %s;" % (i, v), "  nd%d(): DoubleFloat == -%s;" % (i, v)]
    for i, v in enumerate(ss):
        L += ["  s%d(): SingleFloat == %s;" % (i, v), "  ns%d(): SingleFloat == -%s;" % (i, v)]
    L += ["}", "import from FooF;"]
    for i in range(len(ds)):
        L.append("stdout << d%d() << \" \" << nd%d() << newline;" % (i, i))
    for i in range(len(ss)):
        L.append("stdout << s%d() << \" \" << ns%d() << newline;" % (i, i))
    return "\n".join(L) + "\n"


def stage_e2e(rep, tier, info):
    exe = C.build_compiler()
    work = C.scratch("c05e2e")
    rng = C.rng("C05/e2e")
    e = E2E(rep, exe, work)
    levels = ["-Q0", "-Q2", "-Q9"]
    nprog = 3 if tier == "quick" else 12
    progs = [gen_program(rng, k) for k in range(nprog)]
    corpus = corpus_programs()
    csel = corpus if tier != "quick" else rng.sample(corpus, min(8, len(corpus)))
    jobs = []
    for p in progs:
        for q in levels:
            jobs.append(("routes", p["name"] + "w", p["whole"], q, "-laldor"))
            jobs.append(("split", p, None, q, None))
    for f in csel:
        for q in levels:
            jobs.append(("routes", os.path.basename(f)[:-3], open(f, errors="replace").read(), q, "-lfoamlib"))
    jobs.append(("routes-norun", "manyfmt", prog_many_formats(), "-Q0", None, "e2e:ao:Prog-format-index>255"))
    jobs.append(("routes-norun", "bigconst", prog_big_const(), "-Q2", None, "e2e:ao:BInt-constant-256..510-places"))
    for q in levels:
        jobs.append(("routes", "sintext", prog_sint_text(), q, "-laldor"))
    jobs.append(("routes", "highchar", prog_high_char(), "-Q2", "-laldor", "e2e:ao:Char-constant-above-127"))
    for q in levels:
        jobs.append(("routes", "floattext", prog_float_text(), q, "-laldor"))
    st = {"programs_generated": len(progs), "programs_corpus": 0, "compiled": 0, "skipped_not_compiling": []}

    def one(j):
        if j[0] == "split":
            return j, e.split(j[1], j[3])
        return j, e.routes(j[1], j[2], j[3], libflag=j[4] or "-laldor", run=(j[0] == "routes"),
                           collapse=(j[5] if len(j) > 5 else None))
    done_corpus = set()
    fresh = []          # .ao files written by the REBUILT compiler (the library files of the tree were written earlier)
    with concurrent.futures.ThreadPoolExecutor(min(8, C.NCPU)) as ex:
        for j, r in ex.map(one, jobs):
            if j[0] == "split":
                continue
            if r is not None and r.get("ao") and len(fresh) < (12 if tier == "quick" else 60):
                fresh.append((j[1], j[3], r["ao"]))
            if r is None:
                st["skipped_not_compiling"].append("%s%s" % (j[1], j[3]))
            else:
                st["compiled"] += 1
                if j[4] == "-lfoamlib":
                    done_corpus.add(j[1])
    if st["compiled"] == 0:
        rep.violation("end-to-end: not one generated or corpus program compiles from source with the rebuilt compiler",
                      {"kind": "e2e-none", "jobs": len(jobs)}, no_input=True)
    # the container and the modelled section contents of what THIS compiler wrote
    drv, har = Line(build_driver()), Line(build_harness())
    st["fresh_ao_checked"] = 0
    for name, q, data in fresh:
        fp = os.path.join(work, "fresh-%s%s" % (name, q))
        os.makedirs(fp, exist_ok=True)
        fn = os.path.join(fp, name + ".ao")
        with open(fn, "wb") as f:
            f.write(data)
        exp = next((pp["exported"] for pp in progs if pp["name"] + "w" == name), ())
        probs, _ = check_ao(fn, info, drv, har, True, expect_names=exp)
        st["fresh_ao_checked"] += 1
        if probs:
            e.report("ao-written-now:" + ";".join(sorted(set(p.split(" (")[0] for p in probs)))[:110],
                     "a unit saved by the rebuilt compiler does not read back as written: %s" % "; ".join(probs)[:250],
                     {"kind": "e2e", "program": next(jj[2] for jj in jobs if jj[0] != "split" and jj[1] == name), "name": name, "q": q,
                      "problems": probs})
    drv.close()
    har.close()
    st["programs_corpus"] = len(done_corpus)
    st["skipped_not_compiling"] = sorted(set(s[:-3] for s in st["skipped_not_compiling"]))[:20]
    st["compiler_runs"] = e.runs
    st["comparisons"] = e.cmp
    st["median_run_s"] = round(sorted(e.timings)[len(e.timings) // 2], 3) if e.timings else None
    return st


# ------------------------------------------------------------------ run / replay

def searcher_factory(rep, tier, state):
    def searcher(log):
        # A broken proof does not say which input fails: run the tie (property oracle on the
        # implementation) and let it name one.
        try:
            info = state["info"]
            drv, har = Line(build_driver()), Line(build_harness())
            stage_trees(rep, tier, info, drv, har)
        except Exception as e:
            rep.notes.append("searcher: %r" % e)
    return searcher


def run(rep, tier):
    t0 = time.time()
    state = {}
    try:
        info = generate()
    except foaminfo_gen.GenError as e:
        rep.violation("translator no longer reads foam.c/foam.h/lib.c/lib.h: %s" % e, {"error": str(e)}, no_input=True)
        return
    state["info"] = info
    ok = C.proof_stage(rep, ID, ["Props/Properties_C05.vo", "Foam/Extract.vo"], "Props/Properties_C05.v",
                       searcher_factory(rep, tier, state))
    t1 = time.time()
    if not ok:
        return
    drv, har = Line(build_driver()), Line(build_harness())
    p = drv.ask("params")
    if p != "1 1":
        rep.violation("side conditions on the generated table fail in the extracted model: %s" % p, {"params": p}, no_input=True)
        return
    ts = stage_trees(rep, tier, info, drv, har)
    tx = stage_text(rep, tier, info, drv, har)
    drv.close()
    har.close()
    t2 = time.time()
    ao = stage_ao(rep, tier, info)
    t3 = time.time()
    e2 = stage_e2e(rep, tier, info)
    t4 = time.time()
    rep.add_cov(evaluations=ts["trees"] + ao["files"] + e2["comparisons"],
                distinct_nontrivial=ts["distinct"] + ao["files"],
                traces_validated_against_impl=ts["wf"] + ao["c_checked"],
                rule="trees: generated over the current foamInfoTable with boundary values per argf letter; "
                     ".ao: seeded sample (quick) / all (thorough) of the built libraries; e2e: generated "
                     "extreme-constant programs + corpus tests x {-Q0,-Q2,-Q9} x {.ao,.fm,.al,split}",
                samples=ts["samples"],
                input_distribution={"trees": {k: ts[k] for k in ("trees", "wf", "not_wf", "nodes", "c_crash")},
                                    "tree_mix": ts["dist"], "text": tx, "ao": ao, "e2e": e2},
                stage_seconds={"generate+proof": round(t1 - t0, 1), "trees": round(t2 - t1, 1),
                               "ao": round(t3 - t2, 1), "e2e": round(t4 - t3, 1)})
    rep.assume(
        "extraction: ExtrOcamlBasic only; Coq Z/positive/nat kept; driver.ml converts hex text <-> Z/lists only",
        "harness/foam/h.c #includes foam.c of the current tree (to reach the static labelFmt) and links every other compiler source",
        "floats are carried as their portable 6/10-byte images; native<->portable conversion is C19's subject",
        "Prog size field: the model emits the final back-patched value directly (foam_params_ok: X only first letter of Prog)",
        "decoder refuses an n-ary count larger than the input length + IMMED_FORMS up front (C would run off the buffer)",
        "section CONTENTS modelled: foam (codec), fileid, name, kind, lazy, file; not modelled (end-to-end only): type, inline, twins, "
        "extend, doc, foreign, syme, fsyme, pos, postbl, macros; the .fm layout (line breaking) is not modelled; archive.c is C17's",
        "tree domain excludes node kinds the compiler never builds (Arb, Rec, TR as nodes; CFCall/OFCall abort in foamTagFormat)",
        "e2e normalisations: the file name inside the 'generated by Aldor from file' line; on the .ao route an integer "
        "literal outside int32 may be replaced by an SIntOr/SIntShiftUp/SIntNegate expression that evaluates (64-bit) to the same value",
    )
    try:
        rep.add_cov(drift_hashes=_fn_hashes())
    except Exception:
        pass


def _fn_hashes():
    txt = open(C.SRC + "/foam.c").read()
    out = {}
    for fn in ("foamToBuffer", "foamFrBuffer", "foamTagFormat", "foamSIntReduce"):
        m = re.search(r"\n%s\(.*?\n}\n" % fn, txt, re.S)
        if m:
            out[fn] = hashlib.sha1(re.sub(r"\s+", " ", m.group(0)).encode()).hexdigest()[:12]
    return out


def replay(path):
    rp = json.load(open(path))
    r = rp["replay"]
    info = generate()
    if r.get("kind") == "tree":
        har = Line(build_harness())
        orc = Oracle(info)
        t = parse_toks(r["tree"].split(), 0, False)[0]
        a = har.ask("tree %x %s" % (r["latch"], " ".join(toks_of(t, True))), timeout=60)
        if a is None:
            print("REPRODUCED: harness died (status %s)" % har.last_rc)
            return 1
        cd = a.split("|")[1].split()
        d = orc.differ(t, parse_toks(cd[2:], 0, True)[0])
        print("REPRODUCED: %s" % (d,) if d else "not reproduced")
        return 1 if d else 0
    if r.get("kind") in ("e2e", "split"):
        rep = C.Report(ID, "quick", LEVEL)
        e = E2E(rep, C.build_compiler(), C.scratch("c05replay"))
        if r["kind"] == "e2e":
            e.routes(r["name"], r["program"], r["q"], run=True)
        else:
            e.split(r["program"], r["q"])
        return 1 if (rep.violations or rep.known) else 0
    if r.get("kind") == "ao":
        probs, _ = check_ao(r["file"], info, Line(build_driver()), Line(build_harness()), True)
        print(probs)
        return 1 if probs else 0
    print("nothing to re-run for this replay")
    return 1
