"""C09 -- Garbage collection never changes what a program computes.

Proved part (coq/Props/Properties_C09.v, proofs in coq/Store/GcFacts.v and coq/GcSched):
on the abstract heap / mutator language of AV.Store.Gc, for ALL programs and ALL schedules
(any predicate on allocation ordinals, in particular the hook's `n mod k = j'), the outputs
equal those of the run without collections (schedule_irrelevant), a reachable block survives
unchanged, only unreachable blocks are freed, no variable ever dangles (no_dangling); zeroing dead
variable slots before a collection (fint.c:fintFreeJunk) is not observable (fint_free_junk_safe).

Explored part (this file; level `exploration', PARTIAL): the real collector finds its roots by
conservatively scanning the C stack, registers and static data - not modelled.  Allocation-heavy
programs are run
    (a) interpreted  (`aldor -ginterp', compiler built from the current sources; from source and
        from a saved .ao; -Wcheck so that freed storage is poisoned with 0xDD),
    (b) as gcc-built executables linked with libfoam.a compiled from the current sources,
under ALDOR_VERIF_GC=k:j (hook in store.c:stoAlloc: collect at every allocation whose ordinal
is j modulo k).  stdout and exit status must equal the run without the variable, the run with
the collector switched off (-Wno-gc, interpreter only) and - where there is one - the oracle's
expected output (Coq MiniAldor evaluator / Python oracle of tools/c09_family.py); no run may end
in a storage fault or show poisoned bytes.  A failing (program, k, j) is shrunk to a small
program and the smallest failing k.
"""
import collections, concurrent.futures, itertools, json, os, random, re, shutil, signal, subprocess, time
from vlib import common as C
from props import mini
from tools import c09_family as F

ID = "C09"
LEVEL = "exploration"
MANIFEST = {
    "level_text": "Partial.  Machine-checked (Coq) for the abstract collector: for every program of a mutator language "
                  "(allocate blocks with pointer fields, drop roots, interior pointers, load, store, output, pointer "
                  "equality) and every set of allocation points at which a collection is forced, the outputs equal those "
                  "of the run without collections; reachable blocks survive unchanged; nothing reachable is ever freed; "
                  "clearing dead variable slots before a collection is unobservable.  "
                  "For the real collector (conservative scan of C stack, registers, static data) the statement is only "
                  "explored: generated and hand-written allocation-heavy programs and a sample of the repository's test "
                  "programs are run interpreted and compiled under forced collection schedules k:j (quick: k in "
                  "{1,2,3,5,17,100}; thorough: a sweep of k up to 1000; all offsets j<k for small k, sampled otherwise) "
                  "with freed storage poisoned, and compared with the unforced run, the collector-off run and the oracle.",
    "level_note": "Not covered by the theorems: which words the real marker scans (stoGcMark over raw memory), pointers "
                  "the C compiler or the Aldor optimiser (of_killp.c) hides from it, runtime temporaries (bigint.c), address "
                  "reuse after a premature free.  Trusted: Coq kernel; the hook ALDOR_VERIF_GC and the 0xDD poisoning of "
                  "store.c (checked to be active on every run by harness/c09/h.c); the Python oracle of the hand family; "
                  "MiniAldor oracle (coq/Mini, owned by C01).  The Aldor libraries (libaldor, libaxllib) are the pre-built "
                  "ones of /repo; compiler, libfoam.a and the generated C are built from the current tree on every run.",
    "technique": "Coq proof of the abstract mark/sweep collector + schedule enumeration on the real runtime through the "
                 "ALDOR_VERIF_GC hook (interpreter and compiled route), differential against no-GC runs and oracles, "
                 "shrinking of (program, k, j)",
    "design_ref": "DESIGN.md section 2.5 (H1), section 4 / C09",
}

POISON_BYTES = b"\xdd\xdd\xdd"
POISON_TEXT = [b"-2459565876494606883", b"15987178197214944733", b"3722304989", b"-572662307",
               b"DDDDDDDD", b"dddddddd"]
FAULT_TEXT = [b"Program fault", b"Storage allocation error", b"segmentation", b"Segmentation", b"bus error",
              b"Compiler bug", b"Bug:", b"Assertion failed"]
HARNESS_FILES = ["btree.c", "memclim.c", "opsys.c", "util.c", "timer.c", "debug.c"]
_uniq = itertools.count()


# ------------------------------------------------------------------ running

def runb(cmd, cwd=None, env=None, timeout=60):
    """run, bytes captured, own process group killed on timeout.  -> dict(rc, out, err, wall, timeout)"""
    t0 = time.time()
    p = subprocess.Popen(cmd, cwd=cwd, env=env, stdout=subprocess.PIPE, stderr=subprocess.PIPE,
                         stdin=subprocess.DEVNULL, start_new_session=True)
    try:
        out, err = p.communicate(timeout=timeout)
        to = False
    except subprocess.TimeoutExpired:
        try:
            os.killpg(p.pid, signal.SIGKILL)
        except OSError:
            pass
        out, err = p.communicate()
        to = True
    return {"rc": p.returncode, "out": out, "err": err, "wall": time.time() - t0, "timeout": to}


def lib_flags(lib):
    RB = C.RB
    if lib == "axllib":
        return ["-I%s/lib/axllib/include" % RB, "-Y%s/lib/axllib/src" % RB], "-laxllib"
    return ["-I%s/lib/aldor/include" % RB, "-Y%s/lib/aldor/src" % RB], "-laldor"


class Tools:
    def __init__(self):
        self.aldor = C.build_compiler()
        self.rt = C.build_runtime()
        self.env = C.aldor_env()
        self.env.pop("ALDOR_VERIF_GC", None)
        self.env.pop("GC_DETAIL", None)

    def base(self, lib):
        inc, _ = lib_flags(lib)
        return [self.aldor, "-Nfile=%s/aldor/src/aldor.conf" % C.RB, "-Y" + self.rt,
                "-Y%s/aldor/lib/libfoam/al" % C.RB] + inc + ["-Mno-warnings"]

    def build_cmd(self, lib, opt=()):
        _, l = lib_flags(lib)
        return self.base(lib) + list(opt) + ["-Ccc=%s/aldor/subcmd/unitools/unicl" % C.RB, "-Y%s/aldor/lib/libfoam" % C.RB, l,
                                 "-Cargs=-Wconfig=%s/aldor/src/aldor.conf -I%s" % (C.RB, C.eff_src()),
                                 "-fao", "-fc", "-fx=p.exe", "p.as"]

    def route_cmd(self, route, p):
        """-> (command, working directory).  p['chk'] = ['-Wcheck'] (store washing + assertions on) unless the
        program's unforced run already trips an interpreter assertion under -Wcheck."""
        lib, d = p.get("lib", "aldor"), p["dir"]
        _, l = lib_flags(lib)
        chk = p.get("chk", ["-Wcheck"]) + list(p.get("opt", ()))
        if route == "exe":
            return [os.path.join(d, "p.exe")], d
        if route == "interp-ao":             # own directory: `-ginterp p.as' deletes a p.ao beside it
            return self.base(lib) + [l] + chk + ["-ginterp", "p.ao"], os.path.join(d, "ao")
        if route == "interp-as":
            return self.base(lib) + chk + ["-ginterp", "p.as"], d
        if route == "interp-nogc":
            return self.base(lib) + chk + ["-Wno-gc", "-ginterp", "p.as"], d
        raise ValueError(route)

    def run(self, route, p, sched=None, timeout=60, detail=False):
        env = dict(self.env)
        if sched:
            env["ALDOR_VERIF_GC"] = "%d:%d" % sched
        if detail:
            env["GC_DETAIL"] = "x"
        cmd, cwd = self.route_cmd(route, p)
        if route in ("interp-as", "interp-nogc"):
            # `aldor -ginterp p.as' writes and removes files beside the source (p.ao): concurrent runs of the same
            # program must not share a directory
            tmp = os.path.join(cwd, "r%d" % next(_uniq))
            os.makedirs(tmp)
            try:
                for fn in os.listdir(cwd):
                    if fn.endswith(".as"):
                        os.symlink(os.path.join(cwd, fn), os.path.join(tmp, fn))
                return runb(cmd, cwd=tmp, env=env, timeout=timeout)
            finally:
                shutil.rmtree(tmp, ignore_errors=True)
        return runb(cmd, cwd=cwd, env=env, timeout=timeout)


def how_to_replay(tools, p, route, sched):
    lib = p.get("lib", "aldor")
    env = "ALDORROOT=%s/aldor LC_ALL=C" % C.RB
    q = lambda cmd: " ".join("'%s'" % a if " " in a else a for a in cmd)
    cmd, cwd = tools.route_cmd(route if route != "compile" else "exe", dict(p, dir="."))
    steps = ["./check C09 --replay <this file>      # rebuilds compiler + libfoam.a from the current sources.  By hand:",
             "# write replay.src to p.as; aldor = compiler built from the current tree with -DALDOR_VERIF; the first -Y is "
             "the directory of libfoam.a built from the current tree with -DFOAM_RTS -DALDOR_VERIF",
             "%s %s" % (env, q(tools.build_cmd(lib, p.get("opt", ()))))]
    if route == "compile":
        bc = tools.build_cmd(lib, p.get("opt", ()))
        return steps[:2] + ["%s %s   # fails" % (env, q(bc)), "%s %s   # collector off: succeeds" % (env, q(bc[:1] + ["-Wno-gc"] + bc[1:]))]
    if route == "interp-ao":
        steps.append("mkdir ao && mv p.ao ao/ && cd ao")
    steps.append("%s %s   # reference run" % (env, q(cmd)))
    if sched and sched[0]:
        steps.append("%s ALDOR_VERIF_GC=%d:%d %s   # differs" % (env, sched[0], sched[1], q(cmd)))
    else:
        steps.append("%s %s   # collector off: differs" % (env, q(tools.route_cmd("interp-nogc", dict(p, dir="."))[0])))
    return steps


# ------------------------------------------------------------------ judging one run

def classify(r, base):
    """None when run r shows the same behaviour as the baseline run; else (kind, detail)."""
    blob = r["out"] + r["err"]
    if not r["timeout"] and r["out"] == base["out"] and r["rc"] == base["rc"]:
        return None
    if r["timeout"]:
        return ("hang", "no result within the time limit (%.0fs)" % r["wall"])
    kind = None
    if r["rc"] < 0 or r["rc"] in (134, 139) or any(t in blob for t in FAULT_TEXT):
        kind = "fault"
    elif POISON_BYTES in r["out"] or any(t in r["out"] and t not in base["out"] for t in POISON_TEXT):
        kind = "poison"
    if r["out"] != base["out"]:
        kind = kind or "output"
    elif r["rc"] != base["rc"]:
        kind = kind or "status"
    if kind is None:
        return None
    a, b = base["out"].split(b"\n"), r["out"].split(b"\n")
    i = 0
    while i < min(len(a), len(b)) and a[i] == b[i]:
        i += 1
    detail = "rc %s (baseline %s); first difference at output line %d: baseline %r, forced %r; stderr %r" % (
        r["rc"], base["rc"], i + 1, (a[i] if i < len(a) else b"<end>")[:120], (b[i] if i < len(b) else b"<end>")[:120],
        r["err"][-200:])
    return (kind, detail)


# ------------------------------------------------------------------ programs

OPT_CHOICES = ([], [], ["-Q3"], ["-Q3", "-Qkillp"])     # of_killp.c (pointer crushing) is only enabled by -Qkillp


def hand_program(pseed, nblocks=None, scale=None, spec=None, opt=None):
    """Deterministic hand-family program from its own seed (or from an explicit block spec
    [(block index, block seed, scale)], used by the shrinker)."""
    if spec is None:
        r = random.Random(pseed)
        nb = nblocks or r.choice((1, 2, 2, 3))
        spec = [(r.randrange(len(F.BLOCKS)), r.randrange(1 << 30), scale or r.choice((1, 1, 2))) for _ in range(nb)]
        if opt is None:
            opt = r.choice(OPT_CHOICES)
    opt = list(opt or [])
    blks = [F.BLOCKS[bi](random.Random(bs), i, sc) for i, (bi, bs, sc) in enumerate(spec)]
    out = []
    for b in blks:
        out += b.out
    for b in blks:
        out += b.late_out
    shapes = [b.shape for b in blks]
    return {"name": "hand-%s(%s)%s" % (pseed, "+".join(shapes), "@" + "".join(opt) if opt else ""), "family": "hand",
            "lib": "aldor", "shapes": shapes, "opt": opt,
            "spec": [list(s) for s in spec], "pseed": pseed,
            "src": F.HEADER + "".join(b.src for b in blks) + "".join(b.late_src for b in blks),
            "expect_out": "".join(l + "\n" for l in out), "expect_status": "ok"}


def hand_programs(rng, n):
    progs = []
    for bi in range(len(F.BLOCKS)):          # one single-block program per shape, whatever the seed
        if len(progs) < n:
            progs.append(hand_program("s%d" % bi, spec=[(bi, rng.randrange(1 << 30), 1)]))
    while len(progs) < n:
        progs.append(hand_program(rng.randrange(1 << 40)))
    return progs


def scale_programs(rng, n, consts, tier):
    """Deep / big live structures (tools/c09_family.py, scale family): chains nested deeper than any bound on the
    marker's recursion (but below the ~75000 at which the unchanged marker overflows the C stack: known finding),
    arrays and strings bigger than the fixed-size limit, a page, 64 KB, 1 MB."""
    kinds = ["chain-first", "chain-middle", "array-mid" if tier == "quick" else "array", "strings", "chain", "array"]
    return [F.scale_program(kinds[i % len(kinds)], rng.randrange(1 << 40), consts) for i in range(n)]


ALLOC_FEATURES = ("int-arith", "int-div", "string-op", "recursion", "for", "while", "call", "convert")


def mini_programs(rng, n, tier):
    """MiniAldor programs (verified oracle), biased to what allocates in this subset: Integer
    (bignum) arithmetic, string operations, recursion and loops."""
    cand = [(rng.randrange(1, 2 ** 40), rng.choice((12, 18, 25) if tier == "quick" else (12, 18, 25, 35)))
            for _ in range(4 * n)]
    ps = mini.batch(["gen %d %d" % c for c in cand])
    ps = [p for p in ps if p.get("typed") is True and p.get("result") == "done" and p.get("expect_status") == "ok"]

    def score(p):
        return sum(1 for f in ALLOC_FEATURES if f in p["features"]) + \
            (2 if "int-arith" in p["features"] and "string-op" in p["features"] else 0)
    ps.sort(key=lambda p: -score(p))
    out = []
    for p in ps[:n]:
        out.append({"name": "mini-%d-%d" % (p["seed"], p["size"]), "family": "mini", "lib": "aldor",
                    "shapes": sorted(set(p["features"]) & set(ALLOC_FEATURES)), "seed": p["seed"], "size": p["size"],
                    "src": p["src"], "expect_out": p["expect_out"], "expect_status": p["expect_status"]})
    return out


def repo_programs(rng, n):
    """Sample of the repository's own test programs (lib/aldor/test, lib/axllib/test: the entries
    `make check' builds as executables).  No oracle: the unforced run, required to be reproducible,
    is the reference."""
    allp = []
    for lib in ("aldor", "axllib"):
        tdir = "%s/lib/%s/test" % (C.R, lib)
        try:
            names = re.findall(r"check_PROGRAMS \+= (\S+)/\S+", open(tdir + "/Tests.am").read())
        except OSError:
            continue
        for nm in names:
            path = "%s/%s/%s.as" % (tdir, nm, nm)
            if os.path.exists(path):
                try:
                    src = open(path, errors="replace").read()
                except OSError:
                    continue
                if len(os.listdir(os.path.dirname(path))) and "#include" in src and len(src) < 30000:
                    allp.append({"name": "%s/%s" % (lib, nm), "family": "repo", "lib": lib, "shapes": ["repo-test"],
                                 "src": src, "srcpath": path, "expect_out": None, "expect_status": None})
    allp.sort(key=lambda p: p["name"])
    rng.shuffle(allp)
    return allp[:n]


# ------------------------------------------------------------------ preparing one program

def faulty(b):
    return b["rc"] < 0 or any(t in b["out"] + b["err"] for t in FAULT_TEXT)


def agrees(p, b):
    """does the unforced run b give what the oracle says (repository tests: no oracle, must not fault)"""
    if p["expect_out"] is None:
        return not faulty(b)
    return b["out"] == p["expect_out"].encode() and (b["rc"] == 0) == (p["expect_status"] == "ok")


def prepare(tools, p, d, want_interp=True):
    """Compile p and run every route without forced collections.  Fills p['dir'], p['base'][route] for
    the routes that can serve as reference (they agree with the oracle; repository tests: reproducible and
    fault-free), p['natural'] = differences that only the collector's natural schedule can explain.
    Sets p['skip'] = reason when no route can serve."""
    os.makedirs(os.path.join(d, "ao"), exist_ok=True)
    p["dir"] = d
    p["base"] = {}
    p["natural"] = []
    p["dropped"] = {}
    lib = p.get("lib", "aldor")
    with open(os.path.join(d, "p.as"), "w") as f:
        f.write(p["src"])
    if p.get("srcpath"):        # repository test: sibling files may be #included
        sd = os.path.dirname(p["srcpath"])
        for fn in os.listdir(sd):
            if fn.endswith(".as") and fn != os.path.basename(p["srcpath"]):
                shutil.copy(os.path.join(sd, fn), os.path.join(d, fn))
    def built(r):
        return r["rc"] == 0 and not r["timeout"] and os.path.exists(os.path.join(d, "p.exe")) and \
            os.path.exists(os.path.join(d, "p.ao"))
    bc = tools.build_cmd(lib, p.get("opt", ()))
    t_build, t_base = p.get("timeouts", (60, 20))
    r = runb(bc, cwd=d, env=tools.env, timeout=t_build)
    if not built(r):
        # The compiler is a collected program too: does it build with its collector off?
        for fn in ("p.exe", "p.ao", "p.c"):
            if os.path.exists(os.path.join(d, fn)):
                os.unlink(os.path.join(d, fn))
        r2 = runb(bc[:1] + ["-Wno-gc"] + bc[1:], cwd=d, env=tools.env, timeout=t_build)
        if not built(r2):
            p["skip"] = "does not build (rc %s): %s" % (r["rc"], (r["out"] + r["err"])[-300:].decode("utf-8", "replace"))
            return p
        kind = "hang" if r["timeout"] else "fault" if faulty(r) else "status"
        p["natural"].append(("compile", "natural:" + kind,
                             "the compiler fails on this program (rc %s, %s) and succeeds with its collector off (-Wno-gc)"
                             % (r["rc"], (r["out"] + r["err"])[-300:].decode("utf-8", "replace").replace("\n", " "))))
    shutil.move(os.path.join(d, "p.ao"), os.path.join(d, "ao", "p.ao"))
    routes = ["exe"] + (["interp-nogc", "interp-as", "interp-ao"] if want_interp else [])
    runs = {}
    for chk in (["-Wcheck"], []):
        p["chk"] = chk
        for rt in routes:
            if rt in runs:
                continue
            runs[rt] = tools.run(rt, p, timeout=t_base)
        if not want_interp or agrees(p, runs["interp-nogc"]) or not chk:
            break
        # the collector-off run already fails under -Wcheck (an interpreter assertion, nothing to do with
        # collection): use the interpreter without -Wcheck for this program (freed storage not poisoned)
        for rt in routes[1:]:
            runs.pop(rt, None)
    unstable = set()
    if p["expect_out"] is None:          # no oracle: the reference run must at least be reproducible
        for rt in routes:
            b2 = tools.run(rt, p, timeout=t_base)
            if b2["out"] != runs[rt]["out"] or b2["rc"] != runs[rt]["rc"]:
                unstable.add(rt)
    for rt in routes:
        b = runs[rt]
        if b["timeout"] or b["wall"] > 10:
            p["dropped"][rt] = "unforced run too slow (%.1fs)" % b["wall"]
            continue
        if rt in unstable:
            p["dropped"][rt] = "not reproducible (addresses, time, ... in the output)"
            continue
        if rt in ("interp-as", "interp-ao") and "interp-nogc" in runs and "interp-nogc" not in unstable:
            c = classify(b, runs["interp-nogc"])
            if c and agrees(p, runs["interp-nogc"]):
                p["natural"].append((rt, "natural:" + c[0],
                                     "the unforced run differs from the run with the collector off (-Wno-gc): " + c[1]))
                continue
        if rt == "exe" and faulty(b) and p["expect_out"] is not None and p["expect_status"] == "ok" and \
                ("interp-nogc" not in runs or agrees(p, runs["interp-nogc"])):
            # the compiled program has no collector-off switch; a storage fault in a program whose expected
            # behaviour is known (and met by the interpreter with its collector off) is the run time's doing
            p["natural"].append((rt, "natural:fault", "the unforced compiled program ends in a fault (rc %s, %r); expected "
                                 "output %r" % (b["rc"], (b["out"] + b["err"])[-200:], p["expect_out"][:80])))
            continue
        if rt == "exe" and not agrees(p, b) and p["family"] in ("hand", "scale", "corpus") and p["expect_out"] is not None \
                and not p.get("opt") and "interp-nogc" in runs and agrees(p, runs["interp-nogc"]):
            # hand-written / scale / corpus programs at default options are calibrated: every route prints the oracle's
            # text on the unchanged tree (not so with -Qkillp, which miscompiles the `pretend' idiom of the tree domain).  The compiled program has no collector-off switch, so a wrong unforced result that the
            # interpreter with its collector off does not share is put down to the natural collections.
            c = classify(b, dict(b, out=p["expect_out"].encode(), rc=0)) or ("output", "")
            p["natural"].append((rt, "natural:" + c[0], "the unforced compiled program differs from the expected output, which "
                                 "the interpreter with its collector off (-Wno-gc) prints: " + c[1]))
            continue
        if not agrees(p, b):
            p["dropped"][rt] = "unforced run disagrees with the oracle / faults (matter of C01/C03, not of collection)"
            continue
        p["base"][rt] = b
    if not any(rt in p["base"] for rt in ("exe", "interp-as", "interp-ao")):
        p["skip"] = "no usable route: %s" % p["dropped"]
    return p


# ------------------------------------------------------------------ schedules

K_QUICK = [1, 2, 3, 5, 17, 100]
K_THOROUGH = [1, 2, 3, 4, 5, 6, 7, 8, 10, 13, 17, 25, 32, 50, 64, 100, 128, 200, 256, 333, 500, 640, 777, 1000]


def js_for(rng, k, full_upto, nsample):
    """all offsets for small k, a sample otherwise"""
    if k <= full_upto:
        return list(range(k))
    return sorted(rng.sample(range(k), min(k, nsample)))


def calibrate(tools, p):
    """Two cheap forced runs per route give the cost model: est(route, k) = t0 + c / k."""
    lib = p.get("lib", "aldor")
    est = {}
    fails = []
    big = p["family"] == "scale" or p.get("scale")        # big heaps: one collection costs 5-20 ms
    for rt, k in ((("exe", 997), ("interp-ao", 4999), ("interp-as", 16381)) if big else
                  (("exe", 100), ("interp-ao", 150), ("interp-as", 2000))):
        if rt not in p["base"]:
            continue
        t0 = p["base"][rt]["wall"]
        r = tools.run(rt, p, sched=(k, k // 2), timeout=300, detail=(rt == "exe"))
        c = classify(r, p["base"][rt])
        if c:
            fails.append((rt, (k, k // 2), c))
        est[rt] = (t0, max(0.001, r["wall"] - t0) * k)
        if rt == "exe":
            p["nalloc_exe"] = r["err"].count(b"GC:") * k
    p["est"] = est
    return fails


def est_cost(p, rt, k):
    t0, c = p["est"][rt]
    return t0 + c / k



# ------------------------------------------------------------------ interactive sessions (#int gc -> fintFreeJunk + stoGc)

GL_NOISE = re.compile(rb"^(Garbage collection\.\.\.|done\.|Totals:| Time .*| Store .*|\s*)$")
GL_TIMES = re.compile(rb"Comp: *\d+ msec, Interp: *\d+ msec")


def gloop_session(rng):
    """One statement per line; -> (lines, expected stdout lines in order).  Python oracle for the printed lines."""
    n, m, a = rng.randint(4, 9), rng.randint(2, 7), rng.randint(0, 20)
    k, k2, x, n2 = rng.randint(22, 34), rng.randint(16, 22), rng.randint(2, 9), rng.randint(2, 5)
    p1, p2 = rng.sample(["ab", "q", "xyz", "Z9", "hello "], 2)
    la = [i * m + a for i in range(1, n + 1)]
    lb = [F.pfact(i) for i in range(15, 15 + n2 + 1)]
    lines = [
        '#include "aldor"', '#include "aldorio"',
        'import from MachineInteger, Integer, String, List MachineInteger, List Integer;',
        'fact(n: MachineInteger): Integer == { r: Integer := 1; for i: MachineInteger in 1..n repeat r := r * (i::Integer); r }',
        'la: List MachineInteger := [i * %d + %d for i: MachineInteger in 1..%d];' % (m, a, n),
        'bf: Integer := fact(%d);' % k,
        'sa: String := "%s" + "%s";' % (p1, p2),
        'mk(k: MachineInteger): MachineInteger -> Integer == (x: MachineInteger): Integer +-> fact(k) * (x::Integer);',
        'cl: MachineInteger -> Integer := mk(%d);' % k2,
        'lb: List Integer := [fact(i) for i: MachineInteger in 15..%d];' % (15 + n2),
        'la := reverse!(la);',
        'stdout << la << newline;',
        'stdout << bf << " " << sa << newline;',
        'stdout << cl(%d) << " " << lb << newline;' % x,
        'la := cons(#lb, la);',
        'stdout << la << " " << (bf quo fact(%d)) << newline;' % (k - 2),
    ]
    ra = list(reversed(la))
    exp = [F.plist(ra), "%d %s" % (F.pfact(k), p1 + p2), "%d %s" % (F.pfact(k2) * x, F.plist(lb)),
           "%s %d" % (F.plist([len(lb)] + ra), F.pfact(k) // F.pfact(k - 2))]
    return lines, exp


def gloop_text(lines, gc_after):
    out = []
    for i, l in enumerate(lines):
        out.append(l)
        if i in gc_after:
            out.append("#int gc")
    return "\n".join(out + ["#quit", ""])


def gloop_run(tools, text, d, sched=None, timeout=120, nogc=False):
    os.makedirs(d, exist_ok=True)
    env = dict(tools.env)
    if sched:
        env["ALDOR_VERIF_GC"] = "%d:%d" % sched
    t0 = time.time()
    p = subprocess.Popen(tools.base("aldor") + (["-Wno-gc"] if nogc else []) + ["-gloop"], cwd=d, env=env, stdin=subprocess.PIPE,
                         stdout=subprocess.PIPE, stderr=subprocess.PIPE, start_new_session=True)
    try:
        out, err = p.communicate(text.encode(), timeout=timeout)
        to = False
    except subprocess.TimeoutExpired:
        try:
            os.killpg(p.pid, signal.SIGKILL)
        except OSError:
            pass
        out, err = p.communicate()
        to = True
    canon = b"\n".join(GL_TIMES.sub(b"Comp/Interp", l) for l in out.split(b"\n") if not GL_NOISE.match(l))
    return {"rc": p.returncode, "out": canon, "raw": out, "err": err, "wall": time.time() - t0, "timeout": to}


def gloop_stage(rep, tools, rng, tier, base):
    """Interactive route: the same session with and without `#int gc' between the statements (and, in addition,
    under forced collections).  `#int gc' runs fintFreeJunk (zero the interpreter stack) and then the collector."""
    quick = tier == "quick"
    n_sess = 3 if quick else 16
    scheds = [None, (1000, rng.randrange(1000))] if quick else \
        [None, (100, rng.randrange(100)), (333, rng.randrange(333)), (1000, rng.randrange(1000))]
    jobs = []
    for si in range(n_sess):
        seed = rng.randrange(1 << 40)
        lines, exp = gloop_session(random.Random(seed))
        jobs.append((seed, lines, exp))
    stats = collections.Counter()
    t_lim = 40 if quick else 300                 # a session takes 0.5 s, a few seconds under forced collections
    stage_deadline = time.time() + (60 if quick else 900)

    def one(job):
        seed, lines, exp = job
        d = "%s/gl%d" % (base, next(_uniq))
        if time.time() > stage_deadline:
            return job, None, [("skip", None, None, "not run: the sessions before it used up the stage's time")]
        ref = gloop_run(tools, gloop_text(lines, ()), d, nogc=True, timeout=t_lim)       # reference: collector off
        res = []
        if ref["timeout"] or ref["rc"] != 0:
            return job, ref, [("skip", None, None, "collector-off session fails: rc %s %r" % (ref["rc"], ref["err"][-200:]))]
        got = [l for l in ref["out"].decode("utf-8", "replace").split("\n")]
        pos = 0
        for e in exp:                      # the printed lines, in order, among the interpreter's chatter
            while pos < len(got) and got[pos] != e:
                pos += 1
            if pos == len(got):
                return job, ref, [("skip", None, None, "collector-off session does not print the expected line %r" % e)]
        nat = gloop_run(tools, gloop_text(lines, ()), d, timeout=t_lim)     # natural collections only
        res.append(("run", (), None, classify(nat, ref)))
        allpos = tuple(range(3, len(lines)))
        for sched in scheds:
            if time.time() > stage_deadline:
                break
            r = gloop_run(tools, gloop_text(lines, allpos), d, sched=sched, timeout=t_lim)
            c = classify(r, ref)
            res.append(("run", allpos, sched, c))
            if c and c[0] != "hang":           # which single collection point is enough?
                for i in allpos:
                    if time.time() > stage_deadline:
                        break
                    r1 = gloop_run(tools, gloop_text(lines, (i,)), d, sched=sched, timeout=t_lim)
                    c1 = classify(r1, ref)
                    if c1 and c1[0] != "hang":
                        res.append(("run", (i,), sched, c1))
                        break
        return job, ref, res
    with concurrent.futures.ThreadPoolExecutor(C.NCPU) as ex:
        for (seed, lines, exp), ref, res in ex.map(one, jobs):
            worst = None
            for kind, pos, sched, c in res:
                if kind == "skip":
                    stats["sessions_unusable"] += 1
                    rep.notes.append("gloop session %d unusable: %s" % (seed, c))
                    continue
                stats["session_runs"] += 1
                if c:
                    if worst is None or len(pos) < len(worst[0]):
                        worst = (pos, sched, c)
                    if not pos:
                        break
            if worst:
                pos, sched, c = worst
                text = gloop_text(lines, pos)
                rep.violation("interactive session (aldor -gloop) %d: %s, compared with the collector-off session (-Wno-gc), %s%s - %s"
                              % (seed, {"fault": "storage fault", "output": "different transcript"}.get(c[0], c[0]),
                                 "when `#int gc' follows statement(s) %s" % list(pos) if pos else "with natural collections only",
                                 " under ALDOR_VERIF_GC=%d:%d" % sched if sched else "", c[1]),
                              {"how_to_replay": ["./check C09 --replay <this file>",
                                                 "ALDORROOT=%s/aldor LC_ALL=C %s%s -gloop < session   # versus the same session "
                                                 "without the `#int gc' lines" % (C.RB, "ALDOR_VERIF_GC=%d:%d " % sched if sched else "",
                                                                                   " ".join(tools.base("aldor")))],
                               "route": "gloop", "session": text, "session_plain": gloop_text(lines, ()),
                               "k": sched[0] if sched else 0, "j": sched[1] if sched else 0,
                               "expected_printed_lines": exp, "reference_transcript": ref["out"].decode("utf-8", "replace")[:4000]},
                              key="gc:gloop:%d:%s:%s" % (seed, (",".join(map(str, pos)) if len(pos) < 4 else "all") if pos else "natural",
                                                         "%d:%d" % sched if sched else "int-gc"))
    return dict(stats)


# ------------------------------------------------------------------ the check

def hook_sanity(rep):
    """The hook and the poisoning the schedule runs rely on must be active in the CURRENT store.c."""
    h = C.build_harness("c09", "c09/h.c", HARNESS_FILES)
    res = {}
    ok = True
    for tag, mode, env, want in (("free", "free", {}, lambda n, N: n == N),
                                 ("gc", "gc", {}, lambda n, N: n * 2 >= N),
                                 ("nohook", "hook", {}, lambda n, N: n == 0),
                                 ("hook8:3", "hook", {"ALDOR_VERIF_GC": "8:3"}, lambda n, N: n * 2 >= N),
                                 ("hook1:0", "hook", {"ALDOR_VERIF_GC": "1:0"}, lambda n, N: n * 2 >= N)):
        e = dict(os.environ)
        e.pop("ALDOR_VERIF_GC", None)
        e.update(env)
        rc, out, err = C.run([h, mode], env=e, timeout=60)
        m = re.search(r"poisoned=(\d+) of (\d+) kept_ok=(\d)", out)
        res[tag] = out.strip() or ("rc=%d %s" % (rc, err[-200:]))
        if not m or not want(int(m.group(1)), int(m.group(2))) or m.group(3) != "1":
            ok = False
    if not ok:
        rep.violation("the forced-collection hook / 0xDD poisoning of store.c is not active or frees a rooted block: %s"
                      % res, {"harness": "harness/c09/h.c", "results": res}, no_input=True)
    return ok, res


def make_jobs(progs, tier, rng):
    """-> list of dict(p, route, k, j, cost, prio, too_slow).  prio 0 = must run; larger = admitted while the
    core-second budget lasts.  Small k is expensive (one collection per k allocations: ~0.5 ms each in a compiled
    program, ~10 ms in the interpreter, whose heap holds the loaded libraries), so the interpreter gets the full
    small-k enumeration only for its cheapest hand-written programs."""
    jobs = []
    quick = tier == "quick"
    ks = K_QUICK if quick else K_THOROUGH
    cap_exe = 45 if quick else 400
    cap_int = 55 if quick else 900
    usable = [p for p in progs if not p.get("skip")]

    def cheapest(rt, fam, n):
        c = [p for p in usable if rt in p.get("est", {}) and p["family"] in fam]
        return [id(p) for p in sorted(c, key=lambda p: est_cost(p, rt, 1))[:n]]
    int_full = cheapest("interp-ao", ("hand",), 1 if quick else 4)
    int_some = cheapest("interp-ao", ("hand", "mini", "corpus"), 6 if quick else 14)
    as_some = cheapest("interp-as", ("hand", "mini", "repo", "corpus"), 2 if quick else 30)

    def add(p, rt, k, js, prio, cap):
        c = est_cost(p, rt, k)
        for j in js:
            jobs.append({"p": p, "route": rt, "k": k, "j": j, "cost": c, "prio": prio, "too_slow": c > cap})
    ks_scale = [997, 4999, 16381] if quick else [499, 997, 2003, 4999, 9973, 16381]
    for p in usable:
        if p["family"] == "scale" or p.get("scale"):
            # every k is below the smallest structure (20000 cells / slots; the junk phases allocate as much again),
            # so at least one collection falls while the whole structure is alive and before it is verified
            for k in ks_scale:
                if "exe" in p["est"]:
                    add(p, "exe", k, js_for(rng, k, 0, 2 if quick else 4), 0, cap_exe)
                if "interp-ao" in p["est"] and (k >= 4999 or not quick):
                    add(p, "interp-ao", k, js_for(rng, k, 0, 1 if quick else 2), 0, cap_int)
                if "interp-as" in p["est"] and k >= (16381 if quick else 4999):
                    add(p, "interp-as", k, js_for(rng, k, 0, 1), 0 if quick else 1, cap_int)
            continue
        hand = p["family"] in ("hand", "corpus")
        # quick tier: the full small-k enumeration goes to the corpus and to the one-shape-per-program part of the
        # hand family (every shape present whatever the seed); the other programs get one offset per k
        core = p["family"] == "corpus" or (p["family"] == "hand" and len(p["shapes"]) == 1 and str(p.get("pseed", "")).startswith("s"))
        for k in ks:
            if "exe" in p["est"]:
                if quick:
                    add(p, "exe", k, js_for(rng, k, 5 if core else 1, 1), 0 if k == 1 or core or k >= 17 else 1, cap_exe)
                else:
                    add(p, "exe", k, js_for(rng, k, 8 if hand else 2, 6 if hand else 2), 0 if k <= 8 else 1, cap_exe)
            if "interp-ao" in p["est"]:
                if id(p) in int_full:
                    if quick:
                        add(p, "interp-ao", k, js_for(rng, k, 3, 2 if k == 5 else 1), 0, cap_int)
                    else:
                        add(p, "interp-ao", k, js_for(rng, k, 6, 4), 0 if k <= 5 else 1, cap_int)
                elif id(p) in int_some and k > 1:
                    add(p, "interp-ao", k, js_for(rng, k, 0, 1 if quick else 2), 0 if quick and k >= 17 else 1, cap_int)
                elif k >= 17 and not quick:
                    add(p, "interp-ao", k, js_for(rng, k, 0, 1), 1, cap_int)
            if "interp-as" in p["est"] and k >= (100 if quick else 50) and id(p) in as_some:
                add(p, "interp-as", k, js_for(rng, k, 0, 1 if quick else 2), 0 if quick else 1, cap_int)
        if "interp-as" in p["est"] and quick and hand:       # the compile phase under collection as well (cheap at k = 1000)
            add(p, "interp-as", 1000, js_for(rng, 1000, 0, 1), 1, cap_int)
    return jobs


def run(rep, tier):
    t_start = time.time()
    quick = tier == "quick"
    window = (100 if quick else 2300)          # seconds of wall time for the schedule runs
    C.proof_stage(rep, ID, ["Props/Properties_C09.vo"], "Props/Properties_C09.v", None, defer=True)
    tools = Tools()
    ok_hook, hook_res = hook_sanity(rep)
    mini_ok = True
    try:
        mini.build()
    except Exception as e1:          # the MiniAldor tool (owned by C01) does not build right now:
        try:                         # use its last extraction; without it, run the other families only
            mini.build(rebuild_coq=False)
            rep.notes.append("MiniAldor tool: Coq sources do not build (%s); last extraction used" % str(e1)[:120])
        except Exception as e2:
            mini_ok = False
            rep.notes.append("MiniAldor tool unavailable (%s): no MiniAldor programs in this run" % str(e2)[:120])
    base = C.scratch("c09")
    rng = C.rng("c09")
    failures = []            # dict(p, route, sched, kind, detail)

    # ---- programs: corpus of past failures first, then the three families
    corpus = load_corpus()
    n_hand, n_mini, n_repo = (14, 6, 4) if quick else (60, 40, 40)
    consts = F.store_constants(C.SRC)
    scale = scale_programs(rng, 4 if quick else 24, consts, tier)
    progs = corpus + scale + hand_programs(rng, n_hand) + (mini_programs(rng, n_mini, tier) if mini_ok else []) + \
        repo_programs(rng, n_repo)
    t_gen = time.time() - t_start

    prep_deadline = time.time() + (60 if quick else 600)

    def prep(ip):
        i, p = ip
        if time.time() > prep_deadline:
            p["skip"] = "not prepared: the programs before it used up the preparation time (builds / unforced runs hang?)"
            return p, [], []
        p["timeouts"] = (40, 15) if quick else (90, 30)
        prepare(tools, p, "%s/p%03d" % (base, i))
        if p.get("skip"):
            return p, p.get("natural", []), []
        if p.get("natural_only"):          # known finding about the natural schedule: judged by its unforced runs only
            p["est"] = {}
            return p, p["natural"], []
        return p, p["natural"], calibrate(tools, p)
    with concurrent.futures.ThreadPoolExecutor(C.NCPU) as ex:
        for p, nat, cal in ex.map(prep, enumerate(progs)):
            for rt, kind, detail in nat:
                failures.append({"p": p, "route": rt, "sched": None, "kind": kind, "detail": detail})
            for rt, sched, c in cal:
                failures.append({"p": p, "route": rt, "sched": sched, "kind": c[0], "detail": c[1]})
    t_prep = time.time() - t_start - t_gen
    skipped = [(p["name"], p["skip"]) for p in progs if p.get("skip")]
    usable = [p for p in progs if not p.get("skip")]
    for p in corpus:
        if p.get("skip"):
            rep.notes.append("corpus entry %s unusable: %s" % (p["name"], p["skip"]))

    # ---- corpus entries: their recorded schedule first
    jobs = []
    for p in corpus:
        if not p.get("skip") and p.get("route") in p["base"]:
            if not p.get("natural_only"):
                jobs.append({"p": p, "route": p["route"], "k": p["k"], "j": p["j"], "cost": 0, "prio": -1, "too_slow": False})
    jobs += make_jobs(progs, tier, rng)
    too_slow = [j for j in jobs if j["too_slow"]]
    jobs = [j for j in jobs if not j["too_slow"]]
    # admit jobs by priority until the core-second budget is used, then longest first
    budget = C.NCPU * window * 0.85
    jobs.sort(key=lambda j: (j["prio"], j["cost"]))
    admitted, used = [], 0.0
    for j in jobs:
        if j["prio"] <= 0 or used + j["cost"] <= budget:
            admitted.append(j)
            used += j["cost"]
    not_admitted = len(jobs) - len(admitted)
    admitted.sort(key=lambda j: -j["cost"])
    deadline = time.time() + window
    done = collections.Counter()
    ran_k = collections.Counter()
    late = 0
    hist_cost = []

    def one(j):
        if time.time() > deadline and j["prio"] > 0:
            return j, None
        p = j["p"]
        r = tools.run(j["route"], p, sched=(j["k"], j["j"]), timeout=max(60, 3 * j["cost"] + 30))
        return j, r
    suspects = []
    with concurrent.futures.ThreadPoolExecutor(C.NCPU) as ex:
        for j, r in ex.map(one, admitted):
            if r is None:
                late += 1
                continue
            done[j["route"]] += 1
            ran_k[(j["route"], j["k"])] += 1
            hist_cost.append(r["wall"])
            c = classify(r, j["p"]["base"][j["route"]])
            if c and c[0] == "hang":
                suspects.append(j)
            elif c:
                failures.append({"p": j["p"], "route": j["route"], "sched": (j["k"], j["j"]), "kind": c[0], "detail": c[1]})
    for j in suspects[:2]:       # a time-out under load is not yet a hang: once more, alone, three times the limit
        r = tools.run(j["route"], j["p"], sched=(j["k"], j["j"]), timeout=max(60, 3 * j["cost"] + 30))
        c = classify(r, j["p"]["base"][j["route"]])
        if c:
            failures.append({"p": j["p"], "route": j["route"], "sched": (j["k"], j["j"]), "kind": c[0], "detail": c[1]})
    t_run = time.time() - t_start - t_gen - t_prep

    # ---- interactive sessions with `#int gc' (fintFreeJunk + collection between top-level statements)
    t1 = time.time()
    gl_stats = gloop_stage(rep, tools, rng, tier, base)
    t_gloop = time.time() - t1

    # ---- shrink + report
    report_failures(rep, tools, failures, base, tier)

    # ---- evidence
    fam = collections.Counter(p["family"] for p in usable)
    shapes = collections.Counter(s for p in usable for s in p["shapes"])
    nalloc = [p["nalloc_exe"] for p in usable if p.get("nalloc_exe")]
    n_runs = sum(done.values()) + sum(len(p["base"]) + len(p.get("est", {})) for p in usable)
    rep.add_cov(evaluations=n_runs,
                distinct_nontrivial=len({p["src"] for p in usable}),
                traces_validated_against_impl=sum(done.values()),
                rule="stdout bytes and exit status under ALDOR_VERIF_GC=k:j equal those of the same route without the "
                     "variable (which equal the oracle's expected output and, for the interpreter, the -Wno-gc run); no "
                     "fault text / signal; no 0xDD poison in the output",
                samples=[{"name": p["name"], "shapes": p["shapes"], "allocations(exe)": p.get("nalloc_exe")}
                         for p in usable[:12]],
                input_distribution={
                    "programs_usable": len(usable), "by_family": dict(fam), "shapes(programs containing)": dict(shapes),
                    "scale_family": [{"name": p["name"], **p.get("params", {})} for p in usable if p["family"] == "scale"][:24],
                    "store.c_bounds_read": consts.get("bounds"),
                    "optimisation_options": dict(collections.Counter(" ".join(p.get("opt", [])) or "default" for p in usable)),
                    "programs_skipped": len(skipped), "skipped_reasons": skipped[:12],
                    "routes_dropped(no usable reference run)": sum(len(p.get("dropped", {})) for p in usable),
                    "interpreter_programs_run_without_-Wcheck": [p["name"] for p in usable if not p.get("chk")][:20],
                    "allocations_per_compiled_program(est)": {"min": min(nalloc) if nalloc else None,
                                                              "max": max(nalloc) if nalloc else None},
                    "forced_runs_by_route": dict(done),
                    "forced_runs_by_route_and_k": {"%s k=%d" % k: v for k, v in sorted(ran_k.items())},
                    "schedules_skipped_too_slow(est)": len(too_slow),
                    "schedules_not_admitted(budget)": not_admitted, "schedules_cut_by_deadline": late,
                    "timeouts_rechecked": ["%s %s %d:%d" % (j["p"]["name"], j["route"], j["k"], j["j"]) for j in suspects],
                    "interactive_sessions(#int gc)": gl_stats,
                    "hook_sanity": hook_res},
                timings_s={"generate": round(t_gen, 1), "build+baseline+calibrate": round(t_prep, 1),
                           "schedule_runs": round(t_run, 1), "gloop_sessions": round(t_gloop, 1),
                           "longest_run": round(max(hist_cost), 1) if hist_cost else 0})
    if len(usable) * 2 < len(progs) and not rep.violations and not rep.known:
        rep.violation("more than half of the programs were unusable (do not build / disagree with their oracle before any "
                      "forced collection)", {"skipped": skipped}, no_input=True)
    if sum(done.values()) < (60 if quick else 1500):
        rep.notes.append("only %d forced runs finished inside the time window (machine loaded?)" % sum(done.values()))
    rep.assume(
        "PARTIAL: the theorems are about an abstract heap with an exact root set; the real collector's conservative scan of "
        "the C stack, registers (setjmp buffer) and static data, and pointers hidden by the C compiler or by of_killp.c, are "
        "only exercised by the schedule runs",
        "the hook ALDOR_VERIF_GC=k:j (store.c, guarded by ALDOR_VERIF) collects exactly at the allocation ordinals n with "
        "n mod k = j; checked on every run by harness/c09/h.c (together with the 0xDD poisoning of freed pieces)",
        "interpreter runs use -Wcheck (store washing on: freed pieces 0xDD, new pieces 0xAA; compiler assertions on); "
        "the compiled route's runtime always washes",
        "small k on the interpreter route is run from the saved .ao (the compile phase alone allocates ~130000 times, "
        "one collection ~10 ms); the from-source interpreter route is run for k >= %d" % (100 if quick else 50),
        "a schedule whose estimated cost exceeds the per-run cap is skipped and counted (schedules_skipped_too_slow)",
        "Aldor libraries libaldor / libaxllib (.al, .a) are the pre-built ones of /repo",
        "hand family oracle: tools/c09_family.py (exact Python arithmetic); MiniAldor oracle: coq/Mini (C01)",
        "repository test programs have no oracle: the unforced run, checked to be reproducible, is the reference",
        "fintFreeJunk (interpreter stack cleaning) is reachable only from the interactive `#int gc' command: exercised by "
        "-gloop sessions with `#int gc' between the statements; transcripts are compared after removing the collector's own "
        "report lines and the Comp/Interp timing figures")


# ------------------------------------------------------------------ corpus of past failures

def load_corpus():
    d = os.path.join(C.VERIF, "corpus", ID)
    out = []
    if os.path.isdir(d):
        for fn in sorted(os.listdir(d)):
            if fn.endswith(".json"):
                try:
                    o = json.load(open(os.path.join(d, fn)))
                except (OSError, ValueError):
                    continue
                out.append({"name": "corpus/" + fn[:-5], "family": "corpus", "lib": o.get("lib", "aldor"),
                            "shapes": o.get("shapes", ["corpus"]), "opt": o.get("opt", []), "src": o["src"],
                            "expect_out": o.get("expect_out"),
                            "expect_status": o.get("expect_status", "ok" if o.get("expect_out") is not None else None),
                            "route": o.get("route", "exe"), "k": int(o.get("k", 1)), "j": int(o.get("j", 0)),
                            "key": o.get("key"), "fault_key": o.get("fault_key"), "scale": bool(o.get("scale")),
                            "natural_only": bool(o.get("natural_only"))})
    return out


# ------------------------------------------------------------------ shrinking and reporting

def fails_under(tools, p, route, scheds, limit_s):
    """First schedule of `scheds' on which p (prepared) fails on `route', else None."""
    t0 = time.time()
    lib = p.get("lib", "aldor")

    def one(s):
        if time.time() - t0 > limit_s:
            return s, None
        r = tools.run(route, p, sched=s, timeout=max(60, limit_s))
        return s, classify(r, p["base"][route])
    with concurrent.futures.ThreadPoolExecutor(C.NCPU) as ex:
        for s, c in ex.map(one, scheds):
            if c and c[0] != "hang":
                return s, c
    return None


def sched_neighbourhood(k, j):
    if k <= 8:
        return [(k, x) for x in range(k)]
    return [(k, j)] + [(k, x) for x in sorted({0, 1, k // 3, k // 2, k - 1} - {j})]


def shrink_hand(tools, p, route, sched, base, budget_s):
    """Drop blocks, then lower scales, while some schedule (k, any j near) still fails."""
    t0 = time.time()
    spec = [tuple(s) for s in p["spec"]]
    best = (p, sched)

    def attempt(sp):
        q = hand_program(p["pseed"], spec=sp, opt=p.get("opt"))
        prepare(tools, q, "%s/shr%d" % (base, next(_uniq)), want_interp=route != "exe")
        if q.get("skip") or route not in q["base"]:
            return None
        b = q["base"][route]
        if b["out"] != q["expect_out"].encode() or b["rc"] != 0:
            return None
        f = fails_under(tools, q, route, sched_neighbourhood(*best[1]), 60)
        return (q, f[0]) if f else None
    changed = True
    while changed and time.time() - t0 < budget_s and len(spec) > 1:
        changed = False
        for i in range(len(spec)):
            sp = spec[:i] + spec[i + 1:]
            a = attempt(sp)
            if a:
                spec, best, changed = sp, a, True
                break
    for i in range(len(spec)):
        if spec[i][2] > 1 and time.time() - t0 < budget_s:
            sp = spec[:i] + [(spec[i][0], spec[i][1], 1)] + spec[i + 1:]
            a = attempt(sp)
            if a:
                spec, best = sp, a
    return best


def shrink_mini(tools, p, route, sched, base, budget_s):
    best = [p, sched]

    def still_fails(q):
        qq = {"name": "mini-shr", "family": "mini", "lib": "aldor", "src": q["src"], "expect_out": q["expect_out"],
              "expect_status": q["expect_status"], "shapes": p["shapes"]}
        prepare(tools, qq, "%s/shr%d" % (base, next(_uniq)), want_interp=route != "exe")
        if qq.get("skip") or route not in qq["base"]:
            return False
        b = qq["base"][route]
        if b["out"] != qq["expect_out"].encode() or b["rc"] != 0:
            return False
        f = fails_under(tools, qq, route, sched_neighbourhood(*sched), 60)
        if f:
            q["_found"] = (qq, f[0])
        return bool(f)
    try:
        path, small = mini.shrink(p["seed"], p["size"], still_fails, budget_s=budget_s)
    except Exception:
        return tuple(best)
    if small.get("_found"):
        qq, s = small["_found"]
        qq.update({"seed": p["seed"], "size": p["size"], "path": path,
                   "name": "mini-%d-%d-%s" % (p["seed"], p["size"], ".".join(map(str, path)) or "-")})
        return qq, s
    return tuple(best)


def shrink_scale(tools, p, route, sched, base, budget_s, consts):
    """Halve the structure while it still fails (same kind, same seed)."""
    t0 = time.time()
    best = (p, sched)
    n = p["params"].get("n") or p["params"].get("m")
    while n and n > 64 and time.time() - t0 < budget_s:
        n //= 2
        q = F.scale_program(p["kind"], p["sseed"], consts, size=n)
        prepare(tools, q, "%s/shr%d" % (base, next(_uniq)), want_interp=True)
        if sched is None:
            if not any(x[0] == route for x in q.get("natural", [])):
                break
            best = (q, None)
            continue
        if q.get("skip") or route not in q["base"]:
            break
        f = fails_under(tools, q, route, sched_neighbourhood(*best[1]), 60)
        if not f:
            break
        best = (q, f[0])
    return best


def smallest_k(tools, p, route, sched, budget_s, est=None):
    """Smallest affordable k (and its first j) below the found one that still fails.  Small k costs the most
    (est = (t0, c): one run at k takes about t0 + c / k seconds), so candidates estimated above the budget are
    not tried: the result is the smallest failing k among those that could be run."""
    t0 = time.time()
    k0 = sched[0]
    for k in [1, 2, 3, 4, 5, 6, 7, 8, 10, 13, 17, 25, 32, 50, 64, 100, 128, 200, 256, 333, 500, 1000]:
        if k >= k0 or time.time() - t0 > budget_s:
            break
        if est and est[0] + est[1] / k > budget_s / 2:
            continue
        js = list(range(k)) if k <= 8 else sorted({0, 1, k // 3, k // 2, k - 1})
        f = fails_under(tools, p, route, [(k, j) for j in js], max(30, budget_s - (time.time() - t0)))
        if f:
            return f[0]
    return sched


def report_failures(rep, tools, failures, base, tier):
    if not failures:
        return
    quick = tier == "quick"
    # one report per (program, route): the failing schedule with the smallest k
    best = {}
    for f in failures:
        key = (f["p"]["name"], f["route"])
        if key not in best or (f["sched"] or (0, 0)) < (best[key]["sched"] or (0, 0)):
            best[key] = f
    cnt = collections.Counter((f["p"]["name"], f["route"]) for f in failures)
    groups = sorted(best.values(), key=lambda f: (f["p"]["family"] != "corpus", f["p"]["family"] not in ("hand", "scale"),
                                                  len(f["p"]["src"])))
    shrunk = 0
    emitted = collections.Counter()      # per (route, natural?) class: at most 4 new violations are written out
    suppressed = collections.Counter()
    for f in groups:
        p, route, sched = f["p"], f["route"], f["sched"]
        cls = (route, sched is None)
        if emitted[cls] >= 4:
            suppressed[cls] += 1
            continue
        note = ""
        if p["family"] == "scale" and shrunk < (2 if quick else 6) \
                and not rep.finding_key_known(key_of(p, route, sched, f["kind"])):
            shrunk += 1
            try:
                q, s2 = shrink_scale(tools, p, route, sched, base, 30 if quick else 300, F.store_constants(C.SRC))
                if q is not p:
                    note = " (shrunk from %s)" % p["name"]
                    if s2 is None:
                        nat = [x for x in q["natural"] if x[0] == route][0]
                        p, sched, f = q, None, dict(f, kind=nat[1], detail=nat[2])
                    else:
                        r = tools.run(route, q, sched=s2, timeout=300)
                        c = classify(r, q["base"][route])
                        if c:
                            p, sched, f = q, s2, dict(f, kind=c[0], detail=c[1])
            except Exception as e:
                note = " (shrinking failed: %s)" % str(e)[:100]
        elif sched is not None and p["family"] in ("hand", "mini") and shrunk < (2 if quick else 6) \
                and not rep.finding_key_known(key_of(p, route, sched, f["kind"])):
            shrunk += 1
            budget = 30 if quick else 600
            try:
                if p["family"] == "hand":
                    q, s = shrink_hand(tools, p, route, sched, base, budget)
                else:
                    q, s = shrink_mini(tools, p, route, sched, base, budget)
                s = smallest_k(tools, q, route, s, budget, f["p"].get("est", {}).get(route))
                r = tools.run(route, q, sched=s, timeout=300)
                c = classify(r, q["base"][route])
                if c:
                    note = " (shrunk from %s under %d:%d)" % (p["name"], sched[0], sched[1])
                    p, sched, f = q, s, dict(f, kind=c[0], detail=c[1])
            except Exception as e:      # the shrinker must never hide the failure itself
                note = " (shrinking failed: %s)" % str(e)[:100]
        if emit(rep, tools, p, route, sched, f["kind"], f["detail"], note, cnt[(f["p"]["name"], f["route"])]):
            emitted[cls] += 1
    for cls, n in suppressed.items():
        rep.notes.append("%d further failing program(s) on route %s (%s) not written out" %
                         (n, cls[0], "natural schedule" if cls[1] else "forced schedules"))


def key_of(p, route, sched, kind="fault"):
    """<route>:<program>:<k:j | natural>, plus the kind of failure when it is not a fault - so that a listed fault does
    not hide a wrong output of the same program"""
    k = kind.split(":")[-1]
    return _key_of(p, route, sched) + ("" if k == "fault" else ":" + k)


def _key_of(p, route, sched):
    if p.get("fault_key"):
        return p["fault_key"].format(route=route)
    if p.get("key"):
        return p["key"]
    nm = "+".join(sorted(p["shapes"])) + "".join("@" + o for o in p.get("opt", ())) if p["family"] == "hand" else p["name"]
    return "gc:%s:%s:%s" % (route, nm, "%d:%d" % sched if sched else "natural")


def emit(rep, tools, p, route, sched, kind, detail, note, n_sched):
    what = "%s route, program %s%s: %s under %s - %s (%d failing schedule(s) seen for this program)" % (
        route, p["name"], note, {"fault": "storage fault", "poison": "poisoned (freed) storage visible in the output",
                                 "output": "different output", "status": "different exit status",
                                 "hang": "no termination"}.get(kind.split(":")[-1], kind),
        "ALDOR_VERIF_GC=%d:%d" % sched if sched else "the unforced (natural) collection schedule", detail, n_sched)
    obj = {"how_to_replay": how_to_replay(tools, p, route, sched or (0, 0)), "name": p["name"], "family": p["family"],
           "lib": p.get("lib", "aldor"), "shapes": p["shapes"], "opt": p.get("opt", []), "route": route,
           "k": sched[0] if sched else 0, "j": sched[1] if sched else 0, "kind": kind,
           "src": p["src"], "expect_out": p["expect_out"], "expect_status": p["expect_status"],
           "spec": p.get("spec"), "pseed": p.get("pseed"), "seed": p.get("seed"), "size": p.get("size"),
           "path": p.get("path") if isinstance(p.get("path"), list) else None,
           "baseline_out": p["base"][route]["out"].decode("utf-8", "replace")[:4000] if route in p.get("base", {}) else None,
           "detail": detail}
    return rep.violation(what, obj, key=key_of(p, route, sched, kind))


def replay(path):
    obj = json.load(open(path))
    rp = obj.get("replay", obj)
    if rp.get("route") == "gloop":
        tools = Tools()
        d = C.scratch("c09r")
        ref = gloop_run(tools, rp["session_plain"], d, nogc=True)
        sched = (int(rp["k"]), int(rp["j"])) if int(rp.get("k", 0)) else None
        r = gloop_run(tools, rp["session"], d, sched=sched, timeout=1800)
        c = classify(r, ref)
        print("--- plain session\n%s\n--- with #int gc%s\n%s" % (ref["out"].decode("utf-8", "replace")[:3000],
              " under ALDOR_VERIF_GC=%d:%d" % sched if sched else "", r["out"].decode("utf-8", "replace")[:3000]))
        if c:
            print("DIFFERS: %s: %s" % c)
            return 1
        print("same behaviour")
        return 0
    if "src" not in rp:
        print("replay: nothing to run (%s)" % obj.get("what"))
        return 2
    tools = Tools()
    p = {"name": rp.get("name", "replay"), "family": rp.get("family", "corpus"), "lib": rp.get("lib", "aldor"),
         "shapes": rp.get("shapes", []), "opt": rp.get("opt", []), "src": rp["src"], "expect_out": rp.get("expect_out"),
         "expect_status": rp.get("expect_status")}
    prepare(tools, p, C.scratch("c09r") + "/r")
    if p.get("skip"):
        print("replay: program unusable: %s" % p["skip"])
        return 2
    route, k, j = rp["route"], int(rp["k"]), int(rp["j"])
    bad = 0
    if k == 0:
        for rt, kind, detail in p["natural"]:
            print("%s: %s %s" % (rt, kind, detail))
            bad = 1
        return bad
    if route not in p["base"]:
        print("replay: route %s has no usable reference run: %s" % (route, p["dropped"]))
        return 2
    b = p["base"][route]
    print("--- baseline (%s, rc %s)\n%s" % (route, b["rc"], b["out"].decode("utf-8", "replace")[:3000]))
    if p["expect_out"] is not None and b["out"] != p["expect_out"].encode():
        print("--- NOTE: baseline differs from the oracle:\n%s" % p["expect_out"][:3000])
    r = tools.run(route, p, sched=(k, j), timeout=1800)
    c = classify(r, b)
    print("--- ALDOR_VERIF_GC=%d:%d (rc %s)\n%s" % (k, j, r["rc"], r["out"].decode("utf-8", "replace")[:3000]))
    if c:
        print("DIFFERS: %s: %s" % c)
        return 1
    print("same behaviour")
    return 0
